SPECIFICATION MCSpec
INVARIANT FailedDumpLeavesDisk
INVARIANT SuccessWrites
PROPERTY NoValidationAfterOpen
PROPERTY Terminates
CHECK_DEADLOCK FALSE
CONSTANTS
 Dev_OpenBeforeSerialize = FALSE
 MaxTop = 4
 MaxNested = 5
