--------------------------- MODULE ComposeAccessGen ---------------------------
(* History generator for ComposeAccess: every history of length D over the kinds in Focus (exhaustive mode), or random
   deep histories over all kinds (-simulate), from four starting directories.  Each history entry is the `last` record
   of its step, i.e. the action AND what the specification says the caller sees.                                     *)
EXTENDS ComposeAccess, Json
CONSTANTS D, Focus
VARIABLES hist, names
Idx(f) == CASE f = <<"info", "cur">> -> 2 [] f = <<"images", "cur">> -> 3 [] f = <<"images", "leg">> -> 4
            [] f = <<"rpms", "cur">> -> 5 [] f = <<"rpms", "leg">> -> 6 [] f = <<"modules", "cur">> -> 7
InitDisk(n) == [f \in Files |->
                  IF n = "none" THEN 0
                  ELSE IF HasLeg(f[1]) /\ f[2] = "leg" /\ n = "cur" THEN 0
                  ELSE IF HasLeg(f[1]) /\ f[2] = "cur" /\ n = "leg" THEN 0
                  ELSE IF n = "curbad" /\ f[2] = "cur" THEN 1         \* every preferred-or-only current name undecodable
                  ELSE Idx(f)]
GInit == \E n \in {"cur", "leg", "both", "none", "curbad"} : names = n /\ Start(InitDisk(n)) /\ hist = <<>>
GStep == \/ \E k \in Focus : Access(k) \/ Edit(k)
         \/ \E f \in Files, w \in {"new", "bad", "gone"} : f[1] \in Focus /\ FileSet(f, w)
         \/ Decoy
GNext == Len(hist) < D /\ GStep /\ hist' = Append(hist, last') /\ UNCHANGED names
Emit == PrintT("@@" \o ToJson([names |-> names, hist |-> hist]))
EmitLast == Len(hist) < D \/ Emit
=============================================================================
