---------------------------- MODULE ImagesManifest ----------------------------
(* Reference model of productmd.images.Images as a builder / loader state machine.
   One action per public call (the linearisation point of a sequential library is the
   call's return, including the error return).  Serves C09 (identity uniqueness),
   C10 (no source architecture keys), and the manifest part of C02 / C05.

   Header versions are integers major*100+minor: 0 = "0.0", 100 = "1.0", 101 = "1.1",
   102 = "1.2", 200 = "2.0" (a later format: read and checked like the newest known one).  An image is a record [n |-> name, ident |-> identity class,
   sums |-> checksum class]; cells maps <<variant, arch>> to a set of images.        *)
EXTENDS Naturals, FiniteSets, Sequences, TLC
CONSTANTS KnownArch,            \* the library's architecture table (incl. src, nosrc)
          SrcArch,              \* {"src", "nosrc"}
          Current,              \* current format version (102)
          Dev_FreshVersionZero  \* as-shipped deviation: a fresh manifest has header 0.0
VARIABLES hdr, cells, exempt, out
vars == <<hdr, cells, exempt, out>>

NoCells == [c \in {} |-> {}]
Filed(cs) == UNION {cs[c] : c \in DOMAIN cs}
Collides(x, y) == x.ident = y.ident /\ x.sums # y.sums
HasCollision(S) == \E x, y \in S : Collides(x, y)
BadArch(a) == a \notin KnownArch \/ a \in SrcArch

Init == /\ hdr = IF Dev_FreshVersionZero THEN 0 ELSE Current
        /\ cells = NoCells /\ exempt = FALSE /\ out = "new"

Put(cs, k, img) == [c \in DOMAIN cs \cup {k} |->
                      IF c = k THEN (IF c \in DOMAIN cs THEN cs[c] ELSE {}) \cup {img} ELSE cs[c]]

(* Images.add: arch must be a known binary arch; from format 1.1 on an image whose identity
   equals a filed image's but whose checksums differ is refused; a refusal changes nothing. *)
Add(v, a, img) ==
  LET clash == hdr >= 101 /\ \E j \in Filed(cells) : Collides(img, j)
  IN  IF BadArch(a) \/ clash
      THEN /\ out' = "ValueError" /\ UNCHANGED <<hdr, cells, exempt>>
      ELSE /\ cells' = Put(cells, <<v, a>>, img)
           /\ out' = "ok" /\ UNCHANGED <<hdr, exempt>>

(* An identifying attribute of an image object that is already filed is reassigned by its owner (plain attribute
   assignment: the library checks nothing, keeping the manifest unique is the caller's obligation, so only edits that
   keep it unique are modelled).  What matters is that every LATER call sees the image as it is now: Eff(i) is the
   object named i.n as filed (possibly edited); an Add of a colliding image after the edit is refused.              *)
Eff(i) == IF \E x \in Filed(cells) : x.n = i.n THEN CHOOSE x \in Filed(cells) : x.n = i.n ELSE i
Edit(n, id) ==
  LET R(x) == IF x.n = n THEN [x EXCEPT !.ident = id] ELSE x
      new  == [c \in DOMAIN cells |-> {R(x) : x \in cells[c]}]
  IN  /\ \E x \in Filed(cells) : x.n = n /\ x.ident # id
      /\ ~HasCollision(Filed(new))
      /\ cells' = new /\ out' = "ok" /\ UNCHANGED <<hdr, exempt>>

(* header.version is a public attribute (the repository's own tests assign it).
   exempt: a pre-1.1 format was *declared* by the caller or by a loaded file.      *)
SetVersion(ver) == /\ hdr' = ver /\ exempt' = (exempt \/ ver < 101)
                   /\ out' = "ok" /\ UNCHANGED cells

(* dumps(): always writes the current version and leaves it in the header. *)
Dump == /\ hdr' = Current /\ out' = "ok" /\ UNCHANGED <<cells, exempt>>

(* loads() of a document `doc` (function <<variant, arch>> -> set of images) whose header
   says version `ver`: for ver <= 1.1 every image under "src" is re-filed under each other
   arch key of the same variant in the document; every image passes the Add guard with
   hdr = ver; all-or-nothing; afterwards the header is the current version.           *)
Targets(doc, ver, k) ==
  IF ver <= 101 /\ k[2] = "src"
  THEN {j \in DOMAIN doc : j[1] = k[1] /\ j[2] # "src"}
  ELSE {k}
Refiled(doc, ver) ==
  LET live == {k \in DOMAIN doc : doc[k] # {}}
      dst  == UNION {Targets(doc, ver, k) : k \in live}
  IN  [c \in dst |-> UNION {doc[k] : k \in {j \in live : c \in Targets(doc, ver, j)}}]
LoadOk(doc, ver) ==
  LET cs == Refiled(doc, ver)
  IN  /\ \A c \in DOMAIN cs : ~BadArch(c[2])
      /\ (ver >= 101 => ~HasCollision(Filed(cs)))
Load(doc, ver) ==
  IF LoadOk(doc, ver)
  THEN /\ cells' = Refiled(doc, ver) /\ hdr' = Current /\ exempt' = (ver < 101) /\ out' = "ok"
  ELSE /\ out' = "ValueError" /\ UNCHANGED <<hdr, cells, exempt>>

(* loads() of a second document into a manifest that already holds images (merging per-arch manifests):
   the document's images are re-filed as above and ADDED to the cells; each passes the Add guard with
   hdr = ver against everything filed.  (On a refusal the real object is left half-merged; behaviours end there.) *)
Merge(cs, ds) == [c \in DOMAIN cs \cup DOMAIN ds |->
                    (IF c \in DOMAIN cs THEN cs[c] ELSE {}) \cup (IF c \in DOMAIN ds THEN ds[c] ELSE {})]
LoadIntoOk(doc, ver) ==
  LET ds == Refiled(doc, ver)
  IN  /\ \A c \in DOMAIN ds : ~BadArch(c[2])
      \* only pairs involving a NEW image are examined (a pair already present from a pre-1.1 load stays)
      /\ (ver >= 101 => ~\E x \in Filed(ds), y \in Filed(cells) \cup Filed(ds) : Collides(x, y))
LoadInto(doc, ver) ==
  IF LoadIntoOk(doc, ver)
  THEN /\ cells' = Merge(cells, Refiled(doc, ver)) /\ hdr' = Current /\ exempt' = (exempt \/ ver < 101) /\ out' = "ok"
  ELSE /\ out' = "ValueError" /\ UNCHANGED <<hdr, cells, exempt>>

-----------------------------------------------------------------------------
(* Properties *)
TypeOK        == hdr \in Nat /\ exempt \in BOOLEAN
NoSourceArch  == \A c \in DOMAIN cells : ~BadArch(c[2])                          \* C10
UniqueIdent   == ~exempt => ~HasCollision(Filed(cells))                           \* C09
VersionKnown  == ~exempt => hdr >= 101
RefusedIsNoop == [][out' = "ValueError" => UNCHANGED <<hdr, cells, exempt>>]_vars \* C09/C10
=============================================================================
