--------------------------- MODULE ApaDev_ComposeAccess ---------------------------
(* Apalache wrapper for ComposeAccess (C20): an inductive invariant with UNBOUNDED content / edit numbers (TLC's MC_ComposeAccess
   bounds them by MaxFresh).
     apalache-mc check --init=Init0   --inv=IndInv --length=0 Apa_ComposeAccess.tla     base case
     apalache-mc check --init=IndInit --inv=IndInv --length=1 Apa_ComposeAccess.tla     inductive step
     apalache-mc check --init=IndInit --inv=Safe   --length=0 Apa_ComposeAccess.tla     IndInv => what an accessor holds / serves *)
EXTENDS Naturals, Sequences, FiniteSets, TLC
PrefCurrent == TRUE
Dev_NoCache == TRUE
Dev_CacheFailure == FALSE
Dev_Fallback == FALSE
VARIABLES
  \* @type: <<Str, Str>> -> Int;
  disk,
  \* @type: Str -> Int;
  cache,
  \* @type: Str -> Bool;
  failed,
  \* @type: Str -> Int;
  edit,
  \* @type: Int;
  fresh,
  \* @type: Bool;
  decoy,
  \* @type: { a: Str, k: Str, s: Str, w: Str, out: Str, v: Int, e: Int };
  last
CA == INSTANCE ComposeAccess
Kinds == CA!Kinds
Files == CA!Files
Acts == {"none", "access", "edit", "file", "decoy"}
Outs == {"", "doc", "missing", "bad"}
TypeOK == /\ disk \in [Files -> Nat] /\ cache \in [Kinds -> Nat] /\ failed \in [Kinds -> BOOLEAN] /\ edit \in [Kinds -> Nat]
          /\ fresh \in Nat /\ decoy \in BOOLEAN
          /\ last \in [a : Acts, k : Kinds \cup {""}, s : {"", "cur", "leg"}, w : {"", "new", "bad", "gone"}, out : Outs, v : Nat, e : Nat]
\* what is true of every reachable state, whatever the numbers:
IndInv == /\ TypeOK
          /\ fresh >= 10
          /\ \A f \in Files : disk[f] < fresh                                 \* contents come from the counter (or the start: < 10)
          /\ \A k \in Kinds : cache[k] = 0 \/ (cache[k] >= 2 /\ cache[k] < fresh)   \* an accessor holds nothing or a DOCUMENT
          /\ \A k \in Kinds : edit[k] = 0 \/ (cache[k] # 0 /\ edit[k] >= 10 /\ edit[k] < fresh)   \* only a held object is ever edited
          /\ (last.a = "access" /\ last.out = "doc" => last.k \in Kinds /\ cache[last.k] # 0 /\ last.v = cache[last.k] /\ last.e = edit[last.k])
Safe == /\ \A k \in Kinds : cache[k] # 1                                      \* never an undecodable file
        /\ (last.a = "access" /\ last.out = "doc" => last.v >= 2)             \* what is served is a document
Init0 == \E d \in [Files -> {0, 1, 2, 3, 4, 5, 6, 7}] : CA!Start(d)
IndInit == /\ disk \in [Files -> Nat] /\ cache \in [Kinds -> Nat] /\ failed \in [Kinds -> BOOLEAN] /\ edit \in [Kinds -> Nat]
           /\ fresh \in Nat /\ decoy \in BOOLEAN
           /\ last \in [a : Acts, k : Kinds \cup {""}, s : {"", "cur", "leg"}, w : {"", "new", "bad", "gone"}, out : Outs, v : Nat, e : Nat]
           /\ IndInv
Next == CA!Next
=============================================================================
