----------------------------- MODULE ComposeInfoDoc -----------------------------
(* The composeinfo document (C01; supplies objects to C05/C08).  An abstract compose description
   is chosen in Init (factorised into slices, because the full product is ~10^8); Ser is the
   DOCUMENTED layout (doc/composeinfo-1.1.rst) as a JSON-shaped value over tokens; Norm is the
   documented normalisation.  TLC checks structural facts of Ser (top-level detection from child
   lists, every UID once, child arches) and emits object + expected document; the harness builds
   the object through the public API and compares the real file, the re-read object and the
   re-written bytes.                                                                          *)
EXTENDS Naturals, Sequences, FiniteSets, TLC, Json
CONSTANTS Slice, MaxNodes
Paths  == {<<"A">>, <<"B">>, <<"A", "o">>, <<"A", "h">>, <<"A", "o", "h">>, <<"B", "o">>}
Types  == {"variant", "optional", "addon", "layered-product"}
Arches == {"x", "y"}
Cats   == {"c1", "c2", "c3"}                  \* rotated over the 14 real path categories by the harness
Parent(p) == SubSeq(p, 1, Len(p) - 1)
Last(p)   == p[Len(p)]
PrefixClosed(S) == \A p \in S : Len(p) > 1 => Parent(p) \in S
ShapesUpTo(n) == {S \in SUBSET Paths : S # {} /\ PrefixClosed(S) /\ Cardinality(S) <= n}
RECURSIVE Join(_)
Join(p) == IF Len(p) = 1 THEN p[1] ELSE Join(Parent(p)) \o "-" \o Last(p)
Empty == [k \in {} |-> 0]
RelTypes == {"fast", "ga", "updates", "updates-testing", "eus", "aus", "els", "tus", "e4s"}
CTypes == {"production", "nightly", "test", "ci", "development"}
Labels == {"none", "EA", "DevelPhaseExit", "InternalAlpha", "Alpha", "InternalSnapshot", "Beta", "Snapshot", "RC", "Update", "SecurityFix"}
PathSets == {{}, {<<"c1", "x", "set">>}, {<<"c1", "x", "set">>, <<"c1", "y", "set">>, <<"c2", "y", "set">>},
             {<<"c1", "x", "empty">>, <<"c2", "x", "set">>}, {<<"c3", "y", "set">>, <<"c1", "y", "empty">>},
             {<<"c1", "x", "set">>, <<"c2", "x", "set">>, <<"c3", "x", "set">>, <<"c1", "y", "set">>, <<"c2", "y", "set">>, <<"c3", "y", "set">>}}
DefaultSec == [reltype |-> "ga", layered |-> FALSE, internal |-> FALSE, bptype |-> "ga", ctype |-> "production", respin |-> "r0",
               label |-> "none", final |-> FALSE, idform |-> "derived"]
\* idform: the compose ID is free-form text.  "derived" = what create_compose_id() builds; "othertype" = an ID whose suffix spells
\* another type and respin than the fields; "nodash" = an ID whose date is not preceded by a dash
IdForms == {"derived", "othertype", "nodash"}

VARIABLES nodes, typ, ar, pth, dashed, dashkid, sec
vars == <<nodes, typ, ar, pth, dashed, dashkid, sec>>
\* pth[p] = set of <<category, arch, valueClass>> assigned through the API; valueClass "set" | "empty";
\* an arch outside ar[p] is a "foreign" assignment
Init ==
  CASE Slice = "forest" ->
         /\ nodes \in ShapesUpTo(MaxNodes) \cup {{}}       \* incl. the compose without any variant (the lower boundary)
         /\ typ \in [nodes -> IF Cardinality(nodes) <= 4 THEN Types ELSE {"variant", "layered-product"}]
         /\ ar = [p \in nodes |-> {"x"}] /\ pth = [p \in nodes |-> {}] /\ dashed \in BOOLEAN /\ sec = DefaultSec
         /\ dashkid \in BOOLEAN /\ (dashkid => dashed /\ Cardinality(nodes) <= 2)      \* the dashed top-level variant has a child "o"
    [] Slice = "arches" ->
         /\ nodes \in ShapesUpTo(3) /\ typ = [p \in nodes |-> IF Len(p) = 1 THEN "variant" ELSE "addon"]
         /\ ar \in [nodes -> (SUBSET Arches) \ {{}}] /\ (\A p \in nodes : Len(p) > 1 => ar[p] \subseteq ar[Parent(p)])
         /\ pth \in [nodes -> {{}, {<<"c1", "x", "set">>, <<"c1", "y", "set">>, <<"c2", "y", "set">>}}] /\ dashed = FALSE /\ dashkid = FALSE /\ sec = DefaultSec
    [] Slice = "paths" ->
         /\ nodes \in ShapesUpTo(2) /\ typ = [p \in nodes |-> IF Len(p) = 1 THEN "variant" ELSE "optional"]
         /\ ar \in [nodes -> {{"x"}, {"x", "y"}}] /\ (\A p \in nodes : Len(p) > 1 => ar[p] \subseteq ar[Parent(p)])
         /\ pth \in [nodes -> PathSets] /\ dashed = FALSE /\ dashkid = FALSE /\ sec = DefaultSec
    [] Slice = "sections" ->
         /\ nodes = {<<"A">>} /\ typ = [p \in nodes |-> "variant"] /\ ar = [p \in nodes |-> {"x"}] /\ pth = [p \in nodes |-> {}]
         /\ dashed = FALSE /\ dashkid = FALSE
         /\ sec \in [reltype : RelTypes, layered : BOOLEAN, internal : BOOLEAN, bptype : {"ga", "updates", "eus"}, ctype : CTypes,
                     respin : {"r0", "r7", "rbig"}, label : Labels, final : BOOLEAN, idform : IdForms]
         /\ (sec.idform # "derived" => (sec.reltype = "ga" /\ ~sec.layered /\ ~sec.internal /\ sec.label \in {"none", "RC"}))
         /\ (~sec.layered => sec.bptype = "ga") /\ (sec.label = "none" => (sec.reltype \in {"ga", "eus"}))
         /\ (sec.ctype \notin {"production", "nightly"} => (sec.respin = "r0" /\ sec.reltype = "ga" /\ ~sec.internal))
Next == FALSE /\ UNCHANGED vars

Children(p) == {c \in nodes : Len(c) = Len(p) + 1 /\ Parent(c) = p}
Sorted(S) == [sorted |-> S]                       \* rendered by the harness as a list in string order
PathVal(p, c, a) == "$path:" \o Join(p) \o ":" \o c \o ":" \o a
\* documented normalisation: only non-empty values for arches of the variant are stored
Stored(p) == {t \in pth[p] : t[3] = "set" /\ t[2] \in ar[p]}
PathsDoc(p) == LET cs == {t[1] : t \in Stored(p)}
               IN [c \in cs |-> LET as == {t[2] : t \in {u \in Stored(p) : u[1] = c}}
                                IN [a \in as |-> PathVal(p, c, a)]]
RelDoc(p) == ("name" :> "$lpname") @@ ("short" :> "$lpshort") @@ ("version" :> "$lpver") @@ ("type" :> "ga")
             @@ ("is_layered" :> TRUE) @@ ("internal" :> FALSE)
VariantDoc(p) == ("id" :> Last(p)) @@ ("uid" :> Join(p)) @@ ("name" :> "$name:" \o Join(p)) @@ ("type" :> typ[p])
                 @@ ("arches" :> Sorted(ar[p])) @@ ("paths" :> PathsDoc(p))
                 @@ (IF Children(p) # {} THEN ("variants" :> Sorted({Last(c) : c \in Children(p)})) ELSE Empty)
                 @@ (IF typ[p] = "layered-product" THEN ("release" :> RelDoc(p)) ELSE Empty)
\* the dashed top-level variant ("Server-Tools" with id "ServerTools"), childless
DashDoc == ("id" :> "$dashid") @@ ("uid" :> "$dashuid") @@ ("name" :> "$name:dash") @@ ("type" :> "variant")
           @@ ("arches" :> Sorted({"x"})) @@ ("paths" :> Empty)
           @@ (IF dashkid THEN ("variants" :> Sorted({"o"})) ELSE Empty)
DashKidDoc == ("id" :> "o") @@ ("uid" :> "$dashkiduid") @@ ("name" :> "$name:dashkid") @@ ("type" :> "optional")
              @@ ("arches" :> Sorted({"x"})) @@ ("paths" :> Empty)
VariantsDoc == [u \in {Join(p) : p \in nodes} |-> VariantDoc(CHOOSE p \in nodes : Join(p) = u)]
               @@ (IF dashed THEN ("$dashuid" :> DashDoc) ELSE Empty)
               @@ (IF dashkid THEN ("$dashkiduid" :> DashKidDoc) ELSE Empty)
ComposeDoc == ("id" :> "$composeid") @@ ("type" :> sec.ctype) @@ ("date" :> "$date") @@ ("respin" :> "$" \o sec.respin)
              @@ (IF sec.label # "none" THEN ("label" :> "$label:" \o sec.label) @@ ("final" :> sec.final) ELSE Empty)
ReleaseDoc == ("name" :> "$relname") @@ ("short" :> "$relshort") @@ ("version" :> "$relver") @@ ("type" :> sec.reltype)
              @@ ("internal" :> sec.internal) @@ (IF sec.layered THEN ("is_layered" :> TRUE) ELSE Empty)
BpDoc == ("name" :> "$bpname") @@ ("short" :> "$bpshort") @@ ("version" :> "$bpver") @@ ("type" :> sec.bptype)
Doc == ("header" :> (("type" :> "productmd.composeinfo") @@ ("version" :> "$current")))
       @@ ("payload" :> (("compose" :> ComposeDoc) @@ ("release" :> ReleaseDoc) @@ ("variants" :> VariantsDoc)
                         @@ (IF sec.layered THEN ("base_product" :> BpDoc) ELSE Empty)))
\* normalised object the reader must return: final only next to a label; stored paths only
NormFinal == sec.label # "none" /\ sec.final
Obj == [nodes |-> {[path |-> p, type |-> typ[p], arches |-> ar[p], paths |-> pth[p], stored |-> Stored(p)] : p \in nodes},
        dashed |-> dashed, dashkid |-> dashkid, sec |-> sec, normfinal |-> NormFinal]
Emit == PrintT("@@" \o ToJson([obj |-> Obj, doc |-> Doc]))
\* ---- model-level checks on Ser
ChildUidStr(w, c) == IF w = "$dashuid" THEN "$dashkiduid" ELSE VariantsDoc[w]["uid"] \o "-" \o c
Tops == {u \in DOMAIN VariantsDoc : ~\E w \in DOMAIN VariantsDoc :
            "variants" \in DOMAIN VariantsDoc[w] /\ \E c \in VariantsDoc[w]["variants"].sorted : ChildUidStr(w, c) = u}
TopDetect == Tops = {Join(p) : p \in {q \in nodes : Len(q) = 1}} \cup (IF dashed THEN {"$dashuid"} ELSE {})
UidOnce   == Cardinality(DOMAIN VariantsDoc) = Cardinality(nodes) + (IF dashed THEN 1 ELSE 0) + (IF dashkid THEN 1 ELSE 0)
ChildArch == \A p \in nodes : Len(p) > 1 => ar[p] \subseteq ar[Parent(p)]
FinalOnlyWithLabel == ("final" \in DOMAIN ComposeDoc) <=> ("label" \in DOMAIN ComposeDoc)
StoredInArches == \A p \in nodes : \A c \in DOMAIN PathsDoc(p) : DOMAIN PathsDoc(p)[c] \subseteq ar[p]
=============================================================================
