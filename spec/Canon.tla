---------------------------------- MODULE Canon ----------------------------------
(* Canonical serialisation (C08).  The content of a metadata object is the SET of its unordered
   parts; a construction history inserts them one by one in some order and dumps any number of
   times.  The state graph makes confluence explicit: all n! histories of the same parts reach the
   same content.  Requirement: the bytes written are a function of `content` alone - not of
   `built` (the insertion order), not of how often Dump was taken.  TLC enumerates every history;
   the harness replays each on the real classes (per part kind, per PYTHONHASHSEED in separate
   interpreters) and requires byte-identical output within each content class.               *)
EXTENDS Naturals, Sequences, FiniteSets, TLC, Json
CONSTANTS N, MaxDumps
Parts == 1..N
VARIABLES built, dumps
vars == <<built, dumps>>
Content(b) == {b[i] : i \in 1..Len(b)}
Init == built = <<>> /\ dumps = 0
Insert(p) == p \notin Content(built) /\ built' = Append(built, p) /\ UNCHANGED dumps
Dump == dumps < MaxDumps /\ dumps' = dumps + 1 /\ UNCHANGED built
Next == (\E p \in Parts : Insert(p)) \/ Dump
\* the abstract document depends on content only
Ser(b) == Content(b)
Confluent == \A b \in {built} : Ser(b) = Content(built)
\* any two complete histories have equal content (checked by TLC over the reachable states via the view below)
View == <<Content(built), dumps>>
Complete == Len(built) = N
Emit == (Complete /\ dumps = MaxDumps) => PrintT("@@" \o ToJson([order |-> built, dumps |-> dumps]))
=============================================================================
