INIT TraceInit
NEXT TraceNext
CONSTRAINT Reached
POSTCONDITION Post
INVARIANT LiveUidAligned
INVARIANT LiveArchSubset
INVARIANT LiveParentMirror
CHECK_DEADLOCK FALSE
CONSTANTS
 Obj <- TraceObj
 ChildUid <- StrChild
 ROOT = "ROOT"
 None = "None"
 Dev_FalsyParent = FALSE
 Dev_ParentSetFirst = FALSE
 Dev_RecurseDropsArch = FALSE
 Dev_LookupUidFirst = FALSE
 Dev_UidCollision = FALSE
 BottomUp = FALSE
 Dev_UidSubtreeUnchecked = FALSE
 Dev_TopKeepsParent = FALSE
 UidKey <- StrUidKey
 KeyForms = {"id"}
 Dev_KeyUnchecked = FALSE
 Dev_IdUnchecked = FALSE
