INIT Init
NEXT Next
INVARIANT Valid
INVARIANT StartsOk
INVARIANT ImplOk
CHECK_DEADLOCK FALSE
CONSTANTS
