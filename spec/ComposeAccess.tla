----------------------------- MODULE ComposeAccess -----------------------------
(* The accessors of productmd.compose.Compose as a state machine (C20: "each of info, images, rpms and modules
   equals what loading that file directly gives, loaded once and then reused.  A missing or undecodable file
   surfaces as RuntimeError naming the location").

   ComposeLayout.tla decides WHERE the metadata directory is, for every configuration, at construction time.
   This module takes over from there: one Compose object whose metadata directory is fixed, and a HISTORY of
     - Access(k)         the caller reads the property .info / .images / .rpms / .modules,
     - Edit(k)           the caller changes the object it got from an accessor (c.rpms.add(...), here: a marker),
     - FileSet(f, what)  the environment replaces / corrupts / removes a metadata file between two accesses
                         (a compose directory is written by other processes while a consumer holds the object),
     - Decoy             metadata appears in ANOTHER candidate location of the layout after construction
                         (compose/ next to a direct layout, ...): resolution happened once, nothing may change.
   Contents are numbers: 0 = no such file, 1 = undecodable, v >= 2 = a valid document whose content is v
   (the harness writes v into the document so that "which file was served" is observable).
   Files: one name for info and modules, a current and a legacy name for images and rpms; PrefCurrent says which
   of the two names wins when both exist (left open by the statement; measured once on the plain layout).     *)
EXTENDS Naturals, Sequences, FiniteSets, TLC
CONSTANTS PrefCurrent,        \* TRUE: images.json / rpms.json win over image-manifest.json / rpm-manifest.json
          Dev_NoCache,        \* deviation: every access reads the file again
          Dev_CacheFailure,   \* deviation: a failed access is remembered
          Dev_Fallback        \* deviation: an undecodable preferred file falls through to the other name
Kinds == {"info", "images", "rpms", "modules"}
HasLeg(k) == k \in {"images", "rpms"}
\* @type: Set(<<Str, Str>>);
Files == {<<k, "cur">> : k \in Kinds} \cup {<<k, "leg">> : k \in {"images", "rpms"}}
VARIABLES disk,      \* [Files -> Nat]
          cache,     \* [Kinds -> Nat]   0 = nothing loaded, v = the document v is held
          failed,    \* [Kinds -> BOOLEAN]  only used by Dev_CacheFailure
          edit,      \* [Kinds -> Nat]   0 = as loaded, n = the caller's n-th edit is the latest on that object
          fresh,     \* next unused content / marker number
          decoy,     \* metadata has appeared in another candidate location
          last       \* what the latest action did and what the caller saw
vars == <<disk, cache, failed, edit, fresh, decoy, last>>
None == [a |-> "none", k |-> "", s |-> "", w |-> "", out |-> "", v |-> 0, e |-> 0]
\* @type: (Str) => Seq(Str);
Order(k) == IF HasLeg(k) THEN (IF PrefCurrent THEN <<"cur", "leg">> ELSE <<"leg", "cur">>) ELSE <<"cur">>
Present(k) == SelectSeq(Order(k), LAMBDA s : disk[<<k, s>>] # 0)
\* the file an access of kind k reads, "" when there is none
Pick(k) == LET p == Present(k)
           IN IF p = <<>> THEN ""
              ELSE IF Dev_Fallback /\ Len(p) = 2 /\ disk[<<k, p[1]>>] = 1 THEN p[2]
              ELSE p[1]
Start(d) == /\ disk = d /\ cache = [k \in Kinds |-> 0] /\ failed = [k \in Kinds |-> FALSE] /\ edit = [k \in Kinds |-> 0]
            /\ fresh = 10 /\ decoy = FALSE /\ last = None
Seen(k, s, out, v, e) == [a |-> "access", k |-> k, s |-> s, w |-> "", out |-> out, v |-> v, e |-> e]
Access(k) ==
  /\ UNCHANGED <<disk, edit, fresh, decoy>>
  /\ IF cache[k] # 0 /\ ~Dev_NoCache
       THEN /\ last' = Seen(k, "", "doc", cache[k], edit[k]) /\ UNCHANGED <<cache, failed>>        \* reused, with the caller's edits
     ELSE IF Dev_CacheFailure /\ failed[k]
       THEN /\ last' = Seen(k, "", "missing", 0, 0) /\ UNCHANGED <<cache, failed>>
     ELSE LET s == Pick(k) IN
       IF s = "" THEN /\ last' = Seen(k, "", "missing", 0, 0) /\ UNCHANGED cache
                      /\ failed' = [failed EXCEPT ![k] = TRUE]
       ELSE IF disk[<<k, s>>] = 1 THEN /\ last' = Seen(k, s, "bad", 0, 0) /\ UNCHANGED cache
                                       /\ failed' = [failed EXCEPT ![k] = TRUE]
       ELSE /\ cache' = [cache EXCEPT ![k] = disk[<<k, s>>]]
            /\ last' = Seen(k, s, "doc", disk[<<k, s>>], IF cache[k] = disk[<<k, s>>] THEN edit[k] ELSE 0)
            /\ UNCHANGED failed
\* the caller edits what the accessor hands out (it keeps no reference of its own): c.<k>.<something> = marker
Edit(k) == /\ cache[k] # 0
           /\ edit' = [edit EXCEPT ![k] = fresh] /\ fresh' = fresh + 1
           /\ last' = [a |-> "edit", k |-> k, s |-> "", w |-> "", out |-> "", v |-> cache[k], e |-> fresh]
           /\ UNCHANGED <<disk, cache, failed, decoy>>
FileSet(f, w) ==
  /\ \/ w = "new"  /\ disk' = [disk EXCEPT ![f] = fresh] /\ fresh' = fresh + 1
     \/ w = "bad"  /\ disk[f] # 1 /\ disk' = [disk EXCEPT ![f] = 1] /\ UNCHANGED fresh
     \/ w = "gone" /\ disk[f] # 0 /\ disk' = [disk EXCEPT ![f] = 0] /\ UNCHANGED fresh
  /\ last' = [a |-> "file", k |-> f[1], s |-> f[2], w |-> w, out |-> "", v |-> disk'[f], e |-> 0]
  /\ UNCHANGED <<cache, failed, edit, decoy>>
Decoy == /\ ~decoy /\ decoy' = TRUE
         /\ last' = [a |-> "decoy", k |-> "", s |-> "", w |-> "", out |-> "", v |-> 0, e |-> 0]
         /\ UNCHANGED <<disk, cache, failed, edit, fresh>>
Next == \/ \E k \in Kinds : Access(k) \/ Edit(k)
        \/ \E f \in Files, w \in {"new", "bad", "gone"} : FileSet(f, w)
        \/ Decoy
\* ---- the statement
TypeOK == /\ disk \in [Files -> Nat] /\ cache \in [Kinds -> Nat] /\ edit \in [Kinds -> Nat] /\ fresh \in Nat /\ decoy \in BOOLEAN
\* "loaded once and then reused": what an accessor holds never changes, whatever happens to the files
LoadedOnce == [][\A k \in Kinds : cache[k] # 0 => cache'[k] = cache[k]]_vars
\* only a successful access of kind k fills the slot of kind k
OnlyAccessFills == [][\A k \in Kinds : cache'[k] # cache[k] => last'.a = "access" /\ last'.k = k /\ last'.out = "doc"]_vars
\* an accessor hands out a decodable document, and the caller's latest edit with it
ServesDocument == (last.a = "access" /\ last.out = "doc") => (last.v >= 2 /\ last.v = cache[last.k] /\ last.e = edit[last.k])
ServesDocumentStep == [][ServesDocument']_vars      \* the same as an action property (checked on every transition, also under a VIEW)
\* "equals what loading that file directly gives": the FIRST successful access serves the file a direct load would read NOW;
\* a file that is there and decodable is never reported missing / undecodable (a failure is not remembered)
FirstAccessIsDirectLoad ==
  [][\A k \in Kinds : (last'.a = "access" /\ last'.k = k /\ cache[k] = 0) =>
        LET p == Present(k) IN
          /\ (p = <<>> <=> last'.out = "missing")
          /\ (p # <<>> /\ disk[<<k, p[1]>>] = 1 => last'.out = "bad" /\ last'.s = p[1])
          /\ (p # <<>> /\ disk[<<k, p[1]>>] >= 2 => last'.out = "doc" /\ last'.v = disk[<<k, p[1]>>])]_vars
\* an access changes nothing but its own slot; the environment changes no slot
Frame == [][/\ (last'.a = "access" => \A j \in Kinds : j # last'.k => cache'[j] = cache[j])
            /\ (last'.a \in {"file", "decoy", "edit"} => cache' = cache)]_vars
=============================================================================
