------------------------------- MODULE MC_Forest -------------------------------
EXTENDS Forest
V(i, u, ar, t) == [id |-> i, uid |-> u, flat |-> Flat(u), arches |-> ar, type |-> t]
SeqChild(p, i) == Append(p, i)
RECURSIVE JoinDash(_)
JoinDash(u) == IF Len(u) = 1 THEN u[1] ELSE u[1] \o "-" \o JoinDash(Tail(u))
MCObj == [ a    |-> V("A", <<"A">>, {"x", "y"}, "variant"),
           aa   |-> V("A", <<"A", "A">>, {"x"}, "variant"),          \* same id as its parent
           ab   |-> V("B", <<"A", "B">>, {"x", "y"}, "addon"),
           aab  |-> V("B", <<"A", "A", "B">>, {"x"}, "optional"),
           aba  |-> V("A", <<"A", "B", "A">>, {"x"}, "addon"),       \* depth 3
           ab2  |-> V("B", <<"A", "B">>, {"y"}, "addon"),            \* competes with ab for id B
           abz  |-> V("B", <<"A", "B">>, {"x", "z"}, "addon"),       \* arch z foreign to A
           m    |-> V("C", <<"B", "C">>, {"x"}, "variant"),          \* aligned only under B
           b    |-> V("B", <<"B">>, {"x"}, "variant"),
           c    |-> V("C", <<"C">>, {"y"}, "variant"),
           ca   |-> V("A", <<"C", "A">>, {"y"}, "layered-product"),
           at   |-> V("AT", <<"A", "T">>, {"x"}, "variant"),         \* dashed top-level UID, childless
           sab  |-> V("AB", <<"A", "B">>, {"x"}, "variant"),         \* dashed top-level UID equal to the UID of A's child B
           abx  |-> V("B", <<"AB">>, {"x"}, "addon"),                \* misaligned only by a missing dash
           abt  |-> V("BT", <<"A", "B", "T">>, {"x"}, "addon") ]     \* misaligned only by an extra dash        \* dashed top-level UID, childless
\* second pool (thorough tier): two trees sharing child ids, three arches, all four types, a deeper chain
MCObj2 == [ p    |-> V("A", <<"A">>, {"x", "y", "z"}, "variant"),
            q    |-> V("B", <<"B">>, {"x"}, "layered-product"),
            po   |-> V("o", <<"A", "o">>, {"x", "y"}, "optional"),
            qo   |-> V("o", <<"B", "o">>, {"x"}, "optional"),          \* same id under another parent
            poh  |-> V("h", <<"A", "o", "h">>, {"y"}, "addon"),
            poh2 |-> V("h", <<"A", "o", "h">>, {"x", "y"}, "addon"),   \* competes with poh
            pohz |-> V("h", <<"A", "o", "h">>, {"z"}, "addon"),        \* z is in A but not in A-o
            ph   |-> V("h", <<"A", "h">>, {"z"}, "layered-product"),
            qh   |-> V("h", <<"A", "h">>, {"x"}, "addon"),             \* aligned under A, not under B
            pp   |-> V("A", <<"A", "A">>, {"x", "y", "z"}, "variant"),
            ppo  |-> V("o", <<"A", "A", "o">>, {"z"}, "optional"),
            e    |-> V("C", <<"C">>, {}, "variant") ]                  \* no arches at all
\* third pool (bottom-up construction): sub-trees are built on variants that are not in the forest yet and attached afterwards
MCObj3 == [ a    |-> V("A", <<"A">>, {"x", "y"}, "variant"),
            ab   |-> V("B", <<"A", "B">>, {"x", "y"}, "addon"),
            aba  |-> V("A", <<"A", "B", "A">>, {"x"}, "addon"),
            abz  |-> V("B", <<"A", "B">>, {"x", "z"}, "addon"),       \* arch z foreign to A
            sab  |-> V("AB", <<"A", "B">>, {"x"}, "variant"),         \* dashed top-level UID equal to the UID of A's child B
            saba |-> V("ABA", <<"A", "B", "A">>, {"x"}, "variant"),   \* ... and to the UID of A's grandchild
            b    |-> V("B", <<"B">>, {"x"}, "variant"),
            m    |-> V("C", <<"B", "C">>, {"x"}, "variant"),
            ab2  |-> V("B", <<"A", "B">>, {"y"}, "addon"),           \* competes with ab for id B (also below a parent outside the forest)
            pab  |-> V("AB", <<"AB">>, {"x"}, "variant"),
            absrc |-> V("B", <<"A", "B">>, {"x", "s"}, "addon") ]    \* lists the pseudo-architecture (token s = "src") its parent does not list: foreign           \* plain top-level variant with the id of the dashed one (sab), another UID
\* fourth pool (the optional variant_id of add): few objects, every key form
MCObj4 == [ a    |-> V("A", <<"A">>, {"x", "y"}, "variant"),
            ab   |-> V("B", <<"A", "B">>, {"x"}, "addon"),
            at   |-> V("AT", <<"A", "T">>, {"x"}, "variant"),         \* dashed top-level UID, childless
            b    |-> V("B", <<"B">>, {"x"}, "variant"),
            pab  |-> V("AB", <<"AB">>, {"x"}, "variant"),
            atp  |-> V("AT", <<"AT">>, {"x"}, "variant"),             \* plain top-level variant with the ID of the dashed one (at)
            abc  |-> V("C", <<"A", "B", "C">>, {"x"}, "optional"),    \* two children of a variant that is itself a child:
            aba  |-> V("A", <<"A", "B", "A">>, {"x"}, "addon") ]      \*   added in either order, listed by UID
=============================================================================
