------------------------------- MODULE Builders -------------------------------
(* Reference models of productmd.modules.Modules.add and productmd.extra_files.ExtraFiles
   (add, dump_for_tree) over argument class tokens.  Serves C12 and C03.               *)
EXTENDS Naturals, FiniteSets, Sequences, SequencesExt, TLC
CONSTANTS KnownArch, Cats, OkPaths, OkUidForms
VARIABLES mods,    \* <<variant, arch, module>> -> [paths: category -> path token, rpms: Seq of rpm tokens, koji]
          files,   \* <<variant, arch>> -> Seq of [file, size, checksums]
          out
vars == <<mods, files, out>>
Init == mods = [k \in {} |-> 0] /\ files = [k \in {} |-> <<>>] /\ out = "new"

(* Modules.add(variant, arch, uid, koji_tag, modulemd_path, category, rpms) *)
ModRefused(v, a, uform, koji, path, cat, rl) ==
  \/ v = "empty" \/ a \notin KnownArch \/ cat \notin Cats \/ uform \notin OkUidForms
  \/ path \notin OkPaths \/ koji = "empty" \/ rl = <<"notalist">>
ModAdd(v, a, m, uform, koji, path, cat, rl) ==
  IF ModRefused(v, a, uform, koji, path, cat, rl)
  THEN out' = "refused" /\ UNCHANGED <<mods, files>>
  ELSE LET k   == <<v, a, m>>
           old == IF k \in DOMAIN mods THEN mods[k] ELSE [paths |-> [c \in {} |-> ""], rpms |-> <<>>, koji |-> koji]
           new == [paths |-> [c \in DOMAIN old.paths \cup {cat} |-> IF c = cat THEN path ELSE old.paths[c]],
                   rpms  |-> old.rpms \o rl, koji |-> koji]
       IN /\ mods' = [x \in DOMAIN mods \cup {k} |-> IF x = k THEN new ELSE mods[x]]
          /\ out' = "ok" /\ UNCHANGED files

(* ExtraFiles.add(variant, arch, path, size, checksums) *)
XfRefused(v, a, path, cks) == v = "empty" \/ a \notin KnownArch \/ path \notin OkPaths \/ cks = "notadict"
XfAdd(v, a, path, size, cks) ==
  IF XfRefused(v, a, path, cks)
  THEN out' = "refused" /\ UNCHANGED <<mods, files>>
  ELSE LET k == <<v, a>>
           old == IF k \in DOMAIN files THEN files[k] ELSE <<>>
       IN /\ files' = [x \in DOMAIN files \cup {k} |-> IF x = k THEN Append(old, [file |-> path, size |-> size, checksums |-> cks]) ELSE files[x]]
          /\ out' = "ok" /\ UNCHANGED mods

(* dump_for_tree: the base path is stripped only on a path-component boundary.
   Paths and bases are sequences of components.                                 *)
Strip(p, b) == IF b # <<>> /\ Len(b) < Len(p) /\ IsPrefix(b, p) THEN SubSeq(p, Len(b) + 1, Len(p)) ELSE p

\* dump_for_tree(out, variant, arch, base) is a query: it lists the tree's files and changes nothing; an unknown tree is a KeyError
XfTreeDump(v, a) == /\ out' = IF <<v, a>> \in DOMAIN files THEN "ok" ELSE "KeyError"
                    /\ UNCHANGED <<mods, files>>

-----------------------------------------------------------------------------
RefusedIsNoop == [][out' \in {"refused", "KeyError"} => UNCHANGED <<mods, files>>]_vars
RpmListGrows  == [][\A k \in DOMAIN mods : k \in DOMAIN mods' /\ IsPrefix(mods[k].rpms, mods'[k].rpms)]_vars
FilesAppendOnly == [][\A k \in DOMAIN files : k \in DOMAIN files' /\ IsPrefix(files[k], files'[k])]_vars
OthersUntouched == [][out' = "ok" => /\ Cardinality({k \in DOMAIN mods : mods'[k] # mods[k]}) <= 1
                                      /\ Cardinality({k \in DOMAIN files : files'[k] # files[k]}) <= 1]_vars
=============================================================================
