-------------------------------- MODULE MC_Dump --------------------------------
EXTENDS DumpProtocol
CONSTANTS MaxTop, MaxNested
MCInit == \E t \in 0..MaxTop, n \in 0..MaxNested, d \in {"Absent", "Old"}, f \in 0..(MaxTop + MaxNested) :
            f <= t + n /\ Start(t, n, d, f)
MCSpec == MCInit /\ [][Next]_vars /\ WF_vars(Next)
=============================================================================
