INIT Init
NEXT Next
CONSTRAINT Emit
INVARIANT SectionPerVariant
INVARIANT TreeListsTops
INVARIANT ArchInPlatforms
INVARIANT GeneralMirrors
CHECK_DEADLOCK FALSE
CONSTANTS
