------------------------------- MODULE Trace_Rpms -------------------------------
(* Trace validation (code -> spec) for RpmsManifest: every recorded execution of the real Rpms class
   (add / del manifest[variant] / loads of a current-layout document) must be a behaviour of the
   specification; the logged projection (number of variants, trees and entries) is compared after every
   call and the invariants are evaluated at every recorded step.  The recorder abstracts the real
   arguments WITHOUT the library's help (harness/rpms_traces.py): canonical N-E:V-R.A keys, whether a name
   parses, whether it is a source package, lower-cased signing keys.  A batch file holds many traces;
   `tid` selects one, `l` is the position in it.                                                     *)
EXTENDS RpmsManifest, Json, IOUtils, TLCExt
VARIABLES tid, l
File   == JsonDeserialize(IOEnv.TRACE_FILE)
Batch  == File.traces
SeqSet(s) == {s[i] : i \in 1..Len(s)}
TraceRpm    == File.rpm                       \* token -> [src |-> BOOLEAN]
TraceBin    == SeqSet(File.binarch)
TraceOkPath == SeqSet(File.okpaths)
TraceLower(s) == File.lower[s]
Events(t) == Batch[t].events
Ev == Events(tid)[l]
\* projection logged by the recorder after every call
ProjOk == /\ Cardinality(DOMAIN rpms') = Ev.n
          /\ Cardinality({k[1] : k \in DOMAIN rpms'}) = Ev.nv
          /\ Cardinality({<<k[1], k[2]>> : k \in DOMAIN rpms'}) = Ev.nt
TraceInit == /\ tid \in 1..Len(Batch) /\ l = 1 /\ Init
TraceAdd  == /\ Ev.op = "add"
             /\ Add(Ev.v, Ev.a, Ev.r, Ev.form, Ev.path, Ev.sig, Ev.cat, Ev.srpm, Ev.sform)
             /\ out' = Ev.out /\ ProjOk
             \* the entry is there under its source package, with exactly the logged data
             /\ (Ev.out = "ok" => LET k == <<Ev.v, Ev.a, IF Ev.srpm = "none" THEN Ev.r ELSE Ev.srpm, Ev.r>>
                                 IN k \in DOMAIN rpms' /\ rpms'[k].sigkey = Ev.stored_sig /\ rpms'[k].path = Ev.stored_path)
TraceDel  == Ev.op = "del" /\ Del(Ev.v) /\ out' = Ev.out /\ ProjOk
\* a current-layout document replaces the mapping wholesale (stored as given)
DocOf(seq) == [k \in {<<e.v, e.a, e.srpm, e.rpm>> : e \in SeqSet(seq)} |->
                 LET e == CHOOSE x \in SeqSet(seq) : <<x.v, x.a, x.srpm, x.rpm>> = k
                 IN [path |-> e.path, sigkey |-> e.sigkey, category |-> e.category]]
TraceLoad == Ev.op = "load" /\ rpms' = DocOf(Ev.doc) /\ out' = "ok" /\ ProjOk
TraceNext == /\ l <= Len(Events(tid)) /\ l' = l + 1 /\ UNCHANGED tid
             /\ (TraceAdd \/ TraceDel \/ TraceLoad)
Reached == TLCSet(tid, IF TLCGet(tid) < l THEN l ELSE TLCGet(tid))
ASSUME \A t \in 1..Len(Batch) : TLCSet(t, 0)
Post == \A t \in 1..Len(Batch) :
          IF TLCGet(t) = Len(Events(t)) + 1 THEN PrintT(<<"ACCEPT", Batch[t].tid>>)
          ELSE PrintT(<<"REJECT", Batch[t].tid, "at", TLCGet(t)>>)
=============================================================================
