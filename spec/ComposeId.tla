------------------------------- MODULE ComposeId -------------------------------
(* Compose IDs (C15).  Strings are sequences of one-character strings; every decimal digit is the
   class token "D" (the harness draws the actual digits).
   Requirement layer: Encode is the documented ID layout, DecodeRef returns the fields the ID was
   built from.  Implementation layer: DecodeImpl transcribes get_date_type_respin - find an
   8-digit window, optional ".letters", optional ".digits".  Dev_LastWindow is the algorithm as
   shipped at the pinned commit (the LAST 8-digit window anywhere); the repaired algorithm
   anchors the window after a dash (or at the start).                                       *)
EXTENDS Lex, TLC, Json
CONSTANTS Shorts, Versions, RelTypes,     \* char sequences (from the working tree's tables / the harness)
          Mode, Dev_LastWindow
Ga == <<"g", "a">>
D(n) == [i \in 1..n |-> "D"]
CTypes == {"production", "nightly", "test", "ci", "development"}
Suffix(ct) == CASE ct = "production" -> <<>> [] ct = "nightly" -> <<".", "n">> [] ct = "test" -> <<".", "t">>
                [] ct = "ci" -> <<".", "c", "i">> [] ct = "development" -> <<".", "d">>
TypeSfx(t) == IF t = Ga THEN <<>> ELSE <<"-">> \o t
Head1(x) == x.short \o <<"-">> \o x.version \o TypeSfx(x.type)
Prefix(x) == Head1(x) \o (IF x.layered THEN <<"-">> \o x.bpshort \o <<"-">> \o x.bpversion \o TypeSfx(x.bptype) ELSE <<>>) \o <<"-">>
Encode(x) == Prefix(x) \o D(8) \o Suffix(x.ctype) \o <<".">> \o D(x.rlen)
DecodeRef(x) == [dateAt |-> Len(Prefix(x)) + 1, type |-> (IF Suffix(x.ctype) = <<>> THEN <<>> ELSE Tail(Suffix(x.ctype))), rlen |-> x.rlen]

IsWindow(s, p) == p + 7 <= Len(s) /\ \A i \in p..(p + 7) : s[i] = "D"
Anchored(s, p) == p = 1 \/ s[p - 1] = "-"
Windows(s) == {p \in 1..Len(s) : IsWindow(s, p) /\ (Dev_LastWindow \/ Anchored(s, p))}
Lower(ch) == ch \notin {"D", ".", "-", "@", "_"} /\ ch \in {"a","b","c","d","e","f","g","h","i","j","k","l","m","n","o","p","q","r","s","t","u","v","w","x","y","z"}
RECURSIVE RunLen(_, _, _)
RunLen(s, i, isDigit) == IF i > Len(s) THEN 0
                         ELSE IF (isDigit /\ s[i] = "D") \/ (~isDigit /\ Lower(s[i])) THEN 1 + RunLen(s, i + 1, isDigit) ELSE 0
DecodeImpl(s) ==
  IF Windows(s) = {} THEN [dateAt |-> 0, type |-> <<>>, rlen |-> 0]
  ELSE LET p  == MaxOf(Windows(s))
           q  == p + 8
           tl == IF q <= Len(s) /\ s[q] = "." THEN RunLen(s, q + 1, FALSE) ELSE 0
           r  == IF tl > 0 THEN q + 1 + tl ELSE q
           rl == IF r <= Len(s) /\ s[r] = "." THEN RunLen(s, r + 1, TRUE) ELSE 0
       IN [dateAt |-> p, type |-> IF tl > 0 THEN SubSeq(s, q + 1, q + tl) ELSE <<>>, rlen |-> rl]
IdValid(s) == \E p \in 1..Len(s) : IsWindow(s, p)

X(s, v, t, l, bs, bv, bt, ct, rl) == [short |-> s, version |-> v, type |-> t, layered |-> l, bpshort |-> bs, bpversion |-> bv,
                                      bptype |-> bt, ctype |-> ct, rlen |-> rl]
BpTypes == {Ga} \cup {t \in RelTypes : Len(t) >= 7}        \* ga, updates, updates-testing
Cases == {X(s, v, t, FALSE, <<>>, <<>>, Ga, ct, rl) : s \in Shorts, v \in Versions, t \in RelTypes, ct \in CTypes, rl \in 1..8}
         \cup (IF Mode = "full"
               THEN {X(s, v, t, TRUE, bs, bv, bt, ct, rl) : s \in Shorts, v \in {w \in Versions : Len(w) \in {1, 8}}, t \in RelTypes,
                       bs \in {<<"R", "H", "E", "L">>}, bv \in {D(1), D(8)}, bt \in BpTypes, ct \in CTypes, rl \in {1, 7, 8}}
               ELSE {X(s, D(1), t, TRUE, <<"R", "H", "E", "L">>, bv, bt, ct, rl) : s \in Shorts, t \in {Ga}, bv \in {D(1), D(8)},
                       bt \in BpTypes, ct \in CTypes, rl \in {1, 8}})
VARIABLE c
Init == c \in Cases
Next == FALSE /\ UNCHANGED c
Valid    == IdValid(Encode(c))
StartsOk == StartsWith(Encode(c), Head1(c))
ImplOk   == DecodeImpl(Encode(c)) = DecodeRef(c)
Emit == PrintT("@@" \o ToJson([x |-> [short |-> Str(c.short), version |-> c.version, type |-> Str(c.type), layered |-> c.layered,
                                        bpshort |-> Str(c.bpshort), bpversion |-> c.bpversion, bptype |-> Str(c.bptype),
                                        ctype |-> c.ctype, rlen |-> c.rlen],
                                 id |-> Encode(c)]))
=============================================================================
