------------------------------- MODULE Validation -------------------------------
(* The documented field constraints of the seven formats as a rule table, and the validation
   walk of a dump / load (C06, C07; supplies real invalid values to C18).

   A rule is <<node kind, field, invalid class, load side>>:
     - node kind : which kind of object node carries the field (the walk below says which kinds a
                   dump of each format visits; the node INSTANCES of each sample shape are measured
                   on the real objects by the harness and handed in as the constant Nodes);
     - invalid class : a token for a value outside the field's documented domain (the harness owns
                   the token -> concrete value table, spec/Validation.map.json);
     - load side : "reject"  the same value in a document must make load fail,
                   "coerce"  the reader documents a coercion (bool(), int(), lower(), "" -> none):
                             load may succeed provided the loaded object can be written,
                   "na"      the value cannot be expressed in a document.
   Write side: a dump of an object with exactly one corrupted slot must raise TypeError or
   ValueError and return no text; an uncorrupted object must be written.                     *)
EXTENDS Naturals, Sequences, FiniteSets, TLC, Json
CONSTANTS Nodes,        \* sample "fmt_shape" -> sequence of [kind, label] (measured)
          Mode
R(k, f, c, l) == <<k, f, c, l>>
ComposeRules == {
  R("compose", "type", "unknown", "reject"), R("compose", "type", "empty", "reject"), R("compose", "type", "none", "reject"),
  R("compose", "type", "upper", "reject"),
  R("compose", "date", "date7", "reject"), R("compose", "date", "date9", "reject"), R("compose", "date", "date_dashed", "reject"),
  R("compose", "date", "int", "reject"), R("compose", "date", "none", "reject"),
  \* "nl": the valid value followed by a line feed; "fullwidth": its digits replaced by full-width (non-ASCII) digits
  R("compose", "date", "nl", "reject"), R("compose", "date", "fullwidth", "reject"),
  R("compose+label", "label", "nl", "reject"), R("compose+label", "label", "fullwidth", "reject"),
  R("compose", "id", "empty", "reject"), R("compose", "id", "nodate", "reject"), R("compose", "id", "none", "reject"),
  R("compose", "id", "int", "reject"), R("compose", "id", "variantid", "reject"), R("compose", "id", "fullwidth", "reject"),     \* a value valid for ANOTHER field called id
  R("compose", "respin", "strnum", "reject"), R("compose", "respin", "none", "reject"), R("compose", "respin", "float", "reject"),
  R("compose", "label", "label_ga", "reject"), R("compose", "label", "label_noversion", "reject"),
  R("compose", "label", "label_onepart", "reject"), R("compose", "label", "label_unknown", "reject"),
  R("compose", "label", "label_threepart", "reject"), R("compose", "label", "label_lower", "reject"),
  R("compose", "label", "int", "reject"),
  R("compose+label", "final", "str", "coerce"), R("compose+label", "final", "none", "coerce"), R("compose+label", "final", "int", "coerce") }
ReleaseRules(k) == {
  R(k, "name", "none", "reject"), R(k, "name", "int", "reject"), R(k, "short", "none", "reject"), R(k, "short", "int", "reject"),
  R(k, "version", "empty", "reject"), R(k, "version", "trailingdot", "reject"), R(k, "version", "doubledot", "reject"),
  R(k, "version", "alnum", "reject"), R(k, "version", "none", "reject"), R(k, "version", "int", "reject"),
  R(k, "version", "numnl", "reject"),          \* integers followed by a line feed (a free-form version may hold line feeds)
  R(k, "type", "unknown", "reject"), R(k, "type", "upper", "coerce"), R(k, "type", "empty", "reject"), R(k, "type", "none", "reject"),
  R(k, "is_layered", "str", "coerce"), R(k, "is_layered", "none", "coerce"), R(k, "is_layered", "int", "coerce"),
  R(k, "internal", "str", "coerce"), R(k, "internal", "none", "coerce"), R(k, "internal", "int", "coerce") }
CiRules == ReleaseRules("ci.release") \cup
  {r \in ReleaseRules("ci.vrelease") : r[2] # "is_layered"} \cup {          \* a variant's release is always layered (forced on write)
  R("ci.base_product", "name", "none", "reject"), R("ci.base_product", "short", "none", "reject"),
  R("ci.base_product", "version", "empty", "reject"), R("ci.base_product", "version", "trailingdot", "reject"),
  R("ci.base_product", "version", "none", "reject"), R("ci.base_product", "type", "unknown", "reject"),
  R("ci.base_product", "type", "upper", "reject"), R("ci.base_product", "type", "none", "reject"),
  R("ci.variant", "id", "dash", "reject"), R("ci.variant", "id", "empty", "reject"), R("ci.variant", "id", "space", "reject"),
  \* the id gets a suffix outside [a-zA-Z0-9] while UID, table key and the UIDs below stay aligned with it:
  \* a line feed; a non-ASCII letter and a full-width digit
  R("ci.variant", "id", "none", "reject"), R("ci.variant", "id", "nl_aligned", "reject"), R("ci.variant", "id", "unicode_aligned", "reject"),
  R("ci.variant", "uid", "none", "reject"), R("ci.variant", "uid", "int", "reject"),
  R("ci.variant", "uid", "misaligned", "reject"),
  R("ci.variant", "name", "empty", "reject"), R("ci.variant", "name", "none", "reject"), R("ci.variant", "name", "int", "reject"),
  R("ci.variant", "name", "blanks", "reject"),          \* blank required text: blanks and tabs only
  R("ci.variant", "paths_table", "str", "na"),          \* a path category's table replaced by a path
  R("ci.variant", "type", "unknown", "reject"), R("ci.variant", "type", "upper", "reject"), R("ci.variant", "type", "none", "reject"),
  R("ci.variant", "arches", "emptyset", "reject"), R("ci.variant", "arches", "none", "reject"), R("ci.variant", "arches", "str", "reject"), R("ci.variant", "arches", "archlist", "na"),
  \* a set whose one element is no architecture name (a variant without children, so that nothing else objects)
  R("ci.leafvariant", "arches", "set_of_int", "reject"), R("ci.leafvariant", "arches", "set_of_none", "reject"),
  R("ci.leafvariant", "arches", "set_of_blank", "reject"),
  R("ci.childvariant", "arches", "foreign", "reject"),
  R("ci.childvariant", "arches", "foreign_substring", "reject"),     \* an arch whose name is a piece of one of the parent's (x86 of x86_64)
  \* an architecture the TOP-level ancestor has but the direct parent lacks (needs three levels)
  R("ci.grandchild", "arches", "foreign_ancestor", "reject"),
  \* a child UID that differs from <parent UID>-<id> only in dash placement
  R("ci.childvariant", "uid", "dashvariant", "reject"), R("ci.childvariant", "uid", "doubledash", "reject") }
ImageRules == {
  R("img.image", "path", "empty", "reject"), R("img.image", "path", "none", "reject"), R("img.image", "path", "int", "reject"),
  R("img.image", "arch", "blanks", "reject"), R("img.image", "volume_id", "blanks", "reject"),
  R("img.image", "implant_md5", "md5_nonhex", "reject"),      \* 32 characters of [a-z0-9] that are no hexadecimal digits
  R("img.image", "mtime", "strnum", "coerce"), R("img.image", "mtime", "none", "reject"), R("img.image", "mtime", "float", "coerce"),
  R("img.image", "disc_number", "strnum", "coerce"), R("img.image", "disc_number", "none", "reject"), R("img.image", "disc_number", "float", "coerce"),
  R("img.image", "disc_count", "strnum", "coerce"), R("img.image", "disc_count", "none", "reject"), R("img.image", "disc_count", "float", "coerce"),
  R("img.image", "size", "zero", "reject"), R("img.image", "size", "strnum", "coerce"), R("img.image", "size", "none", "reject"),
  R("img.image", "size", "float", "coerce"),
  R("img.image", "volume_id", "empty", "reject"), R("img.image", "volume_id", "int", "reject"),
  R("img.image", "type", "unknown", "reject"), R("img.image", "type", "upper", "reject"), R("img.image", "type", "none", "reject"),
  R("img.image", "format", "unknown_as_live", "reject"), R("img.image", "format", "unknown_as_ec2", "reject"), R("img.image", "format", "unknown_as_rescue", "reject"),
  R("img.image", "format", "unknown_as_kvm", "reject"), R("img.image", "format", "unknown_as_p2v", "reject"),
  R("img.image", "format", "unknown", "reject"), R("img.image", "format", "upper", "reject"), R("img.image", "format", "none", "reject"),
  R("img.image", "arch", "empty", "reject"), R("img.image", "arch", "none", "reject"),
  R("img.image", "checksums", "emptydict", "reject"), R("img.image", "checksums", "none", "reject"), R("img.image", "checksums", "list", "reject"),
  R("img.image", "implant_md5", "md5_short", "reject"), R("img.image", "implant_md5", "md5_upper", "reject"),
  R("img.image", "implant_md5", "md5_31", "reject"), R("img.image", "implant_md5", "int", "reject"),
  R("img.image", "implant_md5", "md5_nl", "reject"),
  R("img.image", "bootable", "str", "coerce"), R("img.image", "bootable", "none", "coerce"), R("img.image", "bootable", "int", "coerce"),
  R("img.image", "unified", "str", "reject"), R("img.image", "unified", "none", "reject"), R("img.image", "unified", "int", "reject"),
  R("img.image", "subvariant", "none", "reject"), R("img.image", "subvariant", "int", "reject"),
  R("img.image", "additional_variants", "none", "reject"), R("img.image", "additional_variants", "str", "reject"),
  R("img.image", "additional_variants", "tuple", "na"),
  R("img.plainimage", "additional_variants", "nonempty", "reject"),
  \* the object was written successfully first; then a container attribute is edited IN PLACE (no assignment happens)
  R("img.image", "checksums", "inplace_clear", "na"), R("img.plainimage", "additional_variants", "inplace_append", "na"),
  \* document-only: one identifying attribute replaced so that the record collides (different checksums) with an image
  \* listed under ANOTHER arch key - the manifest-level uniqueness rule
  R("img.twinimage", "identity", "doc:collide", "reject") }
TiRules == {
  R("ti.release", "name", "none", "na"), R("ti.release", "short", "none", "na"),
  R("ti.release", "version", "trailingdot", "reject"), R("ti.release", "version", "alnum", "reject"), R("ti.release", "version", "none", "na"),
  R("ti.release", "version", "numnl", "na"),
  R("ti.release", "is_layered", "str", "reject"),
  R("ti.base_product", "name", "none", "na"), R("ti.base_product", "short", "none", "na"),
  R("ti.base_product", "version", "trailingdot", "reject"), R("ti.base_product", "version", "alnum", "reject"),
  R("ti.base_product", "version", "none", "na"),
  R("ti.tree", "arch", "empty", "reject"), R("ti.tree", "arch", "none", "na"), R("ti.tree", "arch", "blanks", "na"),
  R("ti.tree", "build_timestamp", "str", "reject"), R("ti.tree", "build_timestamp", "none", "na"), R("ti.tree", "build_timestamp", "zero", "reject"),
  R("ti.tree", "build_timestamp", "nan", "na"),        \* a float that is not a number: only the [general] writer trips over it
  R("ti.variant", "id", "dash", "reject"), R("ti.variant", "id", "none", "na"), R("ti.variant", "id", "int", "na"),
  R("ti.variant", "id", "empty", "reject"),
  R("ti.variant", "type", "unknown", "reject"), R("ti.variant", "type", "layered", "reject"),
  R("ti.variant", "name", "none", "na"),
  \* text fields without a pattern of their own: a number or a truth value is still not text (nothing but the INI writer's own
  \* type check stands between such a value and the file)
  R("ti.variant", "name", "int", "na"), R("ti.variant", "name", "float", "na"), R("ti.variant", "name", "true", "na"),
  R("ti.variant", "path_packages", "int", "na"), R("ti.variant", "path_repository", "float", "na"), R("ti.variant", "path_identity", "true", "na"),
  R("ti.variant", "path_debug_packages", "zero", "na"),
  R("ti.childvariant", "uid", "misaligned", "reject"),
  R("ti.images", "image_paths", "absolute", "reject"), R("ti.images", "platforms", "unreferenced", "reject"),
  R("ti.images", "image_paths", "int", "na"),
  R("ti.images", "image_paths", "table_none", "na"),      \* a platform's whole table replaced by None
  \* values of the wrong type that merely look empty: the section writers return early on them
  R("ti.images", "image_paths", "tables_zero", "na"), R("ti.images", "image_paths", "tables_emptylist", "na"),
  R("ti.stage2", "mainimage", "zero", "na"), R("ti.stage2", "mainimage", "emptylist", "na"),
  \* the absolute path sits under an image name that another platform lists too (first / last platform holding it)
  R("ti.sharedimages", "image_paths", "absolute_shared", "reject"), R("ti.sharedimages", "image_paths", "absolute_shared_last", "reject"),
  R("ti.images", "platforms", "arch_unreferenced", "reject"),     \* images under the tree arch itself, arch missing from tree.platforms
  R("ti.childvariant", "uid", "dashvariant", "na"),
  R("ti.stage2", "mainimage", "absolute", "reject"), R("ti.stage2", "mainimage", "int", "na"),
  R("ti.stage2", "instimage", "absolute", "reject"), R("ti.stage2", "instimage", "absolute_alone", "na"),
  R("ti.media", "discnum", "str", "reject"), R("ti.media", "discnum", "float", "na"),
  R("ti.media", "totaldiscs", "str", "reject"), R("ti.media", "totaldiscs", "float", "na"),
  R("ti.media", "totaldiscs", "onlyone", "na"),
  \* a tree WITHOUT media numbering (both None: valid) gets one junk value that merely looks empty
  R("ti.nomedia", "discnum", "empty", "na"), R("ti.nomedia", "discnum", "zerofloat", "na"), R("ti.nomedia", "discnum", "emptylist", "na"),
  R("ti.checksums", "paths", "absolute", "reject"), R("ti.checksums", "paths", "intkey", "na"),
  \* document-only classes ("doc:" prefix): not expressible on an object, skipped on the write side
  R("ti.checksums", "value", "doc:bare_unknown_length", "reject"), R("ti.checksums", "value", "doc:bare_unknown_length_first", "reject") }
DiRules == {
  R("di.discinfo", "timestamp", "none", "na"), R("di.discinfo", "timestamp", "zero", "reject"), R("di.discinfo", "timestamp", "str", "reject"),
  R("di.discinfo", "timestamp", "int", "na"),
  R("di.discinfo", "description", "empty", "reject"), R("di.discinfo", "description", "blanks", "na"), R("di.discinfo", "arch", "blanks", "na"), R("di.discinfo", "description", "none", "na"), R("di.discinfo", "description", "int", "na"),
  R("di.discinfo", "arch", "empty", "reject"), R("di.discinfo", "arch", "none", "na"), R("di.discinfo", "arch", "int", "na"),
  R("di.discinfo", "description", "bytes", "na"), R("di.discinfo", "arch", "bytes", "na"),      \* text fields take text only
  R("di.discinfo", "disc_numbers", "emptylist", "na"), R("di.discinfo", "disc_numbers", "none", "na"),
  R("di.discinfo", "disc_numbers", "str", "reject"), R("di.discinfo", "disc_numbers", "tuple", "na"),
  \* document-only: a list with an empty item (trailing, leading, doubled comma)
  R("di.discinfo", "disc_numbers", "doc:trailingcomma", "reject"), R("di.discinfo", "disc_numbers", "doc:leadingcomma", "reject"),
  R("di.discinfo", "disc_numbers", "doc:doublecomma", "reject"),
  R("di.discinfo", "disc_numbers", "list_of_text", "na"), R("di.discinfo", "disc_numbers", "list_of_float", "na"),
  \* the bad element compares equal to a legal number listed before it (1 == 1.0 == True)
  R("di.discinfo", "disc_numbers", "list_int_float", "na"), R("di.discinfo", "disc_numbers", "list_int_bool", "na") }
Rules == ComposeRules \cup CiRules \cup ImageRules \cup TiRules \cup DiRules

\* node kinds a dump of each format visits and validates (composeinfo.py / images.py / treeinfo.py serialize chains)
Walk == [ composeinfo |-> {"compose", "compose+label", "ci.release", "ci.base_product", "ci.variant", "ci.childvariant", "ci.grandchild", "ci.leafvariant", "ci.vrelease"},
          images      |-> {"compose", "compose+label", "img.image", "img.plainimage", "img.twinimage"},
          rpms        |-> {"compose", "compose+label"},
          modules     |-> {"compose", "compose+label"},
          extra_files |-> {"compose", "compose+label"},
          treeinfo    |-> {"ti.release", "ti.base_product", "ti.tree", "ti.variant", "ti.childvariant", "ti.images", "ti.sharedimages", "ti.nomedia", "ti.stage2",
                           "ti.media", "ti.checksums"},
          discinfo    |-> {"di.discinfo"} ]
FmtOf(s) == CHOOSE f \in DOMAIN Walk : \E i \in 0..9 : s = f \o "_" \o ToString(i)
\* walk completeness: every node the real sample objects consist of is a kind the dump of that format validates
WalkComplete == \A s \in DOMAIN Nodes : \A i \in 1..Len(Nodes[s]) : \A k \in Nodes[s][i].kinds : k \in Walk[FmtOf(s)]
\* every rule is reachable through some format's walk, and every walked kind has at least one rule
RulesReachable == \A r \in Rules : \E f \in DOMAIN Walk : r[1] \in Walk[f]
KindsRuled == \A f \in DOMAIN Walk : \A k \in Walk[f] : \E r \in Rules : r[1] = k
ASSUME WalkComplete
ASSUME RulesReachable
ASSUME KindsRuled

\* ---- single-slot corruptions of every sample
Cases == {[sample |-> s, node |-> i, label |-> Nodes[s][i].label, kind |-> r[1], field |-> r[2], cls |-> r[3], load |-> r[4]] :
            <<s, i, r>> \in {t \in (DOMAIN Nodes) \X (1..40) \X Rules : t[2] <= Len(Nodes[t[1]]) /\ t[3][1] \in Nodes[t[1]][t[2]].kinds}}
\* ---- document-level corruptions (C07): header type swap, mangled version, deleted required key / section
Types == [composeinfo |-> "productmd.composeinfo", images |-> "productmd.images", rpms |-> "productmd.rpms",
          modules |-> "productmd.modules", extra_files |-> "productmd.extra_files", treeinfo |-> "productmd.treeinfo"]
Mangled == {"nonnumeric", "onepart", "threepart", "empty", "null", "float", "trailing_x", "negative", "valid_elsewhere", "trailing_nl", "fullwidth"}
Req(f, P) == {<<f, p>> : p \in P}
ComposeReq == {"payload", "payload/compose", "payload/compose/id", "payload/compose/type", "payload/compose/date", "payload/compose/respin"}
Required ==
  Req("composeinfo", {"header", "header/version", "header/type"} \cup ComposeReq \cup
        {"payload/release", "payload/release/name", "payload/release/short", "payload/release/version",
         "payload/base_product", "payload/base_product/name", "payload/base_product/short", "payload/base_product/version",
         "payload/variants", "variant/id", "variant/uid", "variant/name", "variant/type", "variant/arches", "variant/paths",
         "vrelease/name", "vrelease/short", "vrelease/version"}) \cup
  Req("images", {"header", "header/version", "header/type", "payload/images"} \cup ComposeReq \cup
        {"image/path", "image/mtime", "image/size", "image/volume_id", "image/type", "image/arch", "image/disc_number",
         "image/disc_count", "image/checksums", "image/implant_md5", "image/bootable", "image/subvariant"}) \cup
  Req("rpms", {"header", "header/version", "header/type", "payload/rpms"} \cup ComposeReq) \cup
  Req("modules", {"header", "header/version", "header/type", "payload/modules"} \cup ComposeReq) \cup
  Req("extra_files", {"header", "header/version", "header/type", "payload/extra_files"} \cup ComposeReq) \cup
  Req("treeinfo", {"header/type", "release", "release/name", "release/version", "tree/arch", "tree/platforms", "tree/build_timestamp",
                   "variantsection", "variant/id", "variant/uid", "variant/name", "variant/type",
                   "base_product", "base_product/name", "base_product/short", "base_product/version",
                   "media/discnum", "media/totaldiscs"}) \cup
  Req("discinfo", {"line3", "line2+3"})
DocCases == {[sample |-> s, kind |-> "swaptype", arg |-> Types[o], ver |-> v] :
               <<s, o, v>> \in {t \in (DOMAIN Nodes) \X (DOMAIN Types) \X {"1.1", "1.2", "2.0"} :
                                  FmtOf(t[1]) \in DOMAIN Types /\ t[2] # FmtOf(t[1])}}
            \cup {[sample |-> s, kind |-> "mangle", arg |-> m, ver |-> ""] : <<s, m>> \in {t \in (DOMAIN Nodes) \X Mangled : FmtOf(t[1]) \in DOMAIN Types}}
            \cup {[sample |-> s, kind |-> "delete", arg |-> r[2], ver |-> ""] : <<s, r>> \in {t \in (DOMAIN Nodes) \X Required : t[2][1] = FmtOf(t[1])}}
VARIABLE c
Init == IF Mode = "doc" THEN c \in DocCases ELSE c \in Cases
Next == FALSE /\ UNCHANGED c
\* the model's verdicts
WriteOutcome == "raises"                          \* exactly one slot is outside its domain
LoadOutcome  == CASE c.load = "reject" -> "raises" [] c.load = "coerce" -> "raises-or-valid" [] OTHER -> "na"
Emit == IF Mode = "doc"
        THEN PrintT("@@" \o ToJson([sample |-> c.sample, kind |-> c.kind, arg |-> c.arg, ver |-> c.ver, load |-> "raises"]))
        ELSE PrintT("@@" \o ToJson([sample |-> c.sample, node |-> c.node, label |-> c.label, kind |-> c.kind, field |-> c.field,
                                     cls |-> c.cls, write |-> WriteOutcome, load |-> LoadOutcome]))
=============================================================================
