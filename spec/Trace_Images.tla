------------------------------ MODULE Trace_Images ------------------------------
(* Trace validation (code -> spec) for ImagesManifest: every recorded execution of the real
   Images class must be a behaviour of the specification, and every invariant is evaluated
   at every recorded step.  A batch file holds many traces; `tid` selects one, `l` is the
   position in it.  The longest matched prefix per trace is kept in TLC register `tid`.   *)
EXTENDS ImagesManifest, Json, IOUtils, TLCExt
VARIABLES tid, l
File   == JsonDeserialize(IOEnv.TRACE_FILE)
Batch  == File.traces
SeqSet(s) == {s[i] : i \in 1..Len(s)}
TraceKnown == SeqSet(File.arches)
Events(t) == Batch[t].events
Ev == Events(tid)[l]
DocOf(seq) == LET ents == SeqSet(seq) IN
              [k \in {<<e.v, e.a>> : e \in ents} |->
                 UNION {SeqSet(e.imgs) : e \in {x \in ents : x.v = k[1] /\ x.a = k[2]}}]
Key(c) == c[1] \o "/" \o c[2]
\* projection logged by the recorder after every call
ProjOk == /\ Cardinality(DOMAIN cells') = Ev.ncells
          /\ Cardinality(Filed(cells')) = Ev.nimgs
          /\ {Key(c) : c \in DOMAIN cells'} = SeqSet(Ev.keys)
          /\ hdr' = Ev.hdr
TraceInit == /\ tid \in 1..Len(Batch) /\ l = 1 /\ Init
TraceNew  == Ev.op = "new" /\ hdr = Ev.hdr /\ UNCHANGED vars
TraceAdd  == Ev.op = "add" /\ Add(Ev.v, Ev.a, Ev.img) /\ out' = Ev.out /\ ProjOk
TraceVer  == Ev.op = "setversion" /\ SetVersion(Ev.ver)
TraceDump == Ev.op = "dump" /\ Dump /\ out' = Ev.out /\ ProjOk
TraceLoad == Ev.op = "load" /\ Load(DocOf(Ev.doc), Ev.ver) /\ out' = (IF Ev.out = "ok" THEN "ok" ELSE "ValueError")
             /\ (Ev.out = "ok" => ProjOk)
TraceNext == /\ l <= Len(Events(tid)) /\ l' = l + 1 /\ UNCHANGED tid
             /\ (TraceNew \/ TraceAdd \/ TraceVer \/ TraceDump \/ TraceLoad)
Reached == TLCSet(tid, IF TLCGet(tid) < l THEN l ELSE TLCGet(tid))
ASSUME \A t \in 1..Len(Batch) : TLCSet(t, 0)
Post == \A t \in 1..Len(Batch) :
          IF TLCGet(t) = Len(Events(t)) + 1 THEN PrintT(<<"ACCEPT", Batch[t].tid>>)
          ELSE PrintT(<<"REJECT", Batch[t].tid, "at", TLCGet(t)>>)
=============================================================================
