------------------------------ MODULE ComposeLayout ------------------------------
(* Resolution of a compose directory by productmd.compose.Compose (C20).
   A configuration: the state of the path itself (R), its "compose" sub-directory (C) and two
   version-named legacy sub-directories (L1, L2), each one of
       "absent" | "dir" (no metadata) | "meta" (metadata directory without composeinfo) | "meta_ci";
   which file names the metadata directories use for the image/rpm manifests
       ("cur" images.json/rpms.json, "leg" image-manifest.json/rpm-manifest.json, "both", "none");
   the content class of those manifests; whether composeinfo files are undecodable; trailing slash.
   Documented precedence: compose/ when it holds a composeinfo, else a sub-directory that has
   `metadata` (which one, when several do, is left open), else the path itself.                *)
EXTENDS Naturals, Sequences, FiniteSets, TLC, Json
CONSTANT Mode
Dirs == {"R", "C", "L1", "L2"}
DS == {"absent", "dir", "meta", "meta_ci"}
HasMeta(s) == s \in {"meta", "meta_ci"}
Configs == {c \in [st : [Dirs -> DS], names : {"cur", "leg", "both", "none", "mix_il", "mix_rl", "both_curbad", "both_legbad"}, content : {"valid", "validempty", "notjson", "empty", "wrongtype"},
                   cibad : BOOLEAN, slash : BOOLEAN, rev : BOOLEAN, http : BOOLEAN, link : {"none", "rel", "abs"}] :
              /\ (c.st["R"] = "absent" => \A d \in Dirs : c.st[d] = "absent")
              /\ (c.cibad => c.content = "valid")
              \* over HTTP there is no directory listing: only compose/ and the location itself are probed
              /\ (c.http => c.st["R"] # "absent" /\ ~c.rev /\ c.names \in {"cur", "leg", "none"} /\ c.content \in {"valid", "notjson"})
              /\ (c.rev => c.names \in {"mix_il", "mix_rl", "both"} /\ ~c.slash)     \* accessor order matters only for mixed generations
              /\ (c.names \in {"mix_il", "mix_rl"} => c.content \in {"valid", "notjson"})
              \* both names present, ONE of the two files undecodable (the other valid)
              /\ (c.names \in {"both_curbad", "both_legbad"} => c.content = "valid" /\ ~c.http /\ ~c.rev /\ ~c.cibad)
              \* the path handed to Compose() is a symbolic link to the compose directory (relative / absolute target)
              /\ (c.link # "none" => c.st["R"] # "absent" /\ ~c.http /\ ~c.rev /\ ~c.cibad /\ c.content = "valid" /\ c.names \in {"cur", "leg"})
              /\ (Mode = "quick" => (c.link # "none" => c.st["L2"] = "absent") /\ (c.names \in {"both_curbad", "both_legbad"} => ~c.slash /\ c.st["L2"] = "absent"))
              /\ (Mode = "quick" => (c.slash => c.names = "cur") /\ (c.content # "valid" => c.names \in {"cur", "both"}) /\ (c.content = "validempty" => c.names = "cur")) }
\* ---- resolution
Resolved(c) ==
  IF c.st["C"] = "meta_ci" THEN {"C"}
  ELSE IF c.http THEN {"R"}
  ELSE IF c.st["R"] = "absent" THEN {"R"}
  ELSE LET subs == {d \in {"C", "L1", "L2"} : HasMeta(c.st[d])}
       IN IF subs # {} THEN subs ELSE {"R"}
\* ---- accessors on the resolved directory d
OneBad == {"both_curbad", "both_legbad"}
BadName(kind, c) == IF c.names = "both_curbad" THEN (IF kind = "images" THEN "images.json" ELSE "rpms.json")
                    ELSE (IF kind = "images" THEN "image-manifest.json" ELSE "rpm-manifest.json")
Names(kind, c) == CASE kind = "info" -> {"composeinfo.json"}
                    [] kind = "modules" -> IF c.names = "none" THEN {} ELSE {"modules.json"}
                    \* mix_il: images under the legacy name, rpms under the current one; mix_rl the other way round
                    [] kind = "images" -> (IF c.names \in {"cur", "both", "mix_rl"} \cup OneBad THEN {"images.json"} ELSE {}) \cup
                                          (IF c.names \in {"leg", "both", "mix_il"} \cup OneBad THEN {"image-manifest.json"} ELSE {})
                    [] kind = "rpms" -> (IF c.names \in {"cur", "both", "mix_il"} \cup OneBad THEN {"rpms.json"} ELSE {}) \cup
                                        (IF c.names \in {"leg", "both", "mix_rl"} \cup OneBad THEN {"rpm-manifest.json"} ELSE {})
Get(kind, c, d) ==
  LET present == IF ~HasMeta(c.st[d]) THEN {} ELSE IF kind = "info" THEN (IF c.st[d] = "meta_ci" THEN {"composeinfo.json"} ELSE {})
                 ELSE Names(kind, c)
      bad == IF kind = "info" THEN c.cibad ELSE c.content \notin {"valid", "validempty"}
  IN IF present = {} THEN [out |-> "missing", files |-> {}]
     \* one of two candidate files is undecodable: the file the library prefers decides (whichever that is, consistently):
     \* preferred file bad -> RuntimeError naming it; preferred file good -> its document.  Never the other file's content
     \* because the preferred one could not be decoded.
     ELSE IF c.names \in OneBad /\ kind \in {"images", "rpms"} THEN [out |-> "onebad", files |-> present, bad |-> BadName(kind, c)]
     ELSE IF bad THEN [out |-> "undecodable", files |-> present]
     ELSE [out |-> "doc", files |-> present]
Kinds == {"info", "images", "rpms", "modules"}
\* model-level sanity: compose/ with a composeinfo always wins; a resolved directory exists unless the path itself is absent
Prefers == \A c \in Configs : c.st["C"] = "meta_ci" => Resolved(c) = {"C"}
Exists  == \A c \in Configs : \A d \in Resolved(c) : c.st[d] # "absent" \/ c.st["R"] = "absent"
ASSUME Prefers
ASSUME Exists
VARIABLE c
Init == c \in Configs
Next == FALSE /\ UNCHANGED c
Emit == PrintT("@@" \o ToJson([st |-> c.st, names |-> c.names, content |-> c.content, cibad |-> c.cibad, slash |-> c.slash, rev |-> c.rev, http |-> c.http, link |-> c.link,
                                resolved |-> Resolved(c),
                                exp |-> [d \in Resolved(c) |-> [k \in Kinds |-> Get(k, c, d)]]]))
=============================================================================
