----------------------------- MODULE BuildersGen -----------------------------
EXTENDS Builders, Json
CONSTANTS Mode, D
VARIABLE hist
MCKnown == {"bin1", "bin2", "src"}
MCCats == {"binary", "debug", "source"}
MCOkPaths == {"rel1", "rel2"}
MCOkUid == {"canon", "dir"}
Vs == {"V1", "V2", "empty"}
As == MCKnown \cup {"unknown"}
Mods == {"m2", "m3", "m4"}                         \* 2-, 3- and 4-part UIDs
UForms == MCOkUid \cup {"nostream", "fiveparts", "emptypart", "notastring"}
Paths == MCOkPaths \cup {"abs", "empty", "int"}      \* "int": a number where a path belongs
RLs == {<<>>, <<"r1">>, <<"r2", "r1">>, <<"notalist">>}
MRec(v, a, m, u, k, p, c, rl) == [op |-> "modadd", v |-> v, a |-> a, m |-> m, uform |-> u, koji |-> k, path |-> p, cat |-> c,
                                   rl |-> rl, out |-> out']
ModMatrix == \E v \in Vs, a \in As, m \in Mods, u \in UForms, k \in {"tag", "empty"}, p \in Paths, c \in MCCats \cup {"invalid"}, rl \in RLs :
                /\ ModAdd(v, a, m, u, k, p, c, rl) /\ hist' = Append(hist, MRec(v, a, m, u, k, p, c, rl))
ModHist == \/ \E v \in {"V1", "V2"}, a \in {"bin1", "src"}, m \in Mods, p \in MCOkPaths, c \in {"binary", "debug"}, rl \in {<<>>, <<"r1">>, <<"r2", "r1">>} :
                /\ ModAdd(v, a, m, IF m = "m3" THEN "dir" ELSE "canon", "tag", p, c, rl)
                /\ hist' = Append(hist, MRec(v, a, m, IF m = "m3" THEN "dir" ELSE "canon", "tag", p, c, rl))
           \/ \E bad \in {"arch", "path", "uid", "koji", "rl"} :
                LET a == IF bad = "arch" THEN "unknown" ELSE "bin1"
                    p == IF bad = "path" THEN "abs" ELSE "rel1"
                    u == IF bad = "uid" THEN "nostream" ELSE "canon"
                    k == IF bad = "koji" THEN "empty" ELSE "tag"
                    rl == IF bad = "rl" THEN <<"notalist">> ELSE <<"r1">>
                IN /\ ModAdd("V1", a, "m2", u, k, p, "binary", rl)
                   /\ hist' = Append(hist, MRec("V1", a, "m2", u, k, p, "binary", rl))
XRec(v, a, p, s, c) == [op |-> "xfadd", v |-> v, a |-> a, path |-> p, size |-> s, cks |-> c, out |-> out']
XfMatrix == \E v \in Vs, a \in As, p \in Paths, s \in {"s1", "s0"}, c \in {"one", "two", "notadict", "nosums"} :     \* "s0": a file of zero length; "nosums": no checksum yet
                /\ XfAdd(v, a, p, s, c) /\ hist' = Append(hist, XRec(v, a, p, s, c))
XfHist == \E v \in {"V1", "V2"}, a \in {"bin1", "unknown"}, p \in MCOkPaths \cup {"abs"}, c \in {"one", "notadict"} :
                LET s == IF p = "rel1" THEN "s1" ELSE (IF v = "V2" THEN "s0" ELSE "s2")
                    cc == IF c = "one" /\ v = "V2" THEN "two" ELSE c
                IN /\ XfAdd(v, a, p, s, cc) /\ hist' = Append(hist, XRec(v, a, p, s, cc))
\* the per-tree export between adds: base "os" is a prefix of rel1 only (rel2 lives in .../osx), "top" of both
PathSeq(tok) == CASE tok = "rel1" -> <<"Server", "x86_64", "os", "GPL">> [] tok = "rel2" -> <<"Server", "x86_64", "osx", "README">>
                  [] OTHER -> <<tok>>
BaseSeq(b) == IF b = "os" THEN <<"Server", "x86_64", "os">> ELSE <<"Server">>
XfDump == \E v \in {"V1", "V2"}, b \in {"os", "top"} :
             /\ XfTreeDump(v, "bin1")
             /\ hist' = Append(hist, [op |-> "treedump", v |-> v, a |-> "bin1", base |-> BaseSeq(b), out |-> out',
                                      listed |-> IF <<v, "bin1">> \in DOMAIN files
                                                 THEN [i \in 1..Len(files[<<v, "bin1">>]) |-> Strip(PathSeq(files[<<v, "bin1">>][i].file), BaseSeq(b))]
                                                 ELSE <<>>])
GInit == Init /\ hist = <<>>
GNext == /\ Len(hist) < D
         /\ CASE Mode = "modmatrix" -> ModMatrix [] Mode = "modhist" -> ModHist
              [] Mode = "xfmatrix" -> XfMatrix [] Mode = "xfhist" -> (XfHist \/ XfDump)
ModsJson == {[v |-> k[1], a |-> k[2], m |-> k[3], koji |-> mods[k].koji, rpms |-> mods[k].rpms,
              paths |-> {[cat |-> c, path |-> mods[k].paths[c]] : c \in DOMAIN mods[k].paths}] : k \in DOMAIN mods}
FilesJson == {[v |-> k[1], a |-> k[2], items |-> files[k]] : k \in DOMAIN files}
Emit == PrintT("@@" \o ToJson([hist |-> hist, mods |-> ModsJson, files |-> FilesJson]))
EmitLast == Len(hist) < D \/ Emit
\* dump_for_tree model check: component-boundary stripping
P1 == <<"Server", "x86_64", "os", "GPL">>
P2 == <<"Server", "x86_64", "osx", "README">>
StripOk == /\ Strip(P1, <<"Server", "x86_64", "os">>) = <<"GPL">>
           /\ Strip(P2, <<"Server", "x86_64", "os">>) = P2
           /\ Strip(P1, <<"Client">>) = P1 /\ Strip(P1, P1) = P1 /\ Strip(P1, <<>>) = P1
ASSUME StripOk
\* dump_for_tree cases for the harness: every (path, base) over components {a, ab, b}, lengths <= 3
Comp == {"a", "ab", "b"}
SeqsUpTo(n) == UNION {[1..k -> Comp] : k \in 0..n}
ASSUME Mode = "strip" => \A p \in SeqsUpTo(3) \ {<<>>}, b \in SeqsUpTo(3) :
                            PrintT("@@" \o ToJson([p |-> p, b |-> b, strip |-> Strip(p, b)]))
=============================================================================
