--------------------------- MODULE Trace_ComposeAccess ---------------------------
(* Code -> spec for the accessors of productmd.compose.Compose: executions of the REAL object, driven at random over a real
   directory by harness/compose_access.py (longer histories, all four kinds at once, more ways of being undecodable than the
   generator has) and logged as one record per step - what was done and what the caller saw - must be behaviours of
   ComposeAccess.tla.  Every logged step has exactly one successor, so the search is linear in the length of the trace; the
   action properties of ComposeAccess are evaluated on every recorded step.                                                  *)
EXTENDS ComposeAccess, Json, IOUtils, TLCExt
VARIABLES tid, l
File == JsonDeserialize(IOEnv.TRACE_FILE)
Batch == File.traces
Events(t) == Batch[t].events
Ev == Events(tid)[l]
InitDisk(t) == [f \in Files |-> Batch[t].init[f[1] \o "/" \o f[2]]]
TraceInit == \E t \in 1..Len(Batch) : tid = t /\ l = 1 /\ Start(InitDisk(t))
TraceNext == /\ l <= Len(Events(tid)) /\ l' = l + 1 /\ UNCHANGED tid
             /\ \/ /\ Ev.a = "access" /\ Access(Ev.k)
                   /\ last'.out = Ev.out /\ last'.v = Ev.v /\ last'.e = Ev.e      \* what the caller saw is what the specification says
                   /\ (Ev.out = "bad" => last'.s = Ev.s)                           \* ... including the file the error names
                \/ Ev.a = "edit" /\ Edit(Ev.k) /\ last'.e = Ev.e
                \/ Ev.a = "file" /\ FileSet(<<Ev.k, Ev.s>>, Ev.w) /\ last'.v = Ev.v
                \/ Ev.a = "decoy" /\ Decoy
TraceSpecCA == TraceInit /\ [][TraceNext]_<<vars, tid, l>>
Reached == TLCSet(tid, IF TLCGet(tid) < l THEN l ELSE TLCGet(tid))
ASSUME \A t \in 1..Len(Batch) : TLCSet(t, 0)
Post == \A t \in 1..Len(Batch) :
          IF TLCGet(t) = Len(Events(t)) + 1 THEN PrintT(<<"ACCEPT", Batch[t].tid>>)
          ELSE PrintT(<<"REJECT", Batch[t].tid, "at", TLCGet(t)>>)
=============================================================================
