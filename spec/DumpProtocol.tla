----------------------------- MODULE DumpProtocol -----------------------------
(* One dump(path) of one metadata object (common.py MetadataBase.dump, treeinfo.py TreeInfo.dump)
   as a protocol between validation and the destination file (C18).
   A dump runs `top` validation points (the top-level validate()) followed by `nested` ones
   (validators run by nested section writers while serialising), opens the destination for
   writing (which truncates or creates it) and writes.  `failAt` is the validation point that
   raises (0 = none).  Reference order: every validation point, then Open, then Write.
   Dev_OpenBeforeSerialize is the order as shipped at the pinned commit: Open as soon as the
   top-level points are done, nested points afterwards.                                      *)
EXTENDS Naturals, Sequences, TLC
CONSTANTS Dev_OpenBeforeSerialize
VARIABLES top, nested,     \* number of validation points of each kind (chosen in Init)
          disk0, disk, pc, next, failAt, opened
vars == <<top, nested, disk0, disk, pc, next, failAt, opened>>
NPoints == top + nested
Start(t, n, d, f) == /\ top = t /\ nested = n /\ disk0 = d /\ disk = d /\ failAt = f
                     /\ pc = "run" /\ next = 1 /\ opened = FALSE
MayOpen == IF Dev_OpenBeforeSerialize THEN next > top ELSE next > NPoints
\* run validation point `next`
Point == /\ pc = "run" /\ next <= NPoints
         /\ (next > top /\ Dev_OpenBeforeSerialize => opened)       \* as shipped: nested points run inside the open file
         /\ IF failAt = next THEN pc' = "raised" /\ UNCHANGED next ELSE next' = next + 1 /\ UNCHANGED pc
         /\ UNCHANGED <<top, nested, disk0, disk, failAt, opened>>
Open  == /\ pc = "run" /\ ~opened /\ MayOpen
         /\ disk' = "Empty" /\ opened' = TRUE                        \* open(path, "w") truncates or creates
         /\ UNCHANGED <<top, nested, disk0, pc, next, failAt>>
Write == /\ pc = "run" /\ opened /\ next > NPoints
         /\ disk' = "New" /\ pc' = "done"
         /\ UNCHANGED <<top, nested, disk0, next, failAt, opened>>
Next == Point \/ Open \/ Write
FailedDumpLeavesDisk == pc = "raised" => disk = disk0                  \* C18
SuccessWrites        == pc = "done" => (disk = "New" /\ failAt = 0)
NoValidationAfterOpen == [][opened => next' = next]_vars               \* locates the cause on successful dumps too
Terminates           == <>(pc \in {"done", "raised"})
=============================================================================
