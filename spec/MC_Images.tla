------------------------------- MODULE MC_Images -------------------------------
(* Exhaustive model-check instance of ImagesManifest (no history variable). *)
EXTENDS ImagesManifest, FiniteSetsExt
CONSTANTS MaxDocImages
Img(n, i, s) == [n |-> n, ident |-> i, sums |-> s]
Pool == {Img("i1a", "I1", "c1"), Img("i1b", "I1", "c2"), Img("i2", "I2", "c1"), Img("i1a2", "I1", "c1")}
MCKnown == {"x86_64", "i386", "src", "nosrc"}
MCSrc == {"src", "nosrc"}
AddCells == {<<"S", "x86_64">>, <<"S", "i386">>, <<"C", "x86_64">>, <<"S", "src">>, <<"C", "nosrc">>, <<"S", "bogus">>}
DocCells == {<<"S", "x86_64">>, <<"S", "i386">>, <<"S", "src">>, <<"C", "x86_64">>, <<"C", "src">>, <<"C", "nosrc">>, <<"C", "bogus">>}
Pairs == DocCells \X Pool
PairSets == UNION {kSubset(k, Pairs) : k \in 0..MaxDocImages}
DocOf(S) == [c \in {p[1] : p \in S} |-> {p[2] : p \in {q \in S : q[1] = c}}]
MCAdd == \E c \in AddCells, i \in Pool : Add(c[1], c[2], Eff(i))
MCEdit == \E i \in Pool, id \in {"I1", "I2"} : Edit(i.n, id)
MCSetVersion == \E ver \in {100, 101, 102, 200} : SetVersion(ver)
MCLoad == out = "new" /\ \E S \in PairSets, ver \in {100, 101, 102, 200} : Load(DocOf(S), ver)
MCNext == MCAdd \/ MCSetVersion \/ Dump \/ MCLoad \/ MCEdit
\* Load of an old document re-files every src image under each binary arch of its variant (C10)
SrcRefiled == \A S \in PairSets, ver \in {100, 101} :
                LET doc == DocOf(S) IN
                LoadOk(doc, ver) =>
                  \A k \in DOMAIN doc : k[2] = "src" =>
                    \A j \in DOMAIN doc : (j[1] = k[1] /\ j[2] # "src") => doc[k] \subseteq Refiled(doc, ver)[j]
\* ... and loses no binary image, gains nothing that was not in the document
LoadConserves == \A S \in PairSets, ver \in {100, 101, 102} :
                   LET doc == DocOf(S) IN
                   /\ \A k \in DOMAIN doc : k[2] # "src" => (k \in DOMAIN Refiled(doc, ver) /\ doc[k] \subseteq Refiled(doc, ver)[k])
                   /\ Filed(Refiled(doc, ver)) \subseteq Filed(doc)
ASSUME SrcRefiled
ASSUME LoadConserves
=============================================================================
