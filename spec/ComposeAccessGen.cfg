INIT GInit
NEXT GNext
INVARIANT ServesDocument
PROPERTY LoadedOnce
PROPERTY OnlyAccessFills
PROPERTY FirstAccessIsDirectLoad
PROPERTY Frame
CHECK_DEADLOCK FALSE
CONSTANTS
 Dev_NoCache = FALSE
 Dev_CacheFailure = FALSE
 Dev_Fallback = FALSE
