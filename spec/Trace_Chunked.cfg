INIT TraceInit
NEXT TraceNext
CONSTRAINT Reached
POSTCONDITION Post
INVARIANT InOrder
INVARIANT EndsWhole
CHECK_DEADLOCK FALSE
