---------------------------- MODULE RegexAmbiguity ----------------------------
(* Exponential ambiguity (EDA) of the regular expressions the library hands to `re` (C19).
   Each pattern is translated (harness/regex_nfa.py, from the pattern text found in the working
   tree) into an epsilon-free NFA over the partition alphabet induced by its own character sets;
   consuming edges keep one edge per distinct simple epsilon path, so nested quantifiers such as
   (x*-?x+)* yield parallel edges.  A backtracking matcher is exponential on some input family
   iff some state q has two DIFFERENT edge sequences q -> q over the SAME word: a reachability
   question on the product automaton, which TLC decides exhaustively.
   Out[<<pat, state>>] = set of <<edge id, atom, target>>.                                   *)
EXTENDS Naturals, FiniteSets, Sequences, TLC
CONSTANTS Out, Pivots          \* Pivots: set of <<pat, state>> that have outgoing edges
VARIABLES pat, piv, x, y, div, word
vars == <<pat, piv, x, y, div, word>>
Init == \E p \in Pivots : pat = p[1] /\ piv = p[2] /\ x = p[2] /\ y = p[2] /\ div = FALSE /\ word = <<>>
Edges(s) == IF <<pat, s>> \in DOMAIN Out THEN Out[<<pat, s>>] ELSE {}
Step == \E e1 \in Edges(x), e2 \in Edges(y) :
          /\ e1[2] = e2[2]
          /\ x' = e1[3] /\ y' = e2[3]
          /\ div' = (div \/ e1[1] # e2[1])
          /\ word' = Append(word, e1[2])
          /\ UNCHANGED <<pat, piv>>
Next == Step
NoEDA == ~(div /\ x = piv /\ y = piv)
View == <<pat, piv, x, y, div>>
=============================================================================
