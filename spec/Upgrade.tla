--------------------------------- MODULE Upgrade ---------------------------------
(* Older format versions and their documented mapping to the current model (C05).
   Versions are integers major*100+minor.  A step <<format, below, op, path, arg, expect>> says how a
   document of the current layout differs from a document of any version < below:
     op "drop"    the key `path` did not exist yet: removed; after upgrade it takes `expect`
                  ("default:<v>" | "derived" = recoverable from other content | "same");
     op "rename"  the section / key `path` had the legacy name `arg`;
     op "value"   the value of `path` was spelled differently (`arg` names the legacy spelling rule);
     op "layout"  a structural difference, `arg` names the transformation the harness implements
                  (uid-prefix children, src tables, general-only).
   Down(v) = the steps with v < below.  Up is what the library does; the requirement is that after
   loading Down(v) of a document every fact equals the original, except dropped keys, which take
   their documented default, and that the result is written as the current version with the
   proper header type, exactly once (Up of the current version is the identity).             *)
EXTENDS Naturals, Sequences, FiniteSets, TLC, Json
Current == 102
S(f, b, op, p, a, e) == [fmt |-> f, below |-> b, op |-> op, path |-> p, arg |-> a, expect |-> e]
Steps == {
  \* composeinfo
  S("composeinfo", 101, "drop", "header/type", "", "default:productmd.composeinfo"),
  S("composeinfo", 101, "drop", "release/type", "", "default:ga"),
  S("composeinfo", 101, "drop", "base_product/type", "", "default:ga"),
  S("composeinfo", 100, "layout", "variants", "children-by-uid-prefix", "same"),
  S("composeinfo", 4,   "rename", "payload/release", "product", "same"),
  S("composeinfo", 4,   "rename", "variant/release", "product", "same"),
  S("composeinfo", 4,   "drop", "release/internal", "", "default:false"),
  S("composeinfo", 3,   "drop", "compose/date", "", "derived"),
  S("composeinfo", 3,   "drop", "compose/respin", "", "derived"),
  S("composeinfo", 3,   "value", "compose/type", "stale", "derived"),
  \* images
  S("images", 102, "drop", "image/unified", "", "default:false"),
  S("images", 102, "drop", "image/additional_variants", "", "default:[]"),
  S("images", 102, "layout", "images", "src-cells", "same"),
  S("images", 101, "drop", "header/type", "", "default:productmd.images"),
  S("images", 101, "drop", "image/subvariant", "", "default:"),
  \* rpms
  S("rpms", 101, "drop", "header/type", "", "default:productmd.rpms"),
  S("rpms", 4,   "layout", "rpms", "manifest-0.3", "same"),
  \* treeinfo
  S("treeinfo", 101, "drop", "header/type", "", "default:productmd.treeinfo"),
  S("treeinfo", 4,   "rename", "release", "product", "same"),
  S("treeinfo", 4,   "layout", "variants", "src-paths-in-binary-options", "same"),
  S("treeinfo", 1,   "layout", "document", "general-only", "derived") }
Versions == [composeinfo |-> {0, 2, 3, 100, 101, 102}, images |-> {100, 101, 102}, rpms |-> {3, 100, 101, 102},
             treeinfo |-> {0, 3, 100, 101, 102}]
Down(f, v) == {s \in Steps : s.fmt = f /\ v < s.below}
\* ---- consistency of the table
Monotone == \A f \in DOMAIN Versions : \A v, w \in Versions[f] : v <= w => Down(f, w) \subseteq Down(f, v)
OnceOnly == \A f \in DOMAIN Versions : Down(f, Current) = {}
DropsHaveDefaults == \A s \in Steps : s.op = "drop" => s.expect # "same"
EveryOldVersionDiffers == \A f \in DOMAIN Versions : \A v \in Versions[f] : v < 101 => Down(f, v) # {}
ASSUME Monotone
ASSUME OnceOnly
ASSUME DropsHaveDefaults
ASSUME EveryOldVersionDiffers
VARIABLE c
Init == c \in {<<f, v>> : f \in DOMAIN Versions, v \in {0, 2, 3, 100, 101, 102}} /\ c[2] \in Versions[c[1]]
Next == FALSE /\ UNCHANGED c
Emit == PrintT("@@" \o ToJson([fmt |-> c[1], ver |-> c[2], steps |-> Down(c[1], c[2])]))
=============================================================================
