INIT Init
NEXT Next
CONSTRAINT Emit
INVARIANT NothingLost
INVARIANT UnifiedOnlyWhenTrue
INVARIANT NoEmptyCell
CHECK_DEADLOCK FALSE
CONSTANTS
