INIT TraceInit
NEXT TraceNext
CONSTRAINT Reached
POSTCONDITION Post
INVARIANT FailedDumpLeavesDisk
CHECK_DEADLOCK FALSE
CONSTANTS
 Dev_OpenBeforeSerialize = FALSE
