INIT Init
NEXT Next
INVARIANT Confluent
CONSTRAINT Emit
CHECK_DEADLOCK FALSE
CONSTANTS
