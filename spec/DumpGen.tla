-------------------------------- MODULE DumpGen --------------------------------
(* Fault enumeration for the real dump(): for every format (validation points MEASURED on the
   working tree by the harness) every failAt x initial disk state, with the expected final disk. *)
EXTENDS DumpProtocol, Json
CONSTANTS Formats        \* format -> <<top, nested>> (generated from the measurement)
VARIABLE fmt
MaxPts == 200
\* "OldLinked": the previous copy has a second hard link (e.g. shared with an older compose)
GInit == \E f \in DOMAIN Formats, d \in {"Absent", "Old", "OldLinked"}, k \in 0..MaxPts :
           k <= Formats[f][1] + Formats[f][2] /\ fmt = f /\ Start(Formats[f][1], Formats[f][2], d, k)
GNext == Next /\ UNCHANGED fmt
Final == pc \in {"done", "raised"}
Emit == Final => PrintT("@@" \o ToJson([fmt |-> fmt, failAt |-> failAt, disk0 |-> disk0, disk |-> disk, pc |-> pc]))
=============================================================================
