INIT GInit
NEXT GNext
PROPERTY RefusedIsNoop
PROPERTY RpmListGrows
PROPERTY FilesAppendOnly
PROPERTY OthersUntouched
CHECK_DEADLOCK FALSE
CONSTANTS
 KnownArch <- MCKnown
 Cats <- MCCats
 OkPaths <- MCOkPaths
 OkUidForms <- MCOkUid
