------------------------------- MODULE ReleaseId -------------------------------
(* Release short / version / type grammars and release IDs (C14).
   Strings are sequences of one-character strings.
   Layer 1 (requirement): DocShort / DocVersion are the documented grammars over the class
   alphabet; Create is the documented ID format; the round-trip requirement is
   "parse(Create(x)) = x" (checked on the real parser).
   Layer 2 (implementation, prediction only): ParseImpl transcribes the shipped algorithm so that
   TLC can show on the model where the round trip must fail; Injective shows that for dashed
   short names the ID format itself is ambiguous (no parser can satisfy the requirement).      *)
EXTENDS Lex, TLC, Json
CONSTANTS Mode, N,
          KnownTypes,          \* RELEASE_TYPES of the working tree, in table order, as char sequences
          Shorts, Versions     \* round-trip domain (char sequences)
\* ---- class alphabet of the predicates: l lowercase, U uppercase, d digit, o other
Classes == {"l", "U", "d", "-", ".", "@", "o"}
AlNumC(c) == c \in {"l", "d"}
RECURSIVE SegOk(_, _)
SegOk(w, i) == IF i > Len(w) THEN TRUE
               ELSE /\ (AlNumC(w[i]) \/ (w[i] = "-" /\ i > 1 /\ i < Len(w) /\ w[i + 1] # "-"))
                    /\ SegOk(w, i + 1)
DocShort(w) == Len(w) > 0 /\ w[1] = "l" /\ SegOk(w, 1)
RECURSIVE DottedNum(_, _, _)
DottedNum(w, i, prevDigit) ==
  IF i > Len(w) THEN prevDigit
  ELSE IF w[i] = "d" THEN DottedNum(w, i + 1, TRUE)
  ELSE IF w[i] = "." /\ prevDigit THEN DottedNum(w, i + 1, FALSE)
  ELSE FALSE
DocVersion(w) == Len(w) > 0 /\ (IF w[1] = "d" THEN DottedNum(w, 1, FALSE) ELSE TRUE)

\* ---- release ids over concrete characters
Ga == <<"g", "a">>
Create1(s, v, t) == IF t = Ga THEN s \o <<"-">> \o v ELSE s \o <<"-">> \o v \o <<"-">> \o t
Create(x) == Create1(x.short, x.version, x.type) \o
             (IF x.bp THEN <<"@">> \o Create1(x.bp_short, x.bp_version, x.bp_type) ELSE <<>>)
Count(w, ch) == Cardinality(Positions(w, ch))
RECURSIVE RSplit(_, _)
RSplit(w, n) == IF n = 0 \/ LastPos(w, "-") = 0 THEN <<w>>
                ELSE LET k == LastPos(w, "-") IN Append(RSplit(Before(w, k), n - 1), After(w, k))
FirstKnown(w) == LET S == {i \in 1..Len(KnownTypes) : EndsWith(w, KnownTypes[i])}
                 IN IF S = {} THEN 0 ELSE MinOf(S)
ParseImpl1(w) ==
  IF Count(w, "-") = 1 THEN LET p == RSplit(w, 1) IN [short |-> p[1], version |-> p[2], type |-> Ga]
  ELSE LET k  == FirstKnown(w)
           w2 == IF k = 0 THEN w ELSE SubSeq(w, 1, Len(w) - Len(KnownTypes[k]))
           p  == RSplit(w2, 2)
       IN IF Len(p) < 3 THEN [short |-> <<>>, version |-> <<>>, type |-> <<"?">>]
          ELSE [short |-> p[1], version |-> p[2], type |-> IF k = 0 THEN p[3] ELSE KnownTypes[k]]
Types == {KnownTypes[i] : i \in 1..Len(KnownTypes)}
Triples == Shorts \X Versions \X Types
Ids == {[short |-> a[1], version |-> a[2], type |-> a[3], bp |-> FALSE, bp_short |-> <<>>, bp_version |-> <<>>, bp_type |-> <<>>] : a \in Triples}
       \cup {[short |-> a[1], version |-> a[2], type |-> a[3], bp |-> TRUE, bp_short |-> b[1], bp_version |-> b[2], bp_type |-> b[3]]
             : a \in (IF Mode = "ids" THEN Triples ELSE {}), b \in {t \in Triples : Len(t[1]) <= 3 /\ Len(t[2]) <= 4}}
Dashed(s) == "-" \in {s[i] : i \in 1..Len(s)}

VARIABLE c
Init == IF Mode = "words" THEN c \in SeqsOver(Classes, 0, N) ELSE c \in Ids
Next == FALSE /\ UNCHANGED c
EmitWord == PrintT("@@" \o ToJson([w |-> c, short |-> DocShort(c), version |-> DocVersion(c)]))
EmitId == PrintT("@@" \o ToJson([x |-> [short |-> Str(c.short), version |-> Str(c.version), type |-> Str(c.type), bp |-> c.bp,
                                        bp_short |-> Str(c.bp_short), bp_version |-> Str(c.bp_version), bp_type |-> Str(c.bp_type)],
                                 id |-> Str(Create(c)),
                                 impl_ok |-> (ParseImpl1(Create1(c.short, c.version, c.type)) = [short |-> c.short, version |-> c.version, type |-> c.type])]))
Emit == IF Mode = "words" THEN EmitWord ELSE EmitId
\* implementation-layer prediction: the shipped algorithm fails exactly for dashed shorts with implicit ga
ImplPrediction == Mode # "words" =>
                    ((ParseImpl1(Create1(c.short, c.version, c.type)) = [short |-> c.short, version |-> c.version, type |-> c.type])
                       <=> ~(Dashed(c.short) /\ c.type = Ga))
\* design-level: is the ID format injective on the domain?  (own config; expected to be refuted)
Injective == Mode = "inj" => \A y \in Ids : Create(y) = Create(c) => y = c
=============================================================================
