SPECIFICATION Spec
INVARIANT InOrder
INVARIANT AtEof
CONSTRAINT Bound
CHECK_DEADLOCK FALSE
