------------------------------- MODULE ForestGen -------------------------------
(* State-graph generator for Forest: TLC explores every distinct forest once (VIEW hides the
   history), and for each one emits a shortest history reaching it, the expected projection,
   and the expected outcome (and successor) of EVERY in-scope add from that state, so the
   harness verifies every transition of the state graph on the real classes.            *)
EXTENDS MC_Forest, Json
VARIABLE hist
GInit == Init /\ hist = <<>>
View == <<kids, par>>
Succ(c, o, kf) == [kids EXCEPT ![c] = [key \in DOMAIN kids[c] \cup {KeyOf(o, kf)} |->
                                         IF key = KeyOf(o, kf) THEN o ELSE kids[c][key]]]
Acts == {[c |-> p[1], o |-> p[2], kf |-> p[3], out |-> IF AddOkK(p[1], p[2], p[3]) THEN "ok" ELSE "ValueError",
          newc |-> IF AddOkK(p[1], p[2], p[3]) THEN Succ(p[1], p[2], p[3])[p[1]] ELSE kids[p[1]]]
         : p \in {q \in Cont \X Objs \X KeyForms : q[3] \in KeyFormsAt(q[1]) /\ InScope(q[1], q[2]) /\ Attachable(q[1])}}
PoolJson == [o \in Objs |-> [id |-> Obj[o].id, uid |-> Obj[o].uid, arches |-> Obj[o].arches, type |-> Obj[o].type]]
Emit == PrintT("@@" \o ToJson([hist |-> hist, kids |-> kids, par |-> par, acts |-> Acts, pool |-> PoolJson,
                                forest |-> InForest]))
GNext == /\ Emit                       \* evaluated once per expanded (= distinct) state
         /\ \E c \in Cont, o \in Objs : \E kf \in KeyFormsAt(c) :
              /\ InScope(c, o) /\ Attachable(c) /\ AddK(c, o, kf)
              /\ hist' = Append(hist, [c |-> c, o |-> o, kf |-> kf, out |-> out'])
=============================================================================
