------------------------------- MODULE ForestGen -------------------------------
(* State-graph generator for Forest: TLC explores every distinct forest once (VIEW hides the
   history), and for each one emits a shortest history reaching it, the expected projection,
   and the expected outcome (and successor) of EVERY in-scope add from that state, so the
   harness verifies every transition of the state graph on the real classes.            *)
EXTENDS MC_Forest, Json
VARIABLE hist
GInit == Init /\ hist = <<>>
View == <<kids, par>>
Succ(c, o) == [kids EXCEPT ![c] = [key \in DOMAIN kids[c] \cup {Obj[o].id} |->
                                     IF key = Obj[o].id THEN o ELSE kids[c][key]]]
Acts == {[c |-> c, o |-> o, out |-> IF AddOk(c, o) THEN "ok" ELSE "ValueError",
          newc |-> IF AddOk(c, o) THEN Succ(c, o)[c] ELSE kids[c]]
         : <<c, o>> \in {p \in Cont \X Objs : InScope(p[1], p[2]) /\ Attachable(p[1])}}
PoolJson == [o \in Objs |-> [id |-> Obj[o].id, uid |-> Obj[o].uid, arches |-> Obj[o].arches, type |-> Obj[o].type]]
Emit == PrintT("@@" \o ToJson([hist |-> hist, kids |-> kids, par |-> par, acts |-> Acts, pool |-> PoolJson,
                                forest |-> InForest]))
GNext == /\ Emit                       \* evaluated once per expanded (= distinct) state
         /\ \E c \in Cont, o \in Objs :
              /\ InScope(c, o) /\ Attachable(c) /\ Add(c, o)
              /\ hist' = Append(hist, [c |-> c, o |-> o, out |-> out'])
=============================================================================
