INIT TraceInit
NEXT TraceNext
CONSTRAINT Reached
POSTCONDITION Post
PROPERTY RefusedIsNoop
PROPERTY RpmListGrows
PROPERTY FilesAppendOnly
PROPERTY OthersUntouched
CHECK_DEADLOCK FALSE
CONSTANTS
 KnownArch <- TraceKnownArch
 Cats = {"binary", "debug", "source"}
 OkPaths <- TraceOkPaths
 OkUidForms = {"canon"}
