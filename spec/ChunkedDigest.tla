----------------------------- MODULE ChunkedDigest -----------------------------
(* Feeding a file to a digest in chunks (treeinfo.compute_checksum, C16).  The property is about
   the DIGEST, so the model fixes only what correctness needs: every read returns the next
   min(req, L - pos) bytes of the file, every non-empty chunk read is fed exactly once before the
   next read, in order; at the end the chunks fed concatenate to the whole file.  Chunk sizes and
   empty updates are left free - any loop with these properties computes the standard digest.  *)
EXTENDS Naturals, Sequences, TLC
VARIABLES L, pos, fed, last, pending
vars == <<L, pos, fed, last, pending>>
Min(a, b) == IF a < b THEN a ELSE b
Start(l) == L = l /\ pos = 0 /\ fed = <<>> /\ last = 0 /\ pending = FALSE
Read(req, got) == /\ req >= 1 /\ (pending => last = 0)        \* an unfed non-empty chunk must not be dropped
                  /\ got = Min(req, L - pos)
                  /\ last' = got /\ pos' = pos + got /\ pending' = TRUE
                  /\ UNCHANGED <<L, fed>>
Update(n) == /\ pending /\ n = last
             /\ fed' = (IF n > 0 THEN Append(fed, n) ELSE fed) /\ pending' = FALSE /\ last' = 0
             /\ UNCHANGED <<L, pos>>
RECURSIVE Sum(_)
Sum(s) == IF s = <<>> THEN 0 ELSE Head(s) + Sum(Tail(s))
InOrder == pos = Sum(fed) + (IF pending THEN last ELSE 0)
AtEof   == (pos = L /\ ~(pending /\ last > 0)) => Sum(fed) = L     \* once everything is read and fed, the digest saw the whole file
\* model-check instance: request sizes 1..4, files of 0..9 bytes, at most 14 steps
Next == (\E r \in 1..4 : Read(r, Min(r, L - pos))) \/ Update(last)
Spec == (\E l \in 0..9 : Start(l)) /\ [][Next]_vars
Bound == Len(fed) <= 9 /\ TLCGet("level") <= 14
=============================================================================
