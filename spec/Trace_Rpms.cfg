INIT TraceInit
NEXT TraceNext
CONSTRAINT Reached
POSTCONDITION Post
INVARIANT NoSourceArch
INVARIANT SigLower
CHECK_DEADLOCK FALSE
CONSTANTS
 Rpm <- TraceRpm
 BinArch <- TraceBin
 Cats = {"binary", "debug", "source"}
 OkForms = {"canon"}
 OkPaths <- TraceOkPath
 Lower <- TraceLower
 BadSigs = {}
