----------------------------- MODULE Trace_Chunked -----------------------------
(* Recorded read()/update() calls of the real compute_checksum validated against ChunkedDigest. *)
EXTENDS ChunkedDigest, Json, IOUtils, TLCExt
VARIABLES tid, l
File == JsonDeserialize(IOEnv.TRACE_FILE)
Batch == File.traces
Events(t) == Batch[t].events
Ev == Events(tid)[l]
TraceInit == \E t \in 1..Len(Batch) : tid = t /\ l = 1 /\ Start(Batch[t].size)
TraceNext == /\ l <= Len(Events(tid)) /\ l' = l + 1 /\ UNCHANGED tid
             /\ \/ Ev.op = "read" /\ Read(Ev.req, Ev.got)
                \/ Ev.op = "update" /\ Update(Ev.n)
Reached == TLCSet(tid, IF TLCGet(tid) < l THEN l ELSE TLCGet(tid))
ASSUME \A t \in 1..Len(Batch) : TLCSet(t, 0)
Post == \A t \in 1..Len(Batch) :
          IF TLCGet(t) = Len(Events(t)) + 1 THEN PrintT(<<"ACCEPT", Batch[t].tid>>)
          ELSE PrintT(<<"REJECT", Batch[t].tid, "at", TLCGet(t)>>)
\* when the recorded execution is over, the digest has been fed the whole file
EndsWhole == (l = Len(Events(tid)) + 1) => Sum(fed) = L
=============================================================================
