-------------------------------- MODULE Checksums --------------------------------
(* C16 (b) Checksums.add path normalisation, (c) the [checksums] section reader, (d) Image.add_checksum.
   Paths are sequences of components over {"x", "y", ".", "..", ""} ("" = a doubled slash).     *)
EXTENDS Naturals, Sequences, SequencesExt, FiniteSets, TLC, Json
CONSTANTS Mode, D
Comp == {"x", "y", "n", ".", "..", ""}          \* "n": a directory that does not exist
RECURSIVE NormStep(_, _)
NormStep(stack, rest) ==
  IF rest = <<>> THEN stack
  ELSE LET c == Head(rest) IN
       IF c = "." \/ c = "" THEN NormStep(stack, Tail(rest))
       ELSE IF c = ".." /\ stack # <<>> /\ Last(stack) # ".." THEN NormStep(Front(stack), Tail(rest))
       ELSE NormStep(Append(stack, c), Tail(rest))
Norm(p) == LET s == NormStep(<<>>, p) IN IF s = <<>> THEN <<".">> ELSE s
PathsUpTo(n) == UNION {[1..k -> Comp] : k \in 1..n}
NormIdempotent == \A p \in PathsUpTo(4) : Norm(Norm(p)) = Norm(p)
NormClean == \A p \in PathsUpTo(4) : \A i \in 1..Len(Norm(p)) : Norm(p)[i] \notin {""} /\ (Norm(p)[i] = "." => Len(Norm(p)) = 1)
ASSUME NormIdempotent
ASSUME NormClean

\* ---- (c) [checksums] entries in sorted option order; kinds
Kinds == {"typed_sha256", "typed_md5", "bare32", "bare40", "bare64", "bare48", "bare0", "multicolon", "bare31", "bare33", "bare41", "bare65"}
Own(k) == CASE k = "typed_sha256" -> "sha256" [] k = "typed_md5" -> "md5" [] k = "bare32" -> "md5" [] k = "bare40" -> "sha1"
            [] k = "bare64" -> "sha256" [] OTHER -> "reject"
Sections == UNION {[1..n -> Kinds] : n \in 1..3}
Rejected(sec) == \E i \in 1..Len(sec) : Own(sec[i]) = "reject"
\* each path maps to the type of ITS OWN entry - never to a neighbour's
DeserType(sec, i) == Own(sec[i])

\* ---- (d) Image.add_checksum
VARIABLES cs, out, hist, pick
vars == <<cs, out, hist, pick>>
Types == {"md5", "sha256"}
Vals == {"v1", "v2", ""}
AddChecksum(t, v) ==
  IF t \in DOMAIN cs
  THEN IF v # "" /\ v # cs[t] THEN out' = "ValueError" /\ UNCHANGED cs
       ELSE out' = cs[t] /\ UNCHANGED cs
  ELSE cs' = [x \in DOMAIN cs \cup {t} |-> IF x = t THEN v ELSE cs[x]] /\ out' = v
Init == /\ cs = [x \in {} |-> ""] /\ out = "new" /\ hist = <<>>
        /\ pick \in (CASE Mode = "paths" -> [p : PathsUpTo(4), abs : BOOLEAN]
                       [] Mode = "sections" -> [sec : Sections]
                       [] OTHER -> {[none |-> TRUE]})
Next == /\ Mode = "addchecksum" /\ Len(hist) < D
        /\ \E t \in Types, v \in Vals : AddChecksum(t, v) /\ hist' = Append(hist, [t |-> t, v |-> v, out |-> out'])
        /\ UNCHANGED pick
NeverReplaced == [][\A t \in DOMAIN cs : t \in DOMAIN cs' /\ cs'[t] = cs[t]]_vars
Emit == CASE Mode = "paths" -> PrintT("@@" \o ToJson([p |-> pick.p, abs |-> pick.abs, norm |-> Norm(pick.p)]))
          [] Mode = "sections" -> PrintT("@@" \o ToJson([sec |-> pick.sec, rejected |-> Rejected(pick.sec),
                                                          types |-> [i \in 1..Len(pick.sec) |-> DeserType(pick.sec, i)]]))
          [] OTHER -> PrintT("@@" \o ToJson([hist |-> hist, cs |-> cs]))
=============================================================================
