INIT Init
NEXT Next
VIEW View
INVARIANT NoEDA
CHECK_DEADLOCK FALSE
CONSTANTS
