INIT Init
NEXT Next
CONSTRAINT Emit
INVARIANT TopDetect
INVARIANT UidOnce
INVARIANT ChildArch
INVARIANT FinalOnlyWithLabel
INVARIANT StoredInArches
CHECK_DEADLOCK FALSE
CONSTANTS
