------------------------------- MODULE ApaDev_Dump -------------------------------
(* Apalache wrapper for DumpProtocol (C18): an INDUCTIVE invariant for the reference order, for ANY number of
   validation points (top, nested unbounded naturals) - TLC's MC_Dump decides the same facts up to MaxTop/MaxNested.
     apalache-mc check --init=IndInit --inv=IndInv  --length=1 Apa_Dump.tla      inductive step
     apalache-mc check --init=Init0   --inv=IndInv  --length=0 Apa_Dump.tla      base case
     apalache-mc check --init=IndInit --inv=Safety  --length=0 Apa_Dump.tla      IndInv => C18
   With Dev_OpenBeforeSerialize = TRUE (ApaDev_Dump.tla) the inductive step must FAIL (order as shipped at the pinned commit). *)
EXTENDS Naturals, Sequences, TLC
Dev_OpenBeforeSerialize == TRUE
VARIABLES
  \* @type: Int;
  top,
  \* @type: Int;
  nested,
  \* @type: Str;
  disk0,
  \* @type: Str;
  disk,
  \* @type: Str;
  pc,
  \* @type: Int;
  next,
  \* @type: Int;
  failAt,
  \* @type: Bool;
  opened
D == INSTANCE DumpProtocol
TypeOK == /\ top \in Nat /\ nested \in Nat /\ next \in Nat /\ failAt \in Nat
          /\ disk0 \in {"Absent", "Old"} /\ disk \in {"Absent", "Old", "Empty", "New"}
          /\ pc \in {"run", "raised", "done"} /\ opened \in BOOLEAN
IndInv == /\ TypeOK
          /\ next >= 1 /\ next <= top + nested + 1 /\ failAt <= top + nested
          /\ (~opened => disk = disk0)                       \* nothing touches the destination before Open
          /\ (opened => next > top + nested)                 \* reference order: Open only after every validation point
          /\ (pc = "raised" => failAt = next /\ next <= top + nested)
          /\ (pc = "done" => disk = "New" /\ opened)
          /\ (failAt # 0 /\ failAt < next => pc = "raised")  \* a failing point is never passed
          /\ (opened /\ pc = "run" => disk = "Empty")
Init0 == \E t \in Nat, n \in Nat, f \in Nat : \E d \in {"Absent", "Old"} : f <= t + n /\ D!Start(t, n, d, f)
IndInit == /\ top \in Nat /\ nested \in Nat /\ next \in Nat /\ failAt \in Nat
           /\ disk0 \in {"Absent", "Old"} /\ disk \in {"Absent", "Old", "Empty", "New"}
           /\ pc \in {"run", "raised", "done"} /\ opened \in BOOLEAN
           /\ IndInv
Next == D!Next
Safety == D!FailedDumpLeavesDisk /\ D!SuccessWrites
=============================================================================
