INIT TraceInit
NEXT TraceNext
CONSTRAINT Reached
POSTCONDITION Post
INVARIANT UniqueIdent
INVARIANT NoSourceArch
CHECK_DEADLOCK FALSE
CONSTANTS
 KnownArch <- TraceKnown
 SrcArch = {"src", "nosrc"}
 Current = 102
 Dev_FreshVersionZero = FALSE
