-------------------------------- MODULE ImagesDoc --------------------------------
(* The images manifest document (C02; supplies manifests to C05/C08).  A manifest files images of a
   six-image pool (field classes below; identity-compatible, collisions belong to C09) in up to
   MaxCells (variant, arch) cells, the same image possibly in several cells.  Ser is the documented
   layout (doc/images-1.1.rst): per cell a list sorted by path; unified / additional_variants
   written only for unified images.                                                           *)
EXTENDS Naturals, Sequences, FiniteSets, FiniteSetsExt, TLC, Json
CONSTANTS MaxCells, MaxPerCell,
          WithTwin        \* include the twin image p9 (switched off for the widest enumeration, which would not fit in memory)
I(n, vol, imp, sums, size, uni, av, boot, disc) ==
  [n |-> n, pathof |-> n, twinof |-> n, sumsof |-> n, identof |-> n, volume_id |-> vol, implant_md5 |-> imp, checksums |-> sums, size |-> size, unified |-> uni,
   additional_variants |-> av, bootable |-> boot, disc_number |-> disc, disc_count |-> IF disc = 0 THEN 0 ELSE 3]
Pool0 == { I("p1", "set", "hex", "one", "small", FALSE, "none", TRUE, 1),
          I("p2", "null", "null", "two", "big", FALSE, "none", FALSE, 1),
          I("p3", "set", "null", "one", "big", TRUE, "two", TRUE, 1),
          I("p4", "null", "hex", "two", "small", TRUE, "one", FALSE, 1),
          I("p5", "set", "hex", "one", "small", FALSE, "none", TRUE, 2),
          I("p6", "null", "null", "one", "small", TRUE, "none", FALSE, 0),          \* disc 0 of 0 is a legal value
          \* a DIFFERENT image that has the same path as p1 (legal in another cell)
          [I("p7", "null", "null", "one", "big", FALSE, "none", FALSE, 1) EXCEPT !.pathof = "p1"],
          \* additional variants on a non-unified image: the library must refuse to write it (if it agrees, C02 applies)
          I("p8", "set", "null", "one", "small", FALSE, "one", TRUE, 1),
          \* a different file (own path, own checksum) with the identity of p1: a manifest holding both anywhere is one the
          \* library must refuse to build (C09); if it agrees to write it, C02 applies and the file must read back
          [I("p9", "set", "hex", "one", "small", FALSE, "none", TRUE, 1) EXCEPT !.twinof = "p1", !.identof = "p1"],
          \* the same file published under a second path: identity AND checksums of p1 - legal, and both records are kept
          [I("p10", "set", "hex", "one", "small", FALSE, "none", TRUE, 1) EXCEPT !.twinof = "p1", !.identof = "p1", !.sumsof = "p1"],
          \* a unified image that differs from p3 ONLY in its additional variants (and path, checksums): another identity, legal next to p3
          [I("p11", "set", "null", "one", "big", TRUE, "one", TRUE, 1) EXCEPT !.twinof = "p3"] }
Pool == IF WithTwin THEN Pool0 ELSE {i \in Pool0 : i.n \notin {"p9", "p10", "p11"}}
ValidImg(i) == i.unified \/ i.additional_variants = "none"
Cells == {"V1", "V2", "V-3"} \X {"a1", "a2"}
VARIABLE m           \* manifest: chosen cells -> non-empty set of pool images
DistinctPaths(S) == \A i, j \in S : i.pathof = j.pathof => i = j
Init == \E cs \in UNION {kSubset(k, Cells) : k \in 1..MaxCells} :
          /\ m \in [cs -> {S \in UNION {kSubset(k, Pool) : k \in 1..MaxPerCell} : DistinctPaths(S)}]
          /\ Cardinality({c \in cs : \E i \in m[c] : i.n \in {"p7", "p8", "p9", "p10", "p11"}}) <= 1
Next == FALSE /\ UNCHANGED m
Empty == [k \in {} |-> 0]
ImgDoc(i) == ("path" :> "$path:" \o i.pathof) @@ ("mtime" :> "$mtime:" \o i.n) @@ ("size" :> "$size:" \o i.size)
             @@ ("volume_id" :> "$vol:" \o i.volume_id \o ":" \o i.n) @@ ("type" :> "$type:" \o i.n) @@ ("format" :> "$format:" \o i.n)
             @@ ("arch" :> "$arch:" \o i.n) @@ ("disc_number" :> i.disc_number) @@ ("disc_count" :> i.disc_count) @@ ("n" :> i.n)
             @@ ("checksums" :> "$sums:" \o i.checksums \o ":" \o i.n) @@ ("implant_md5" :> "$implant:" \o i.implant_md5 \o ":" \o i.n)
             @@ ("bootable" :> i.bootable) @@ ("subvariant" :> "$subvariant:" \o i.n)
             @@ (IF i.unified THEN ("unified" :> TRUE) @@ ("additional_variants" :> "$av:" \o i.additional_variants) ELSE Empty)
Variants == {c[1] : c \in DOMAIN m}
ArchesOf(v) == {c[2] : c \in {d \in DOMAIN m : d[1] = v}}
ImagesDoc == [v \in Variants |-> [a \in ArchesOf(v) |-> [bypath |-> {ImgDoc(i) : i \in m[<<v, a>>]}]]]
Obj == {[v |-> c[1], a |-> c[2], imgs |-> {i.n : i \in m[c]}] : c \in DOMAIN m}
PoolJson == [n \in {i.n : i \in Pool} |-> CHOOSE i \in Pool : i.n = n]
Valid == /\ \A c \in DOMAIN m : \A i \in m[c] : ValidImg(i)
         /\ \A c, d \in DOMAIN m : \A i \in m[c], j \in m[d] : (i.identof = j.identof /\ i.sumsof # j.sumsof) => i = j
Emit == PrintT("@@" \o ToJson([obj |-> Obj, images |-> ImagesDoc, pool |-> PoolJson, valid |-> Valid]))
\* ---- model-level checks
NothingLost == \A c \in DOMAIN m : Cardinality(ImagesDoc[c[1]][c[2]].bypath) = Cardinality(m[c])   \* distinct paths: one record per image
UnifiedOnlyWhenTrue == \A c \in DOMAIN m : \A d \in ImagesDoc[c[1]][c[2]].bypath :
                          ("unified" \in DOMAIN d) <=> ("additional_variants" \in DOMAIN d)
NoEmptyCell == \A v \in DOMAIN ImagesDoc : \A a \in DOMAIN ImagesDoc[v] : ImagesDoc[v][a].bypath # {}
=============================================================================
