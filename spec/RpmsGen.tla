------------------------------- MODULE RpmsGen -------------------------------
(* Generator for RpmsManifest.  Mode "matrix": from each base state, every combination of
   argument classes in one Add (the refusal matrix).  Mode "hist": all histories of valid
   and near-valid adds up to depth D.  Mode "load03": every small 0.3 document.           *)
EXTENDS RpmsManifest, Json, FiniteSetsExt
CONSTANTS Mode, D, Wide
VARIABLE hist
MCRpm == [ b1 |-> [src |-> FALSE, of |-> "s1"], d1 |-> [src |-> FALSE, of |-> "s1"], b2 |-> [src |-> FALSE, of |-> "s2"],
           s1 |-> [src |-> TRUE, of |-> "s1"],  s2 |-> [src |-> TRUE, of |-> "s2"], n1 |-> [src |-> TRUE, of |-> "n1"] ]
MCBin == {"bin1", "bin2"}
MCCats == {"binary", "debug", "source"}
MCOkForms == {"canon", "rpm", "dir", "dirrpm"}
MCOkPaths == {"rel1", "rel2"}
MCLower(sig) == IF sig = "mixed" THEN "mixedlower" ELSE sig
Vs     == {"V1", "V2"}
As     == MCBin \cup {"src", "nosrc", "unknown"}
\* "dircolon" / "relcolon": no epoch, but a ':' in the directory prefix / in the release
Forms  == (IF Wide THEN MCOkForms \cup {"noepoch", "unparsable", "colonjunk"} ELSE {"canon", "dirrpm", "noepoch", "unparsable"}) \cup {"dircolon", "relcolon"}
Paths  == (IF Wide THEN MCOkPaths \cup {"abs", "empty"} ELSE {"rel1", "abs", "empty"}) \cup {"int"}
Sigs   == (IF Wide THEN {"null", "lower", "mixed"} ELSE {"null", "mixed"}) \cup {"int"}
CatsA  == MCCats \cup {"invalid"}
Srpms  == {"none", "s1", "s2", "empty"}         \* "empty": the empty string (rendered so whatever the form; carried with form "noepoch", which is refused)
SForms == IF Wide THEN {"canon", "rpm", "noepoch", "unparsable"} ELSE {"canon", "noepoch"}
Rec(v, a, r, f, p, s, c, sr, sf) == [op |-> "add", v |-> v, a |-> a, r |-> r, form |-> f, path |-> p, sig |-> s,
                                     cat |-> c, srpm |-> sr, sform |-> sf, out |-> out']
Matrix == \E v \in {"V1"}, a \in As, r \in DOMAIN MCRpm, f \in Forms, p \in Paths, s \in Sigs, c \in CatsA, sr \in Srpms, sf \in SForms :
             /\ (sr = "none" => sf = "canon") /\ (sr = "empty" => sf = "noepoch")
             /\ Add(v, a, r, f, p, s, c, sr, sf)
             /\ hist' = Append(hist, Rec(v, a, r, f, p, s, c, sr, sf))
\* history alphabet: valid adds (two variants, two arches, all rpms, two paths, two sigkeys) + a few refusals
Valid(r) == IF MCRpm[r].src THEN <<"source", "none">> ELSE <<IF r = "d1" THEN "debug" ELSE "binary", MCRpm[r].of>>
HistStep == \/ \E v \in Vs, a \in MCBin, r \in DOMAIN MCRpm, p \in MCOkPaths,
                  s \in (IF D >= 3 THEN {"mixed"} ELSE {"null", "mixed"}), f \in (IF D >= 3 THEN {"canon"} ELSE {"canon", "dirrpm"}) :
                 /\ Add(v, a, r, f, p, s, Valid(r)[1], Valid(r)[2], "canon")
                 /\ hist' = Append(hist, Rec(v, a, r, f, p, s, Valid(r)[1], Valid(r)[2], "canon"))
            \/ \E r \in {"b1", "s1"}, bad \in {"arch", "path", "cat", "form", "srpm"} :
                 LET a  == IF bad = "arch" THEN "src" ELSE "bin1"
                     p  == IF bad = "path" THEN "abs" ELSE "rel1"
                     c  == IF bad = "cat" THEN (IF MCRpm[r].src THEN "binary" ELSE "source") ELSE Valid(r)[1]
                     f  == IF bad = "form" THEN "noepoch" ELSE "canon"
                     sr == IF bad = "srpm" THEN (IF MCRpm[r].src THEN "s1" ELSE "none") ELSE Valid(r)[2]
                 IN /\ Add("V1", a, r, f, p, "lower", c, sr, "canon")
                    /\ hist' = Append(hist, Rec("V1", a, r, f, p, "lower", c, sr, "canon"))
\* editing histories: a narrow alphabet of valid adds interleaved with deleting a variant and with writing the manifest and
\* reading it back into the same object
EditStep == \/ \E v \in Vs, r \in {"b1", "s1", "b2"} :
                 /\ Add(v, "bin1", r, "canon", "rel1", "mixed", Valid(r)[1], Valid(r)[2], "canon")
                 /\ hist' = Append(hist, Rec(v, "bin1", r, "canon", "rel1", "mixed", Valid(r)[1], Valid(r)[2], "canon"))
            \/ \E v \in Vs : Del(v) /\ hist' = Append(hist, [op |-> "del", v |-> v, out |-> out'])
            \/ Reload /\ hist' = Append(hist, [op |-> "reload", out |-> out'])
\* 0.3 documents: subsets of candidate entries
Ent(v, a, s, r, t) == <<v, a, s, r, t>>
Cand == {Ent("V1", "bin1", "s1", "b1", "package"), Ent("V1", "bin1", "s1", "d1", "debug"), Ent("V1", "bin2", "s1", "b1", "package"),
         Ent("V1", "bin1", "s2", "b2", "package"), Ent("V2", "bin1", "s1", "b1", "package"),
         Ent("V1", "src", "s1", "s1", "source"), Ent("V1", "src", "s2", "s2", "source"), Ent("V2", "src", "s2", "s2", "source"),
         Ent("V2", "src", "s1", "s1", "source"),       \* the same source package in the src tables of two variants
         Ent("V2", "src", "n1", "n1", "source")}
DocOf(S) == [k \in {<<e[1], e[2], e[3], e[4]>> : e \in S} |->
               LET e == CHOOSE x \in S : <<x[1], x[2], x[3], x[4]>> = k
               IN [path |-> "rel1", sigkey |-> IF e[4] = "b1" THEN "mixed" ELSE "null", type |-> e[5]]]
DocJson(S) == {[v |-> e[1], a |-> e[2], srpm |-> e[3], rpm |-> e[4], type |-> e[5],
                sigkey |-> IF e[4] = "b1" THEN "mixed" ELSE "null", path |-> "rel1"] : e \in S}
LoadStep == \E S \in SUBSET Cand :
               /\ Load03(DocOf(S))
               /\ hist' = Append(hist, [op |-> "load03", doc |-> DocJson(S), out |-> out'])
GInit == Init /\ hist = <<>>
GNext == /\ Len(hist) < D
         /\ CASE Mode = "matrix" -> Matrix
              [] Mode = "hist"   -> HistStep
              [] Mode = "edit"   -> EditStep
              [] Mode = "load03" -> (IF hist = <<>> THEN LoadStep ELSE EditStep)
Flat == {[v |-> k[1], a |-> k[2], srpm |-> k[3], rpm |-> k[4], path |-> rpms[k].path, sigkey |-> rpms[k].sigkey,
          category |-> rpms[k].category] : k \in DOMAIN rpms}
Emit == PrintT("@@" \o ToJson([hist |-> hist, rpms |-> Flat]))
EmitLast == Len(hist) < D \/ Emit
=============================================================================
