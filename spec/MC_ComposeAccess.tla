--------------------------- MODULE MC_ComposeAccess ---------------------------
(* Exhaustive model check of ComposeAccess: every reachable state from every starting directory over contents
   {none, undecodable, valid} per file, up to MaxFresh replaced files / edits.                                  *)
EXTENDS ComposeAccess
CONSTANTS MaxFresh
MCInit == \E n \in {0, 1, 2}, m \in {0, 1, 2}, i \in {0, 2} :
            Start([f \in Files |-> IF f[2] = "leg" THEN m ELSE IF HasLeg(f[1]) THEN n ELSE i])
MCSpec == MCInit /\ [][Next]_vars
MCView == <<disk, cache, failed, edit, fresh, decoy>>      \* `last` is an observation: hidden from the fingerprint
Bound == fresh <= 10 + MaxFresh
=============================================================================
