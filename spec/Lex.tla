---------------------------------- MODULE Lex ----------------------------------
(* Strings as sequences of one-character strings; helpers shared by the lexical specs. *)
EXTENDS Naturals, Sequences, FiniteSets
RECURSIVE JoinSeq(_, _)
JoinSeq(ss, sep) == IF ss = <<>> THEN <<>> ELSE IF Len(ss) = 1 THEN ss[1] ELSE ss[1] \o sep \o JoinSeq(Tail(ss), sep)
Positions(s, ch) == {i \in 1..Len(s) : s[i] = ch}
MaxOf(S) == CHOOSE x \in S : \A y \in S : y <= x
MinOf(S) == CHOOSE x \in S : \A y \in S : x <= y
LastPos(s, ch) == IF Positions(s, ch) = {} THEN 0 ELSE MaxOf(Positions(s, ch))
FirstPos(s, ch) == IF Positions(s, ch) = {} THEN 0 ELSE MinOf(Positions(s, ch))
Before(s, i) == SubSeq(s, 1, i - 1)
After(s, i) == SubSeq(s, i + 1, Len(s))
EndsWith(s, t) == Len(s) >= Len(t) /\ SubSeq(s, Len(s) - Len(t) + 1, Len(s)) = t
StartsWith(s, t) == Len(s) >= Len(t) /\ SubSeq(s, 1, Len(t)) = t
AllIn(s, C) == \A i \in 1..Len(s) : s[i] \in C
SeqsOver(C, lo, hi) == UNION {[1..k -> C] : k \in lo..hi}
RECURSIVE Str(_)
Str(s) == IF s = <<>> THEN "" ELSE s[1] \o Str(Tail(s))
=============================================================================
