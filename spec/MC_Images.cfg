INIT Init
NEXT MCNext
INVARIANT UniqueIdent
INVARIANT NoSourceArch
INVARIANT VersionKnown
PROPERTY RefusedIsNoop
CHECK_DEADLOCK FALSE
CONSTANTS
 KnownArch <- MCKnown
 SrcArch <- MCSrc
 Current = 102
 Dev_FreshVersionZero = FALSE
 MaxDocImages = 2
