-------------------------------- MODULE Forest --------------------------------
(* The composeinfo variant forest (productmd.composeinfo VariantBase / Variants / Variant)
   as a state machine.  Objects are drawn from a constant pool; a container is ROOT (the
   ComposeInfo.variants table) or an object.  One action: Add(c, o), with its refusals.
   Serves C11 (and supplies forests to C01).

   Two layers.  Requirement layer: the invariants and RefusedNoop below.  Implementation
   layer: LookupImpl / GetVImpl transcribe the library's algorithms so that TLC can decide
   Findable / GetVSound on the *design*; Dev_* constants switch on the algorithms as they
   shipped at the pinned commit (each must yield a counterexample - see *_asshipped cfgs). *)
EXTENDS Naturals, Sequences, FiniteSets, TLC
CONSTANTS Obj,            \* object -> [id, uid, flat (uid without dashes), arches, type]
          ChildUid(_, _),  \* the UID a child with a given id must have under a parent UID
                           \* (generation: UIDs are token sequences, Append; recorded traces: strings, p-i)
          ROOT, None,
          Dev_FalsyParent,      \* F-11a  parent-arch check skipped while the parent has no children
          Dev_ParentSetFirst,   \* F-11c  a refused add has already overwritten variant.parent
          Dev_RecurseDropsArch, \* F-11b  get_variants(recursive) forgets the arch filter
          Dev_LookupUidFirst,   \* F-11d  __getitem__ scans (absolute) UIDs before walking the path
          Dev_UidCollision,     \* F-11e  a variant whose UID is already used elsewhere in the forest is accepted
          BottomUp,             \* scope switch: children may be added to a variant that is not (yet) in the forest,
                                \*   and the finished sub-tree attached afterwards
          Dev_UidSubtreeUnchecked, \* F-11f  only the UID of the added variant is compared, not those of the sub-tree it brings
          Dev_TopKeepsParent,      \* F-11g  a top-level add leaves (and validates against) the variant's old parent link
          UidKey(_),               \* the table key a UID makes (generation: tokens joined by dashes; recorded traces: the string)
          KeyForms,                \* which spellings of add()'s optional variant_id are explored: "id" (the default), "uid", "other"
          Dev_IdUnchecked,         \* F-11i  two variants of one container may share an ID when one of them is filed under its dashed UID
          Dev_KeyUnchecked         \* F-11h  any variant_id is taken as the table key, the same variant may be filed under two keys
VARIABLES kids,           \* [container -> [key -> object]]  children dictionaries (key = id; at the top level possibly the UID)
          par,            \* [object -> container or None]   parent back-pointers
          out
Objs == DOMAIN Obj
Cont == Objs \cup {ROOT}
vars == <<kids, par, out>>
Empty == [k \in {} |-> None]
Init == kids = [c \in Cont |-> Empty] /\ par = [o \in Objs |-> None] /\ out = "new"

Range(f) == {f[k] : k \in DOMAIN f}
RECURSIVE Flat(_)
Flat(s) == IF s = <<>> THEN "" ELSE Head(s) \o Flat(Tail(s))
N == Cardinality(Objs) + 1
\* ancestor chain of a container (bounded: parent pointers may be corrupted into a cycle)
RECURSIVE Anc(_, _, _)
Anc(c, p, n) == IF c = ROOT \/ c = None \/ n = 0 THEN {} ELSE {c} \cup Anc(p[c], p, n - 1)

\* ---- validation of object o under parent pointers p (composeinfo.py Variant._validate_*)
UidOk(o, p) == IF p[o] = None
               THEN Obj[o].flat = Obj[o].id                \* top level: UID minus dashes = id
               ELSE Obj[o].uid = ChildUid(Obj[p[o]].uid, Obj[o].id)
ArchChecked(o, p, k) == p[o] # None /\ (~Dev_FalsyParent \/ DOMAIN k[p[o]] # {})
ArchOk(o, p, k) == ArchChecked(o, p, k) => Obj[o].arches \subseteq Obj[p[o]].arches
ValidObj(o, p, k) == Obj[o].arches # {} /\ UidOk(o, p) /\ ArchOk(o, p, k)

IsFiled(q) == \E d \in Cont : q \in Range(kids[d])
\* the forest as reachable from the top, and the sub-tree an object brings along (bounded recursion; defined here for the guard)
RECURSIVE DescOf(_, _)
DescOf(c, n) == IF n = 0 THEN {} ELSE Range(kids[c]) \cup UNION {DescOf(d, n - 1) : d \in Range(kids[c])}
Sub(o) == IF Dev_UidSubtreeUnchecked THEN {o} ELSE {o} \cup DescOf(o, 4)
\* no UID of the incoming sub-tree is used by a variant of the forest outside that sub-tree.  Top-down construction
\* (BottomUp = FALSE): every filed variant is in the forest and the incoming variant is childless - the cheap form.
UidFree(o) == IF BottomUp
              THEN LET forest == DescOf(ROOT, 4) \ ({o} \cup DescOf(o, 4))
                   IN  \A r \in Sub(o) : \A q \in forest : Obj[q].uid # Obj[r].uid
              ELSE \A q \in Objs : (Obj[q].uid = Obj[o].uid /\ q # o) => ~IsFiled(q)
\* the parent link the add creates (top level: none)
NewPar(c, o) == IF Dev_TopKeepsParent /\ c = ROOT THEN par ELSE [par EXCEPT ![o] = IF c = ROOT THEN None ELSE c]
\* add(variant, variant_id=None): the key the variant is filed under.  Only its id - or, at the top level, its UID (how the
\* loaders file 'Server-optional') - keeps it findable; and one variant has one key per container (get_variants: at most once)
KeyOf(o, kf) == IF kf = "id" THEN Obj[o].id ELSE IF kf = "uid" THEN UidKey(Obj[o].uid) ELSE "no-such-name"
KeyAllowed(c, o, kf) == KeyOf(o, kf) = Obj[o].id \/ (kf = "uid" /\ c = ROOT)
NotTwice(c, o, key) == \A k \in DOMAIN kids[c] : kids[c][k] = o => k = key
\* the variants of one container have IDs of their own, whatever the keys they are filed under (a document lists a top-level
\* variant once per ID: two top-level variants "AT" and "A-T" - both of ID AT - are written but cannot be read back)
IdFree(c, o) == \A k \in DOMAIN kids[c] : kids[c][k] # o => Obj[kids[c][k]].id # Obj[o].id
AddOkK(c, o, kf) ==
  LET p1  == NewPar(c, o)
      key == KeyOf(o, kf)
  IN  /\ ValidObj(o, p1, kids)
      /\ (Dev_UidCollision \/ UidFree(o))                         \* UIDs stay unique in the forest
      /\ (c # ROOT => o \notin Anc(c, p1, N))                     \* not its own ancestor
      /\ (key \in DOMAIN kids[c] => kids[c][key] = o)             \* key not taken by another variant
      /\ (Dev_KeyUnchecked \/ (KeyAllowed(c, o, kf) /\ NotTwice(c, o, key)))
      /\ (Dev_IdUnchecked \/ IdFree(c, o))
AddK(c, o, kf) ==
  LET p1  == NewPar(c, o)
      key == KeyOf(o, kf)
  IN IF AddOkK(c, o, kf)
     THEN /\ kids' = [kids EXCEPT ![c] = [k \in DOMAIN kids[c] \cup {key} |-> IF k = key THEN o ELSE kids[c][k]]]
          /\ par' = p1 /\ out' = "ok"
     ELSE /\ kids' = kids /\ out' = "ValueError"
          /\ par' = IF Dev_ParentSetFirst THEN p1 ELSE par
AddOk(c, o) == AddOkK(c, o, "id")
Add(c, o) == AddK(c, o, "id")
\* scope of the property: a variant object that is already filed is re-added to the same container (duplicate), below
\* itself (ancestor attempt) or at the top level (a child offered as a top-level variant: misaligned there, refused)
Filed(o) == \E c \in Cont : o \in Range(kids[c])
InScope(c, o) == Filed(o) => (o \in Range(kids[c]) \/ (c # ROOT /\ o \in Anc(c, par, N)) \/ c = ROOT)
\* dashed top-level UIDs only on childless variants; no container that is not itself filed
Attachable(c) == c = ROOT \/ (c # ROOT /\ (BottomUp \/ Filed(c)) /\ (par[c] = None => Len(Obj[c].uid) = 1))
\* only the top-level table's add() takes a variant_id (Variant.add(variant) has no such parameter)
KeyFormsAt(c) == IF c = ROOT THEN KeyForms ELSE {"id"}
Next == \E c \in Cont, o \in Objs : \E kf \in KeyFormsAt(c) : InScope(c, o) /\ Attachable(c) /\ AddK(c, o, kf)

\* ---- growth beyond C11: VariantBase.__delitem__ (by id from the container; a dashed name walks the path).
\* The entry disappears from the container's table; nothing else changes (the removed object keeps its parent link).
RECURSIVE DelTarget(_, _)
DelTarget(c, name) == IF Len(name) = 1 THEN <<c, name[1]>>
                      ELSE IF name[1] \in DOMAIN kids[c] THEN DelTarget(kids[c][name[1]], Tail(name)) ELSE <<c, "?">>
DelOk(c, name) == LET t == DelTarget(c, name) IN t[2] \in DOMAIN kids[t[1]]
Del(c, name) ==
  IF DelOk(c, name)
  THEN LET t == DelTarget(c, name)
       IN /\ kids' = [kids EXCEPT ![t[1]] = [k \in DOMAIN kids[t[1]] \ {t[2]} |-> kids[t[1]][k]]]
          /\ out' = "ok" /\ UNCHANGED par
  ELSE out' = "KeyError" /\ UNCHANGED <<kids, par>>

\* ---- reachable forest
RECURSIVE Desc(_, _)
Desc(c, n) == IF n = 0 THEN {} ELSE Range(kids[c]) \cup UNION {Desc(d, n - 1) : d \in Range(kids[c])}
InForest == Desc(ROOT, 4)

\* ---- implementation layer: VariantBase.__getitem__ ; name = Seq of id tokens ("A-B" = <<A,B>>)
RECURSIVE LookupImpl(_, _)
LookupImpl(c, name) ==
  IF Len(name) = 1 THEN (IF name[1] \in DOMAIN kids[c] THEN kids[c][name[1]] ELSE None)
  ELSE LET hit  == {d \in Range(kids[c]) : Obj[d].uid = name}
           byUid == IF hit # {} THEN CHOOSE d \in hit : TRUE ELSE None
           byPath == IF name[1] \in DOMAIN kids[c] THEN LookupImpl(kids[c][name[1]], Tail(name)) ELSE None
       IN IF Dev_LookupUidFirst
          THEN (IF byUid # None THEN byUid ELSE byPath)
          ELSE (IF byPath # None THEN byPath ELSE byUid)
\* a dashed top-level UID is looked up by its full string: modelled as a one-token name equal to the id
\* or the token sequence; both resolve through the UID scan at ROOT
LookupTop(o) == IF par[o] = None /\ Len(Obj[o].uid) > 1
                THEN (LET hit == {d \in Range(kids[ROOT]) : Obj[d].uid = Obj[o].uid}
                          byPath == LookupImpl(ROOT, Obj[o].uid)
                      IN IF ~Dev_LookupUidFirst /\ byPath # None THEN byPath
                         ELSE IF hit # {} THEN CHOOSE d \in hit : TRUE ELSE None)
                ELSE LookupImpl(ROOT, Obj[o].uid)

\* ---- implementation layer: get_variants, as a set (ordering/duplicates are checked on the code)
RECURSIVE GetVImpl(_, _, _, _, _)
GetVImpl(c, arch, types, rec, n) ==
  IF n = 0 THEN {} ELSE
  UNION { IF (types # {} /\ Obj[d].type \notin types) \/ (arch # None /\ arch # "src" /\ arch \notin Obj[d].arches)
          THEN {}
          ELSE {d} \cup (IF rec THEN GetVImpl(d, IF Dev_RecurseDropsArch THEN None ELSE arch, types, TRUE, n - 1) ELSE {})
        : d \in Range(kids[c]) }

\* ---- properties (C11)
UidAligned   == \A o \in InForest : UidOk(o, par)
ArchSubset   == \A o \in InForest : par[o] # None => Obj[o].arches \subseteq Obj[par[o]].arches
UidUnique    == \A o, q \in InForest : Obj[o].uid = Obj[q].uid => o = q
ParentMirror == \A c \in Cont : \A o \in Range(kids[c]) : (c = ROOT /\ par[o] = None) \/ (c # ROOT /\ par[o] = c)
KeyIsId      == \A c \in Cont : \A k \in DOMAIN kids[c] : Obj[kids[c][k]].id = k \/ (c = ROOT /\ k = UidKey(Obj[kids[c][k]].uid))
SiblingIds   == \A c \in Cont : \A k1, k2 \in DOMAIN kids[c] : Obj[kids[c][k1]].id = Obj[kids[c][k2]].id => kids[c][k1] = kids[c][k2]
OnceEach     == \A c \in Cont : \A k1, k2 \in DOMAIN kids[c] : kids[c][k1] = kids[c][k2] => k1 = k2
Findable     == \A o \in InForest :
                   /\ LookupTop(o) = o
                   /\ (par[o] # None => LookupImpl(par[o], <<Obj[o].id>>) = o)
ArchesUsed   == UNION {Obj[o].arches : o \in Objs}
TypesUsed    == {Obj[o].type : o \in Objs}
TypeSets     == {{}, {"variant"}, {"addon", "optional"}, {"layered-product", "addon"}, TypesUsed}
GetVSound    == \A arch \in ArchesUsed \cup {None, "src"}, types \in TypeSets, rec \in BOOLEAN, c \in InForest \cup {ROOT} :
                  /\ \A d \in GetVImpl(c, arch, types, rec, 4) :
                        /\ (arch \in ArchesUsed => arch \in Obj[d].arches)
                        /\ (types # {} => Obj[d].type \in types)
                  /\ (arch = None /\ types = {}) =>
                        GetVImpl(c, arch, types, rec, 4) = IF rec THEN Desc(c, 4) ELSE Range(kids[c])
RefusedNoop  == [][out' = "ValueError" => UNCHANGED <<kids, par>>]_vars
=============================================================================
