--------------------------------- MODULE Labels ---------------------------------
(* Growth beyond the listed properties: milestone labels, versions and the derived compose
   attributes (composeinfo.Compose.is_ga / label_major_version / full_label, cmp_label,
   common.split_version / get_major_version / get_minor_version).
   A label is <name>-<major>.<minor>; labels are ordered by the position of the name in the
   milestone table, then by version compared NUMERICALLY (Beta-1.10 > Beta-1.9).
   A version is dot-separated numbers (compared numerically, part by part) or free-form text.    *)
EXTENDS Naturals, Sequences, FiniteSets, TLC, Json
CONSTANTS Names          \* LABEL_NAMES of the working tree, in table order
Nums == {0, 1, 2, 9, 10, 11}
Labels == [name : {Names[i] : i \in 1..Len(Names)}, major : Nums, minor : Nums]
Idx(n) == CHOOSE i \in 1..Len(Names) : Names[i] = n
\* -1 / 0 / 1 as "lt" / "eq" / "gt"
Cmp(a, b) == IF a < b THEN "lt" ELSE IF a > b THEN "gt" ELSE "eq"
CmpLabel(x, y) == IF Idx(x.name) # Idx(y.name) THEN Cmp(Idx(x.name), Idx(y.name))
                  ELSE IF x.major # y.major THEN Cmp(x.major, y.major) ELSE Cmp(x.minor, y.minor)
IsGa(l, final) == l.name = "RC" /\ final
\* the order is a total order on labels: antisymmetric and transitive (checked on a sample, exhaustively)
Flip(r) == CASE r = "lt" -> "gt" [] r = "gt" -> "lt" [] OTHER -> "eq"
Few == {l \in Labels : l.major \in {1, 10} /\ l.minor \in {2, 9, 10} /\ Idx(l.name) <= 3}
Antisym == \A x, y \in Few : CmpLabel(x, y) = Flip(CmpLabel(y, x))
Trans == \A x, y, z \in Few : (CmpLabel(x, y) \in {"lt", "eq"} /\ CmpLabel(y, z) \in {"lt", "eq"}) => CmpLabel(x, z) \in {"lt", "eq"}
ASSUME Antisym
ASSUME Trans
\* versions: sequences of numbers (dotted numeric) of length 1..3
Vers == UNION {[1..k -> Nums] : k \in 1..3}
VARIABLE c
Others == {l \in Labels : l.major \in {1, 9, 10} /\ l.minor \in {0, 9, 10}}
Pairs == {p \in Few \X Others : p[2].name \in {p[1].name, Names[Len(Names)], Names[1]}}
Init == c \in ({[kind |-> "pair", x |-> p[1], y |-> p[2]] : p \in Pairs}
               \cup {[kind |-> "label", x |-> x, final |-> f] : x \in {l \in Labels : l.major \in {0, 2, 10}}, f \in BOOLEAN}
               \cup {[kind |-> "version", v |-> v] : v \in Vers})
Next == FALSE /\ UNCHANGED c
Emit == CASE c.kind = "pair" -> PrintT("@@" \o ToJson([kind |-> "pair", x |-> c.x, y |-> c.y, cmp |-> CmpLabel(c.x, c.y)]))
          [] c.kind = "label" -> PrintT("@@" \o ToJson([kind |-> "label", x |-> c.x, final |-> c.final, is_ga |-> IsGa(c.x, c.final)]))
          [] OTHER -> PrintT("@@" \o ToJson([kind |-> "version", v |-> c.v, major |-> c.v[1],
                                             minor |-> IF Len(c.v) >= 2 THEN c.v[2] ELSE 99]))
=============================================================================
