SPECIFICATION MCSpec
CONSTRAINT Bound
INVARIANT TypeOK
PROPERTY ServesDocumentStep
VIEW MCView
PROPERTY LoadedOnce
PROPERTY OnlyAccessFills
PROPERTY FirstAccessIsDirectLoad
PROPERTY Frame
CHECK_DEADLOCK FALSE
CONSTANTS
 PrefCurrent = TRUE
 Dev_NoCache = FALSE
 Dev_CacheFailure = FALSE
 Dev_Fallback = FALSE
 MaxFresh = 2
