----------------------------- MODULE RpmsManifest -----------------------------
(* Reference model of productmd.rpms.Rpms as a builder: Add with its refusals, canonical
   keys, and the 0.3 manifest reader.  Arguments are class tokens; the harness renders them
   (name forms: canonical / '.rpm' suffix / directory prefix / missing epoch / unparsable).
   Serves C12 (add files exactly where the arguments say), C10 (no source arch keys),
   C03 (what is written is what the add history built).                                  *)
EXTENDS Naturals, FiniteSets, Sequences, TLC
CONSTANTS Rpm,        \* rpm token -> [src |-> is a source package (arch src/nosrc), of |-> its source package token]
          BinArch,    \* tree architectures accepted (known, not src/nosrc)
          Cats,       \* {"binary","debug","source"}
          OkForms,    \* name renderings that parse: {"canon","rpm","dir","dirrpm"}
          OkPaths,    \* relative non-empty path tokens
          BadSigs,    \* signing keys that are no text (and not null)
          Lower(_)    \* signing key as stored: lower-cased, null stays null (tokens in the generators, real strings in traces)
VARIABLES rpms, out
vars == <<rpms, out>>
NoRpms == [k \in {} |-> 0]
Init == rpms = NoRpms /\ out = "new"

\* srpm: "none" or a source rpm token; sform: its rendering
Refused(a, r, form, path, sig, cat, srpm, sform) ==
  \/ a \notin BinArch
  \/ cat \notin Cats
  \/ path \notin OkPaths
  \/ form \notin OkForms
  \/ (cat = "source" /\ srpm # "none")
  \/ (cat # "source" /\ srpm = "none")
  \/ ((cat = "source") # Rpm[r].src)
  \/ (srpm # "none" /\ sform \notin OkForms)
  \/ sig \in BadSigs
Add(v, a, r, form, path, sig, cat, srpm, sform) ==
  IF Refused(a, r, form, path, sig, cat, srpm, sform)
  THEN out' = "refused" /\ UNCHANGED rpms
  ELSE LET k == <<v, a, IF srpm = "none" THEN r ELSE srpm, r>>
       IN /\ rpms' = [x \in DOMAIN rpms \cup {k} |->
                        IF x = k THEN [path |-> path, sigkey |-> Lower(sig), category |-> cat] ELSE rpms[x]]
          /\ out' = "ok"

\* del manifest[v]: the whole variant goes; an unknown variant is a KeyError and changes nothing
Del(v) == IF \E k \in DOMAIN rpms : k[1] = v
          THEN rpms' = [k \in {x \in DOMAIN rpms : x[1] # v} |-> rpms[k]] /\ out' = "ok"
          ELSE out' = "KeyError" /\ UNCHANGED rpms
\* the manifest is written and the file read back into the SAME object: nothing changes, later adds build on it
Reload == out' = "ok" /\ UNCHANGED rpms

(* rpm-manifest 0.3: doc maps <<variant, arch, srpm, rpm>> to [path, sigkey, type]; source packages
   sit under arch "src" keyed <<v, "src", s, s>>.  Every binary entry is re-added (type "package"
   becomes "binary"); the source package is added next to it when the src table has it.      *)
Load03(doc) ==
  LET bin  == {k \in DOMAIN doc : k[2] # "src"}
      srcs == {<<k[1], k[2], k[3], k[3]>> : k \in {j \in bin : <<j[1], "src", j[3], j[3]>> \in DOMAIN doc}}
      ok   == \A k \in bin : k[2] \in BinArch
  IN IF ok
     THEN /\ rpms' = [k \in bin \cup srcs |->
                        IF k \in bin
                        THEN [path |-> doc[k].path, sigkey |-> Lower(doc[k].sigkey),
                              category |-> IF doc[k].type = "package" THEN "binary" ELSE doc[k].type]
                        ELSE LET s == doc[<<k[1], "src", k[3], k[3]>>]
                             IN [path |-> s.path, sigkey |-> Lower(s.sigkey), category |-> "source"]]
          /\ out' = "ok"
     ELSE out' = "refused" /\ UNCHANGED rpms

-----------------------------------------------------------------------------
NoSourceArch == \A k \in DOMAIN rpms : k[2] \in BinArch                                   \* C10
\* every entry sits under its own source package (a source rpm under itself)             \* C12
UnderSource == \A k \in DOMAIN rpms : IF Rpm[k[4]].src THEN k[3] = k[4] /\ rpms[k].category = "source"
                                      ELSE Rpm[k[3]].src /\ rpms[k].category # "source"
SigLower == \A k \in DOMAIN rpms : Lower(rpms[k].sigkey) = rpms[k].sigkey
RefusedIsNoop == [][out' \in {"refused", "KeyError"} => UNCHANGED rpms]_vars
\* a successful add touches exactly one entry
OnlyAddressed == [][out' = "ok" /\ rpms # rpms' /\ Cardinality(DOMAIN rpms') <= Cardinality(DOMAIN rpms) + 1 =>
                      Cardinality({k \in DOMAIN rpms \cap DOMAIN rpms' : rpms'[k] # rpms[k]}) <= 1]_vars
\* entries only disappear by deleting their variant, and then all entries of that variant and no other go
OnlyDelRemoves == [][DOMAIN rpms \subseteq DOMAIN rpms' \/
                      \E v \in {k[1] : k \in DOMAIN rpms} : /\ DOMAIN rpms' = {k \in DOMAIN rpms : k[1] # v}
                                                             /\ \A k \in DOMAIN rpms' : rpms'[k] = rpms[k]]_vars
=============================================================================
