INIT Init
NEXT Next
CONSTRAINT Emit
PROPERTY NeverReplaced
CHECK_DEADLOCK FALSE
CONSTANTS
