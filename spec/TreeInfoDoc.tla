------------------------------- MODULE TreeInfoDoc -------------------------------
(* The .treeinfo document (C04, C17; supplies trees to C05/C08) and the .discinfo file (C04).
   An abstract tree is chosen in Init (in slices); Doc is the documented INI layout
   (doc/treeinfo-1.1.rst) as section -> option -> token, including the [general] compatibility
   section exactly as the C17 statement defines it.                                           *)
EXTENDS Naturals, Sequences, FiniteSets, FiniteSetsExt, TLC, Json
CONSTANT Slice
Tops   == {"A", "B", "S-o", "S-T"}      \* "S-o": dashed UID, type optional, id "o";  "S-T": dashed UID, id "ST"
Plain  == {"A", "B"}
Types  == {"variant", "optional", "addon"}
Kinds  == {"k1", "k2", "k3"}            \* rotated over the seven real path kinds by the harness
Empty  == [k \in {} |-> 0]
IdOf(u) == CASE u = "S-o" -> "o" [] u = "S-T" -> "ST" [] OTHER -> u
TypeOf(u) == IF u = "S-o" THEN "optional" ELSE "variant"
DefaultSec == [arch |-> "bin", plats |-> {}, layered |-> FALSE, imgs |-> "none", stage2 |-> "none", media |-> FALSE, cks |-> FALSE, ts |-> "int"]
VARIABLES tops, kidtype, kid2, keyby, paths, sec, main, pkgs
vars == <<tops, kidtype, kid2, keyby, paths, sec, main, pkgs>>
\* kidtype[t]: type of the child "h" of top t, or "none"; kid2[t]: TRUE = that child has a grandchild "g" (addon)
\* pkgs[t] \subseteq {"packages", "repository", "source_packages", "source_repository"}: the paths [general] looks at
Init ==
  CASE Slice = "variants" ->
         /\ tops \in UNION {kSubset(k, Tops) : k \in 1..3}
         /\ kidtype \in [tops -> Types \cup {"none", "pair"}] /\ (\A t \in tops : t \notin Plain => kidtype[t] = "none")
         /\ (\A t \in tops : kidtype[t] = "pair" => t = "A" /\ "S-o" \notin tops)     \* ("S-o" concretises to the UID of A's optional child)
         /\ kid2 \in [tops -> BOOLEAN] /\ (\A t \in tops : kid2[t] => (kidtype[t] # "none" /\ t = "A"))
         /\ keyby \in {"uid", "id"} /\ (keyby = "id" => tops \cap {"S-o", "S-T"} # {})
         /\ paths = [t \in tops |-> {}] /\ pkgs = [t \in tops |-> {"packages", "repository"}]
         /\ sec = DefaultSec /\ main \in tops \cup {"default"}
    [] Slice = "paths" ->
         /\ tops \in {{"A"}, {"A", "B"}} /\ kidtype \in [tops -> {"none", "addon"}] /\ kid2 = [t \in tops |-> FALSE] /\ keyby = "uid"
         /\ paths \in [tops -> SUBSET Kinds] /\ ("B" \in tops => paths["B"] = {} /\ kidtype["B"] = "none")
         /\ pkgs \in [tops -> {{}, {"packages"}, {"repository", "source_packages"}, {"source_packages", "source_repository"},
                               {"packages", "repository", "source_packages", "source_repository"}}]
         /\ ("B" \in tops => pkgs["B"] \in {{}, {"packages", "repository", "source_packages", "source_repository"}})
         /\ sec \in {[DefaultSec EXCEPT !.arch = a] : a \in {"bin", "src"}} /\ main \in tops \cup {"default"}
    [] Slice = "sections" ->
         /\ tops = {"A"} /\ kidtype = [t \in tops |-> "none"] /\ kid2 = [t \in tops |-> FALSE] /\ keyby = "uid"
         /\ paths = [t \in tops |-> {}] /\ pkgs = [t \in tops |-> {"packages"}] /\ main = "default"
         /\ sec \in [arch : {"bin", "src"}, plats : {{}, {"p1"}, {"p1", "p2"}}, layered : BOOLEAN, imgs : {"none", "one", "two", "emptyp1"},
                     stage2 : {"none", "main", "both"}, media : BOOLEAN, cks : BOOLEAN, ts : {"int", "float", "neg"}]
         /\ (sec.imgs \in {"two", "emptyp1"} => "p1" \in sec.plats)
    [] Slice = "discinfo" ->
         /\ tops = {"A"} /\ kidtype = [t \in tops |-> "none"] /\ kid2 = [t \in tops |-> FALSE] /\ keyby = "uid"
         /\ paths = [t \in tops |-> {}] /\ pkgs = [t \in tops |-> {}] /\ main = "default"
         /\ sec \in [ts : {"intfloat", "fraction", "huge", "negative", "tiny"}, desc : {"plain", "innerquote", "blanks", "unicode", "endquote", "startquote", "separators", "mixedquotes", "hash", "semicolon"},
                     discs : {"ALL", "one", "three", "unsorted"}]
Next == FALSE /\ UNCHANGED vars

Key(t) == IF keyby = "uid" THEN t ELSE IdOf(t)
Csv(S) == [csv |-> S]                           \* rendered as ",".join(sorted(S))
PathVal(u, k) == "$path:" \o u \o ":" \o k
SecName(u, ty) == (IF ty = "addon" THEN "addon-" ELSE "variant-") \o u
\* "pair": TWO children of different kinds under one parent - the addon "h" and the optional variant "o" (the 1.0 / 1.1 format
\* documents list them in two options, `addons` and `variants`; the current writer lists every child under `addons`)
KidType(t) == IF kidtype[t] = "pair" THEN "addon" ELSE kidtype[t]
WithSib == {t \in tops : kidtype[t] = "pair"}
WithKid == {t \in tops : kidtype[t] # "none"}
WithKid2 == {t \in tops : kid2[t]}
TopSec(t) == ("id" :> IdOf(t)) @@ ("uid" :> t) @@ ("name" :> "$name:" \o t) @@ ("type" :> TypeOf(t))
             @@ [k \in paths[t] |-> PathVal(t, k)] @@ [k \in pkgs[t] |-> PathVal(t, k)]
             @@ (IF kidtype[t] # "none" THEN ("addons" :> Csv({t \o "-h"} \cup (IF kidtype[t] = "pair" THEN {t \o "-o"} ELSE {}))) ELSE Empty)
SibSec(t) == ("id" :> "o") @@ ("uid" :> t \o "-o") @@ ("name" :> "$name:" \o t \o "-o") @@ ("type" :> "optional")
             @@ ("parent" :> t) @@ ("packages" :> PathVal(t \o "-o", "packages"))
KidSec(t) == ("id" :> "h") @@ ("uid" :> t \o "-h") @@ ("name" :> "$name:" \o t \o "-h") @@ ("type" :> KidType(t))
             @@ ("parent" :> t) @@ ("packages" :> PathVal(t \o "-h", "packages"))
             @@ (IF kid2[t] THEN ("addons" :> Csv({t \o "-h-g"})) ELSE Empty)
Kid2Sec(t) == ("id" :> "g") @@ ("uid" :> t \o "-h-g") @@ ("name" :> "$name:" \o t \o "-h-g") @@ ("type" :> "addon")
              @@ ("parent" :> t \o "-h") @@ ("repository" :> PathVal(t \o "-h-g", "repository"))
Plats == sec.plats \cup {"$arch"}
\* ---- [general] as the C17 statement defines it
Keys == {Key(t) : t \in tops}
MainKey == IF main = "default" THEN [first |-> Keys] ELSE Key(main)
General == ("family" :> "$relname") @@ ("version" :> "$relver") @@ ("name" :> "$relname $relver") @@ ("arch" :> "$arch")
           @@ ("platforms" :> Csv(Plats)) @@ ("timestamp" :> "$tsint") @@ ("variant" :> MainKey) @@ ("variants" :> Csv(Keys))
\* packagedir / repository depend on the main variant: [pkgs-of main, src fallback] resolved by the harness from `pkgs`
ImgSecs == CASE sec.imgs = "none" -> Empty
             [] sec.imgs = "one" -> ("images-$arch" :> (("boot.iso" :> "$img:boot") @@ ("Kernel" :> "$img:kernel")))
             [] sec.imgs = "two" -> ("images-$arch" :> (("boot.iso" :> "$img:boot") @@ ("Kernel" :> "$img:kernel")))
                                    @@ ("images-p1" :> (("kernel" :> "$img:xenkernel") @@ ("initrd.IMG" :> "$img:initrd")))
             \* a platform whose image table is (still) empty: its section is written, empty, and read back
             [] sec.imgs = "emptyp1" -> ("images-$arch" :> (("boot.iso" :> "$img:boot") @@ ("Kernel" :> "$img:kernel")))
                                        @@ ("images-p1" :> Empty)
Stage2Sec == CASE sec.stage2 = "none" -> Empty [] sec.stage2 = "main" -> ("stage2" :> ("mainimage" :> "$img:stage2"))
               [] sec.stage2 = "both" -> ("stage2" :> (("mainimage" :> "$img:stage2") @@ ("instimage" :> "$img:inst")))
\* "$discnum" / "$totaldiscs": any integers (the harness rotates 2/3, 1/1, 0/0 - a set that is numbered from nought)
MediaSec == IF sec.media THEN ("media" :> (("discnum" :> "$discnum") @@ ("totaldiscs" :> "$totaldiscs"))) ELSE Empty
CksSec == IF sec.cks THEN ("checksums" :> (("$img:boot" :> "$cks:sha256") @@ ("Repo/repomd.XML" :> "$cks:md5"))) ELSE Empty
Doc == [s \in {SecName(t, "variant") : t \in tops} \cup {SecName(t \o "-h", KidType(t)) : t \in WithKid}
              \cup {SecName(t \o "-h-g", "addon") : t \in WithKid2} \cup {SecName(t \o "-o", "optional") : t \in WithSib} |->
          IF \E t \in tops : s = SecName(t, "variant") THEN TopSec(CHOOSE t \in tops : s = SecName(t, "variant"))
          ELSE IF \E t \in WithSib : s = SecName(t \o "-o", "optional") THEN SibSec(CHOOSE t \in WithSib : s = SecName(t \o "-o", "optional"))
          ELSE IF \E t \in WithKid : s = SecName(t \o "-h", KidType(t)) THEN KidSec(CHOOSE t \in WithKid : s = SecName(t \o "-h", KidType(t)))
          ELSE Kid2Sec(CHOOSE t \in WithKid2 : s = SecName(t \o "-h-g", "addon"))]
       @@ ("header" :> (("type" :> "productmd.treeinfo") @@ ("version" :> "$current")))
       @@ ("release" :> (("name" :> "$relname") @@ ("short" :> "$relshort") @@ ("version" :> "$relver")
                         @@ (IF sec.layered THEN ("is_layered" :> "true") ELSE Empty)))
       @@ (IF sec.layered THEN ("base_product" :> (("name" :> "$bpname") @@ ("short" :> "$bpshort") @@ ("version" :> "$bpver"))) ELSE Empty)
       @@ ("tree" :> (("arch" :> "$arch") @@ ("platforms" :> Csv(Plats)) @@ ("build_timestamp" :> "$ts") @@ ("variants" :> Csv(tops))))
       @@ ImgSecs @@ Stage2Sec @@ MediaSec @@ CksSec
       @@ ("general" :> General)
Obj == [tops |-> tops, kidtype |-> kidtype, kid2 |-> kid2, keyby |-> keyby, paths |-> paths, pkgs |-> pkgs, sec |-> sec, main |-> main]
Emit == IF Slice = "discinfo" THEN PrintT("@@" \o ToJson([disc |-> sec]))
        ELSE PrintT("@@" \o ToJson([obj |-> Obj, doc |-> Doc]))
\* ---- model-level checks
SectionPerVariant == Slice # "discinfo" =>
                       Cardinality({s \in DOMAIN Doc : \E i \in 1..1 : "uid" \in DOMAIN Doc[s]}) = Cardinality(tops) + Cardinality(WithKid) + Cardinality(WithKid2) + Cardinality(WithSib)
TreeListsTops == Slice # "discinfo" => Doc["tree"]["variants"].csv = tops
ArchInPlatforms == Slice # "discinfo" => "$arch" \in Doc["tree"]["platforms"].csv /\ Doc["general"]["platforms"] = Doc["tree"]["platforms"]
GeneralMirrors == Slice # "discinfo" => /\ Doc["general"]["family"] = Doc["release"]["name"] /\ Doc["general"]["version"] = Doc["release"]["version"]
                                        /\ Doc["general"]["arch"] = Doc["tree"]["arch"]
=============================================================================
