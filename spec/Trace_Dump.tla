------------------------------- MODULE Trace_Dump -------------------------------
(* Code -> spec for the dump protocol: the recorded order of validation points ("v"), the failing
   point ("raise"), opening the destination ("open") and the completed write ("write") of every
   real dump must be a behaviour of the reference protocol.                                  *)
EXTENDS DumpProtocol, Json, IOUtils, TLCExt
VARIABLES tid, l
File == JsonDeserialize(IOEnv.TRACE_FILE)
Batch == File.traces
Events(t) == Batch[t].events
Ev == Events(tid)[l]
TraceInit == \E t \in 1..Len(Batch) :
               /\ tid = t /\ l = 1
               /\ Start(Batch[t].top, Batch[t].nested, Batch[t].disk0, Batch[t].failAt)
TraceNext == /\ l <= Len(Events(tid)) /\ l' = l + 1 /\ UNCHANGED tid
             /\ \/ Ev = "v" /\ Point /\ pc' = "run"
                \/ Ev = "raise" /\ Point /\ pc' = "raised"
                \/ Ev = "open" /\ Open
                \/ Ev = "write" /\ Write
Reached == TLCSet(tid, IF TLCGet(tid) < l THEN l ELSE TLCGet(tid))
ASSUME \A t \in 1..Len(Batch) : TLCSet(t, 0)
Post == \A t \in 1..Len(Batch) :
          IF TLCGet(t) = Len(Events(t)) + 1 THEN PrintT(<<"ACCEPT", Batch[t].tid>>)
          ELSE PrintT(<<"REJECT", Batch[t].tid, "at", TLCGet(t)>>)
=============================================================================
