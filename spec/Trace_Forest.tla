------------------------------ MODULE Trace_Forest ------------------------------
(* Code -> spec for the variant forest: every recorded VariantBase.add of the real composeinfo
   classes (the repository's tests, loaders, random drivers) must be a behaviour of Forest.  The
   attributes of every variant object are those logged at its add calls (a trace is cut where an
   object is mutated after filing).  UIDs are strings here: ChildUid(p, i) = p-i.            *)
EXTENDS Forest, Json, IOUtils, TLCExt
VARIABLES tid, l, live
File == JsonDeserialize(IOEnv.TRACE_FILE)
Batch == File.traces
SeqSet(s) == {s[i] : i \in 1..Len(s)}
TraceObj == [n \in DOMAIN File.objs |-> [id |-> File.objs[n].id, uid |-> File.objs[n].uid, flat |-> File.objs[n].flat,
                                        arches |-> SeqSet(File.objs[n].arches), type |-> File.objs[n].type]]
StrChild(p, i) == p \o "-" \o i
StrUidKey(u) == u
Events(t) == Batch[t].events
Ev == Events(tid)[l]
TraceInit == /\ tid \in 1..Len(Batch) /\ l = 1 /\ live = TRUE /\ Init
TraceAdd == IF live /\ InScope(Ev.c, Ev.o)
            THEN /\ Add(Ev.c, Ev.o) /\ out' = Ev.out
                 /\ Cardinality(DOMAIN kids'[Ev.c]) = Ev.nkids
                 /\ par'[Ev.o] = Ev.par
                 /\ UNCHANGED live
            ELSE live' = FALSE /\ UNCHANGED vars       \* outside the scope of the model: the rest is not judged
TraceNext == /\ l <= Len(Events(tid)) /\ l' = l + 1 /\ UNCHANGED tid /\ TraceAdd
Reached == TLCSet(tid, IF TLCGet(tid) < l THEN l ELSE TLCGet(tid))
ASSUME \A t \in 1..Len(Batch) : TLCSet(t, 0)
Post == \A t \in 1..Len(Batch) :
          IF TLCGet(t) = Len(Events(t)) + 1 THEN PrintT(<<"ACCEPT", Batch[t].tid>>)
          ELSE PrintT(<<"REJECT", Batch[t].tid, "at", TLCGet(t)>>)
\* structural invariants evaluated at every recorded step
LiveUidAligned == live => UidAligned
LiveArchSubset == live => ArchSubset
LiveParentMirror == live => ParentMirror
=============================================================================
