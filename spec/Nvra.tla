---------------------------------- MODULE Nvra ----------------------------------
(* RPM N-[E:]V-R.A strings (C13).  Characters are class tokens: "L" letter, "D" digit and the
   literal punctuation.  Format builds the string from its parts; ParseRef is the rule of the
   property statement: drop a leading directory and a trailing ".rpm", the last dot delimits
   the arch, the last two dashes before it delimit version and release, an all-digit prefix of
   the version followed by ':' is the epoch (0 when absent).
   TLC checks ParseRef(Format(p)) = p and the canonical fixed point for every generated p and
   emits each (parts, string) pair; the harness feeds the rendered string to the real
   parse_nvra / Rpms.add.                                                                 *)
EXTENDS Lex, TLC, Json
CONSTANT Slice
NameCh == {"L", "D", ".", "_", "+"}
VerCh  == {"L", "D", ".", "_", "+", "~", "^"}
Segs   == SeqsOver(NameCh, 1, 1) \cup {<<"D", "D">>, <<"L", "D">>, <<"D", "L">>, <<".", "L">>}
Names  == {JoinSeq(ss, <<"-">>) : ss \in SeqsOver(Segs, 1, 3)}
FewNames == {<<"L">>, <<"L", "-", "D">>, <<"D", "-", "D", "-", "D">>, <<"L", "-", "D", "D", "-", ".", "L">>}
Vers   == SeqsOver(VerCh, 1, 1) \cup {<<"D", ".", "D">>, <<".", "D">>, <<"D", "~", "L">>, <<"D", "^", "D">>, <<"D", "D", "D">>}
Epochs == {<<>>, <<"D">>, <<"D", "D">>}                       \* <<>> = no epoch given
Arches == {"a1", "a2", "a3"}                                   \* rotated over the library's table by the harness
Dirs   == {<<>>, <<"L", "/">>, <<"L", "-", "D", "/", "L", ".", "L", "/">>, <<"/", "L", "/">>, <<"L", ":", "/">>, <<"L", " ", "L", "/">>,
            \* directories that begin like an epoch ("10:/pub/", "7:updates/"): the epoch is looked for in the file name only
            <<"D", "D", ":", "/", "L", "/">>, <<"D", ":", "L", "/">>}
Rpm    == <<".", "r", "p", "m">>

Format(p) == p.dir \o p.name \o <<"-">> \o (IF p.epoch = <<>> THEN <<>> ELSE p.epoch \o <<":">>)
             \o p.version \o <<"-">> \o p.release \o <<".", p.arch>> \o (IF p.rpm THEN Rpm ELSE <<>>)
Canon(q) == q.name \o <<"-">> \o q.epoch \o <<":">> \o q.version \o <<"-">> \o q.release \o <<".", q.arch>>

ParseRef(s) ==
  LET s1 == IF EndsWith(s, Rpm) THEN SubSeq(s, 1, Len(s) - 4) ELSE s
      s2 == After(s1, LastPos(s1, "/"))                         \* leading directory dropped
      dot == LastPos(s2, ".")
      arch == s2[Len(s2)]                                       \* arch is one token
      body == Before(s2, dot)
      d2 == LastPos(body, "-")
      rel == After(body, d2)
      b1 == Before(body, d2)
      d1 == LastPos(b1, "-")
      ev == After(b1, d1)
      name == Before(b1, d1)
      col == FirstPos(ev, ":")
      hasEpoch == col > 1 /\ AllIn(Before(ev, col), {"D", "0"})
  IN [name |-> name, epoch |-> IF hasEpoch THEN Before(ev, col) ELSE <<"0">>,
      version |-> IF hasEpoch THEN After(ev, col) ELSE ev, release |-> rel, arch |-> arch]
Expect(p) == [name |-> p.name, epoch |-> IF p.epoch = <<>> THEN <<"0">> ELSE p.epoch,
              version |-> p.version, release |-> p.release, arch |-> p.arch]

P(d, n, e, v, r, a, m) == [dir |-> d, name |-> n, epoch |-> e, version |-> v, release |-> r, arch |-> a, rpm |-> m]
Cases ==
  CASE Slice = "names" -> {P(d, n, e, <<"D", ".", "D">>, <<"D", ".", "L">>, "a1", m) : d \in Dirs, n \in Names, e \in Epochs, m \in BOOLEAN}
    [] Slice = "vers"  -> {P(<<>>, n, e, v, r, a, FALSE) : n \in FewNames, e \in Epochs, v \in Vers, r \in Vers, a \in Arches}
    [] Slice = "small" -> {P(d, n, e, v, <<"D">>, "a2", m) : d \in {<<>>, <<"L", "-", "D", "/", "L", ".", "L", "/">>}, n \in FewNames, e \in Epochs,
                                                              v \in {<<"D">>, <<"D", ".", "D">>, <<"L">>}, m \in BOOLEAN}
VARIABLE c
Init == c \in Cases
Next == FALSE /\ UNCHANGED c
RoundTrip  == ParseRef(Format(c)) = Expect(c)
FixedPoint == ParseRef(Canon(ParseRef(Format(c)))) = ParseRef(Format(c))
Emit == PrintT("@@" \o ToJson([parts |-> [name |-> c.name, epoch |-> c.epoch, version |-> c.version, release |-> c.release,
                                           arch |-> c.arch], s |-> Format(c), canon |-> Canon(Expect(c))]))
=============================================================================
