INIT GInit
NEXT GNext
INVARIANT NoSourceArch
INVARIANT UnderSource
INVARIANT SigLower
PROPERTY RefusedIsNoop
PROPERTY OnlyAddressed
PROPERTY OnlyDelRemoves
CHECK_DEADLOCK FALSE
CONSTANTS
 Rpm <- MCRpm
 BinArch <- MCBin
 Cats <- MCCats
 OkForms <- MCOkForms
 OkPaths <- MCOkPaths
 Lower <- MCLower
 BadSigs = {"int"}
