------------------------------- MODULE Trace_Builders -------------------------------
(* Trace validation (code -> spec) for Builders: every recorded execution of the real Modules and
   ExtraFiles classes (Modules.add, ExtraFiles.add, ExtraFiles.dump_for_tree) must be a behaviour of the
   specification.  The recorder logs the raw arguments and a full snapshot of the (small) mapping after
   every call; harness/builders_traces.py abstracts them WITHOUT the library's help (its own reading of
   NAME:STREAM[:VERSION[:CONTEXT]], paths as component sequences, checksum tables as canonical text).
   Because the whole state is logged the search is linear: each event has exactly one successor, which
   must equal the logged snapshot.  A batch file holds many traces; `tid` selects one, `l` the position.   *)
EXTENDS Builders, Json, IOUtils, TLCExt
VARIABLES tid, l
File   == JsonDeserialize(IOEnv.TRACE_FILE)
Batch  == File.traces
SeqSet(s) == {s[i] : i \in 1..Len(s)}
TraceKnownArch == SeqSet(File.knownarch)
TraceOkPaths   == SeqSet(File.okpaths)          \* for modules: path texts; for extra files: component sequences
Events(t) == Batch[t].events
Ev == Events(tid)[l]

\* the logged snapshots, in the shape of the specification's variables
ModsOf(seq)  == [k \in {<<e.v, e.a, e.m>> : e \in SeqSet(seq)} |->
                   LET e == CHOOSE x \in SeqSet(seq) : <<x.v, x.a, x.m>> = k
                   IN [paths |-> [c \in SeqSet(e.cats) |-> e.paths[c]], rpms |-> e.rpms, koji |-> e.koji]]
FilesOf(seq) == [k \in {<<e.v, e.a>> : e \in SeqSet(seq)} |->
                   LET e == CHOOSE x \in SeqSet(seq) : <<x.v, x.a>> = k IN e.files]

\* the metadata block written next to a module's paths: its own UID and the parts of that UID
MetaOk == Ev.out = "ok" =>
            LET P == Ev.parts
                Part(i) == IF Len(P) >= i THEN P[i] ELSE ""
            IN /\ Ev.meta.uid = Ev.m /\ Ev.meta.name = Part(1) /\ Ev.meta.stream = Part(2)
               /\ Ev.meta.version = Part(3) /\ Ev.meta.context = Part(4) /\ Ev.meta.koji_tag = Ev.koji

TraceInit == /\ tid \in 1..Len(Batch) /\ l = 1 /\ Init
TraceModAdd == /\ Ev.op = "modadd"
               /\ ModAdd(Ev.v, Ev.a, Ev.m, Ev.uform, Ev.koji, Ev.path, Ev.cat, Ev.rl)
               /\ out' = Ev.out /\ mods' = ModsOf(Ev.state) /\ MetaOk
TraceXfAdd  == /\ Ev.op = "xfadd"
               /\ XfAdd(Ev.v, Ev.a, Ev.path, Ev.size, Ev.cks)
               /\ out' = Ev.out /\ files' = FilesOf(Ev.state)
\* the partial dump lists the tree's files in their order, the base stripped on a component boundary, sizes and checksums as filed
TraceTreeDump == /\ Ev.op = "treedump"
                 /\ XfTreeDump(Ev.v, Ev.a)
                 /\ out' = Ev.out /\ files' = FilesOf(Ev.state)
                 /\ (Ev.out = "ok" => LET fs == files[<<Ev.v, Ev.a>>]
                                      IN Ev.listed = [i \in 1..Len(fs) |-> [file |-> Strip(fs[i].file, Ev.base), size |-> fs[i].size,
                                                                            checksums |-> fs[i].checksums]])
TraceNext == /\ l <= Len(Events(tid)) /\ l' = l + 1 /\ UNCHANGED tid
             /\ (TraceModAdd \/ TraceXfAdd \/ TraceTreeDump)
Reached == TLCSet(tid, IF TLCGet(tid) < l THEN l ELSE TLCGet(tid))
ASSUME \A t \in 1..Len(Batch) : TLCSet(t, 0)
Post == \A t \in 1..Len(Batch) :
          IF TLCGet(t) = Len(Events(t)) + 1 THEN PrintT(<<"ACCEPT", Batch[t].tid>>)
          ELSE PrintT(<<"REJECT", Batch[t].tid, "at", TLCGet(t)>>)
=============================================================================
