INIT GInit
NEXT GNext
VIEW View
CHECK_DEADLOCK FALSE
CONSTANTS
 ROOT = "ROOT"
 None = "None"
 Obj <- MCObj
 ChildUid <- SeqChild
 Dev_FalsyParent = FALSE
 Dev_ParentSetFirst = FALSE
 Dev_RecurseDropsArch = FALSE
 Dev_LookupUidFirst = FALSE
 Dev_UidCollision = FALSE
 BottomUp = FALSE
 Dev_UidSubtreeUnchecked = FALSE
 Dev_TopKeepsParent = FALSE
 UidKey <- JoinDash
 KeyForms = {"id"}
 Dev_KeyUnchecked = FALSE
 Dev_IdUnchecked = FALSE
