INIT TraceInit
NEXT TraceNext
CONSTRAINT Reached
POSTCONDITION Post
PROPERTY LoadedOnce
PROPERTY OnlyAccessFills
PROPERTY ServesDocumentStep
PROPERTY Frame
PROPERTY FirstAccessIsDirectLoad
CHECK_DEADLOCK FALSE
CONSTANTS
 Dev_NoCache = FALSE
 Dev_CacheFailure = FALSE
 Dev_Fallback = FALSE
 PrefCurrent = TRUE
