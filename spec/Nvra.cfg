INIT Init
NEXT Next
INVARIANT RoundTrip
INVARIANT FixedPoint
CHECK_DEADLOCK FALSE
CONSTANTS
