INIT Init
NEXT Next
CONSTRAINT Emit
CHECK_DEADLOCK FALSE
CONSTANTS
