INIT Init
NEXT MCNext
INVARIANT UniqueIdent
INVARIANT NoSourceArch
PROPERTY RefusedIsNoop
CHECK_DEADLOCK FALSE
CONSTANTS
 KnownArch <- MCKnown
 SrcArch <- MCSrc
 Current = 102
 Dev_FreshVersionZero = TRUE
 MaxDocImages = 2
