INIT GInit
NEXT GNext
INVARIANT FailedDumpLeavesDisk
INVARIANT SuccessWrites
CONSTRAINT Emit
CHECK_DEADLOCK FALSE
CONSTANTS
 Dev_OpenBeforeSerialize = FALSE
