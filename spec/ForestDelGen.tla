------------------------------ MODULE ForestDelGen ------------------------------
(* Growth: state-graph walk of the forest with deletion.  A behaviour is a sequence of in-scope adds with
   at most MaxDel deletions; a deleted object is not filed again (its stale parent link is outside the model's
   scope).  Per distinct state TLC emits a shortest history, the expected tables and the expected outcome and
   successor table of every deletion (by id from every container, by dashed name from the top, and of missing names). *)
EXTENDS MC_Forest, Json
CONSTANT MaxDel
VARIABLES hist, gone, ndel
DInit == Init /\ hist = <<>> /\ gone = {} /\ ndel = 0
View == <<kids, par, gone, ndel>>
Names == {<<Obj[o].id>> : o \in Objs} \cup {Obj[o].uid : o \in {x \in Objs : Len(Obj[x].uid) > 1 /\ Obj[x].id \in {"A", "B", "C"}}} \cup {<<"Z">>, <<"A", "Z">>}
DelActs == {[c |-> c, name |-> n, out |-> IF DelOk(c, n) THEN "ok" ELSE "KeyError",
             tc |-> DelTarget(c, n)[1],
             newc |-> IF DelOk(c, n) THEN [k \in DOMAIN kids[DelTarget(c, n)[1]] \ {DelTarget(c, n)[2]} |-> kids[DelTarget(c, n)[1]][k]]
                      ELSE kids[DelTarget(c, n)[1]]]
            : <<c, n>> \in {p \in (InForest \cup {ROOT}) \X Names : Len(p[2]) = 1 \/ p[1] = ROOT}}
PoolJson == [o \in Objs |-> [id |-> Obj[o].id, uid |-> Obj[o].uid, arches |-> Obj[o].arches, type |-> Obj[o].type]]
Emit == PrintT("@@" \o ToJson([hist |-> hist, kids |-> kids, par |-> par, dels |-> DelActs, pool |-> PoolJson, forest |-> InForest]))
Removed(c, n) == LET t == DelTarget(c, n) IN {kids[t[1]][t[2]]} \cup Desc(kids[t[1]][t[2]], 4)
DNext == /\ Emit
         /\ \/ \E c \in Cont, o \in Objs :
                 /\ o \notin gone /\ InScope(c, o) /\ Attachable(c) /\ AddOk(c, o) /\ Add(c, o)
                 /\ hist' = Append(hist, [op |-> "add", c |-> c, o |-> o, out |-> out']) /\ UNCHANGED <<gone, ndel>>
            \/ \E c \in InForest \cup {ROOT}, n \in Names :
                 /\ ndel < MaxDel /\ DelOk(c, n) /\ (Len(n) = 1 \/ c = ROOT)
                 /\ gone' = gone \cup Removed(c, n) /\ ndel' = ndel + 1
                 /\ Del(c, n)
                 /\ hist' = Append(hist, [op |-> "del", c |-> c, name |-> n, out |-> out'])
\* after any deletion the remaining forest still satisfies the structural invariants
RemainingOk == UidAligned /\ ArchSubset /\ UidUnique /\ KeyIsId
=============================================================================
