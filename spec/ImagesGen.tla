------------------------------- MODULE ImagesGen -------------------------------
(* Behaviour generator for ImagesManifest: carries the history and emits one JSON
   line per distinct history (spec -> code replay).  Mode "adds": histories of
   Add / SetVersion / Dump.  Mode "loads": Load(doc, ver) of every document with at
   most MaxDocImages images, followed by at most D-1 further calls.                *)
EXTENDS Naturals, FiniteSets, FiniteSetsExt, Sequences, TLC, Json
CONSTANTS D, Mode, MaxDocImages, Dev_FreshVersionZero, WithBadDocArch
VARIABLES hdr, cells, exempt, out, hist

Img(n, i, s) == [n |-> n, ident |-> i, sums |-> s]
Pool == {Img("i1a", "I1", "c1"), Img("i1b", "I1", "c2"), Img("i2", "I2", "c1"), Img("i1a2", "I1", "c1")}
Known == {"x86_64", "i386", "src", "nosrc"}
AddCells == {<<"S", "x86_64">>, <<"S", "i386">>, <<"C", "x86_64">>, <<"S", "src">>, <<"C", "nosrc">>, <<"S", "bogus">>}
DocCells == {<<"S", "x86_64">>, <<"S", "i386">>, <<"S", "src">>, <<"C", "x86_64">>, <<"C", "src">>}
              \cup (IF WithBadDocArch THEN {<<"C", "nosrc">>, <<"C", "bogus">>} ELSE {})
M == INSTANCE ImagesManifest WITH KnownArch <- Known, SrcArch <- {"src", "nosrc"}, Current <- 102

\* documents: every assignment of at most MaxDocImages (cell, image) pairs
Pairs == DocCells \X Pool
PairSets == UNION {kSubset(k, Pairs) : k \in 0..MaxDocImages}
DocOf(S) == [c \in {p[1] : p \in S} |-> {p[2] : p \in {q \in S : q[1] = c}}]

\* source images in two variants whose binary arch sets differ (4 images)
SrcPairSets == {{<<<<"S", "src">>, i>>, <<<<"C", "src">>, j>>, <<<<"S", a>>, k>>, <<<<"C", b>>, l>>} :
                  i \in {x \in Pool : x.n \in {"i1a", "i2"}}, j \in {x \in Pool : x.n \in {"i1a", "i2"}},
                  k \in {x \in Pool : x.n \in {"i1a2", "i2"}}, l \in {x \in Pool : x.n \in {"i1a2", "i1b"}},
                  a \in {"x86_64", "i386"}, b \in {"x86_64", "i386"}}
\* two source images of one variant next to two binary arches (every one of them goes under each arch)
SrcTwoSets == {{<<<<"S", "src">>, i>>, <<<<"S", "src">>, j>>, <<<<"S", "x86_64">>, k>>, <<<<"S", "i386">>, l>>} :
                 i \in {x \in Pool : x.n = "i1a"}, j \in {x \in Pool : x.n = "i2"},
                 k \in {x \in Pool : x.n \in {"i1a2", "i2"}}, l \in {x \in Pool : x.n \in {"i1a2", "i1b"}}}
\* small per-arch documents for merging: a src image next to one binary arch of the same variant
MergeSets == {{<<<<"S", "src">>, i>>, <<<<"S", a>>, k>>} : i \in Pool, k \in Pool, a \in {"x86_64", "i386"}}
Key(c) == c[1] \o "/" \o c[2]
CellsJson(cs) == [k \in {Key(c) : c \in DOMAIN cs} |->
                    {i.n : i \in cs[CHOOSE c \in DOMAIN cs : Key(c) = k]}]

Init == M!Init /\ hist = <<>>
AddStep == \E c \in AddCells, i \in Pool :
             /\ M!Add(c[1], c[2], M!Eff(i))
             /\ hist' = Append(hist, [op |-> "add", v |-> c[1], a |-> c[2], img |-> i.n, out |-> out'])
EditStep == \E i \in Pool, id \in {"I1", "I2"} :
             /\ M!Edit(i.n, id)
             /\ hist' = Append(hist, [op |-> "edit", img |-> i.n, ident |-> id, out |-> "ok"])
VerStep == \E ver \in {100, 101, 200} :      \* 200 = "2.0": above 1.1 with minor number 0
             /\ M!SetVersion(ver)
             /\ hist' = Append(hist, [op |-> "setversion", ver |-> ver, out |-> "ok"])
DumpStep == M!Dump /\ hist' = Append(hist, [op |-> "dump", out |-> "ok"])
LoadStep == \E S \in (IF Mode = "merge" THEN MergeSets ELSE PairSets \cup SrcPairSets \cup SrcTwoSets), ver \in {100, 101, 102, 200} :
             /\ M!Load(DocOf(S), ver)
             /\ hist' = Append(hist, [op |-> "load", ver |-> ver, doc |-> CellsJson(DocOf(S)), out |-> out'])
MergeStep == \E S \in MergeSets, ver \in {100, 101, 102} :
             /\ M!LoadInto(DocOf(S), ver)
             /\ hist' = Append(hist, [op |-> "loadinto", ver |-> ver, doc |-> CellsJson(DocOf(S)), out |-> out'])
Next == /\ Len(hist) < D
        /\ IF Mode \in {"loads", "merge"} /\ hist = <<>> THEN LoadStep
           ELSE IF Mode = "merge" THEN (out = "ok" /\ MergeStep)
           ELSE (AddStep \/ VerStep \/ DumpStep \/ EditStep)

Emit == PrintT("@@" \o ToJson([hist |-> hist, cells |-> CellsJson(cells), hdr |-> hdr, exempt |-> exempt]))
EmitLast == Len(hist) < D \/ Emit          \* simulation mode: print full-depth behaviours only
UniqueIdent  == M!UniqueIdent
NoSourceArch == M!NoSourceArch
VersionKnown == M!VersionKnown
=============================================================================
