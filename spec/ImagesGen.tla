------------------------------- MODULE ImagesGen -------------------------------
(* Behaviour generator for ImagesManifest: carries the history and emits one JSON
   line per distinct history (spec -> code replay).  Mode "adds": histories of
   Add / SetVersion / Dump.  Mode "loads": Load(doc, ver) of every document with at
   most MaxDocImages images, followed by at most D-1 further calls.                *)
EXTENDS Naturals, FiniteSets, FiniteSetsExt, Sequences, TLC, Json
CONSTANTS D, Mode, MaxDocImages, Dev_FreshVersionZero, WithBadDocArch
VARIABLES hdr, cells, exempt, out, hist

Img(n, i, s) == [n |-> n, ident |-> i, sums |-> s]
Pool == {Img("i1a", "I1", "c1"), Img("i1b", "I1", "c2"), Img("i2", "I2", "c1"), Img("i1a2", "I1", "c1")}
Known == {"x86_64", "i386", "src", "nosrc"}
AddCells == {<<"S", "x86_64">>, <<"S", "i386">>, <<"C", "x86_64">>, <<"S", "src">>, <<"C", "nosrc">>, <<"S", "bogus">>}
DocCells == {<<"S", "x86_64">>, <<"S", "i386">>, <<"S", "src">>, <<"C", "x86_64">>, <<"C", "src">>}
              \cup (IF WithBadDocArch THEN {<<"C", "nosrc">>, <<"C", "bogus">>} ELSE {})
M == INSTANCE ImagesManifest WITH KnownArch <- Known, SrcArch <- {"src", "nosrc"}, Current <- 102

\* documents: every assignment of at most MaxDocImages (cell, image) pairs
Pairs == DocCells \X Pool
PairSets == UNION {kSubset(k, Pairs) : k \in 0..MaxDocImages}
DocOf(S) == [c \in {p[1] : p \in S} |-> {p[2] : p \in {q \in S : q[1] = c}}]

Key(c) == c[1] \o "/" \o c[2]
CellsJson(cs) == [k \in {Key(c) : c \in DOMAIN cs} |->
                    {i.n : i \in cs[CHOOSE c \in DOMAIN cs : Key(c) = k]}]

Init == M!Init /\ hist = <<>>
AddStep == \E c \in AddCells, i \in Pool :
             /\ M!Add(c[1], c[2], i)
             /\ hist' = Append(hist, [op |-> "add", v |-> c[1], a |-> c[2], img |-> i.n, out |-> out'])
VerStep == \E ver \in {100, 101} :
             /\ M!SetVersion(ver)
             /\ hist' = Append(hist, [op |-> "setversion", ver |-> ver, out |-> "ok"])
DumpStep == M!Dump /\ hist' = Append(hist, [op |-> "dump", out |-> "ok"])
LoadStep == \E S \in PairSets, ver \in {100, 101, 102} :
             /\ M!Load(DocOf(S), ver)
             /\ hist' = Append(hist, [op |-> "load", ver |-> ver, doc |-> CellsJson(DocOf(S)), out |-> out'])
Next == /\ Len(hist) < D
        /\ IF Mode = "loads" /\ hist = <<>> THEN LoadStep ELSE (AddStep \/ VerStep \/ DumpStep)

Emit == PrintT("@@" \o ToJson([hist |-> hist, cells |-> CellsJson(cells), hdr |-> hdr, exempt |-> exempt]))
EmitLast == Len(hist) < D \/ Emit          \* simulation mode: print full-depth behaviours only
UniqueIdent  == M!UniqueIdent
NoSourceArch == M!NoSourceArch
VersionKnown == M!VersionKnown
=============================================================================
