#!/bin/sh
# Nothing to compile: verify the toolchain the checks rely on (offline).
set -e
cd "$(dirname "$0")"
java -version >/dev/null 2>&1
test -f /opt/veriftools/tla/tla2tools.jar
test -f /opt/veriftools/tla/CommunityModules-deps.jar
/venv/bin/python -c "import six, sys; sys.path.insert(0, '/repo'); import productmd"
mkdir -p evidence replays
echo setup ok
