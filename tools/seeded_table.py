#!/venv/bin/python
"""Regenerate seeded/README.md from the meta.json files."""
import glob
import json
import os

HERE = os.path.dirname(os.path.dirname(os.path.abspath(__file__)))
rows = []
for d in sorted(glob.glob(os.path.join(HERE, "seeded", "*", "meta.json"))):
    m = json.load(open(d))
    last = m["checks"][-1]
    why = (last["first"][1] if len(last["first"]) > 1 else "").replace("   why: ", "").replace("|", "/")
    rows.append((os.path.basename(os.path.dirname(d)), m["property"], m.get("initially_missed", False), m.get("strengthening", ""),
                 last["detected"], why[:160], m.get("obsolete", False)))
out = ["# Seeded changes (made by independent sub-agents from the property text only)", "",
       "Each directory: patch.diff, demo.py (fails with the change, passes without), note.txt, meta.json (what was confirmed and run).",
       "`tools/seeded.py run [prefix] [tier]` re-applies each patch to a scratch copy of /repo's working tree and runs the targeted check.", "",
       "%d changes; %d caught by the check as first built, %d missed at first and caught after the strengthening named below; %d currently undetected."
       % (len(rows), sum(1 for r in rows if not r[2]), sum(1 for r in rows if r[2] and r[4]), sum(1 for r in rows if not r[4] and not r[6])), "",
       "%d change(s) no longer break their property after a repair of the library they led to (marked obsolete)." % sum(1 for r in rows if r[6]), "",
       "| change | property | first verdict | strengthening (when missed) | what the check reports now |", "|---|---|---|---|---|"]
for r in rows:
    out.append("| %s | %s | %s | %s | %s |" % (r[0], r[1], "missed" if r[2] else "caught", r[3] or "-", r[5] if r[4] else ("obsolete: the property holds with this change since the repair" if r[6] else "**NOT DETECTED**")))
open(os.path.join(HERE, "seeded", "README.md"), "w").write("\n".join(out) + "\n")
print(out[5])
