#!/venv/bin/python
"""Binding demonstration (DESIGN.md 10.6): recorded traces of the real code are accepted by the trace specifications,
and the same traces with ONE recorded field flipped / one event removed are rejected.  Exit 0 iff every demonstration
behaves that way.  Not a registered check."""
import copy
import json
import os
import sys

sys.path.insert(0, os.path.dirname(os.path.dirname(os.path.abspath(__file__))))
os.environ["PRODUCTMD_VERIF"] = "1"
from harness import core, traces as T, images_traces, c11  # noqa: E402

core.import_repo()
ok = True


def verdicts(module, cfg, trs, extra):
    ctx = core.Ctx("C00", "quick", 0)
    v = T.validate_batch(ctx, module, cfg, trs, extra=extra)
    return v


def show(name, orig, mutated, what):
    global ok
    good = all(x[0] == "ACCEPT" for k, x in orig.items() if k != "__invariant__") and "__invariant__" not in orig
    bad = any(x[0] == "REJECT" for k, x in mutated.items() if k != "__invariant__") or "__invariant__" in mutated
    print("%-8s original traces accepted: %s ; after %s rejected: %s" % (name, good, what, bad))
    ok = ok and good and bad


suite = T.record_testsuite()
# --- Images
trs = images_traces._prep(suite["images"])
extra = {"arches": images_traces._arches()}
v0 = verdicts("Trace_Images", "Trace_Images.cfg", trs, extra)
m = copy.deepcopy(trs)
t = [t for t in m if any(e["op"] == "add" and e["out"] == "ok" for e in t["events"])][0]
e = [e for e in t["events"] if e["op"] == "add" and e["out"] == "ok"][0]
e["out"] = "ValueError"
show("Images", v0, verdicts("Trace_Images", "Trace_Images.cfg", m, extra), "flipping one recorded outcome")
m = copy.deepcopy(trs)
t = [t for t in m if sum(1 for e in t["events"] if e["op"] == "add" and e["out"] == "ok") >= 2][0]
i = [k for k, e in enumerate(t["events"]) if e["op"] == "add" and e["out"] == "ok"][0]
del t["events"][i]
show("Images", v0, verdicts("Trace_Images", "Trace_Images.cfg", m, extra), "removing one recorded add (a missing hook)")
# --- Forest
trs, objs = c11._prep(suite)
trs = trs[:8]
v0 = verdicts("Trace_Forest", "Trace_Forest.cfg", trs, {"objs": objs})
m = copy.deepcopy(trs)
t = [t for t in m if any(e["c"] != "ROOT" for e in t["events"])][0]
e = [e for e in t["events"] if e["c"] != "ROOT"][0]
e["par"] = "None"
show("Forest", v0, verdicts("Trace_Forest", "Trace_Forest.cfg", m, {"objs": objs}), "flipping one recorded parent pointer")
# --- Dump protocol
evs = [e for t in suite.get("dump", []) for e in t["events"]]
trs = [{"tid": "t%d" % j, "top": e["top"], "nested": e["nested"], "disk0": e["disk0"], "failAt": e["failAt"], "events": e["events"]}
       for j, e in enumerate(evs)]
v0 = verdicts("Trace_Dump", "Trace_Dump.cfg", trs, {})
m = copy.deepcopy(trs)
t = [t for t in m if "open" in t["events"] and t["events"].count("v") >= 2][0]
i = t["events"].index("open")
t["events"].insert(i - 1, t["events"].pop(i))       # the destination opened one validation point too early
show("Dump", v0, verdicts("Trace_Dump", "Trace_Dump.cfg", m, {}), "moving open before the last validation point")
# --- Rpms builder
from harness import rpms_traces  # noqa: E402
trs, consts = rpms_traces.prepare(T.run_driver("rpms", 0, 30).get("rpms", []))
trs = trs[:40]
v0 = verdicts("Trace_Rpms", "Trace_Rpms.cfg", trs, consts)
for what, fn in (("adding one to the logged entry count", lambda e: e.__setitem__("n", e["n"] + 1)),
                 ("logging the signing key as stored in upper case", lambda e: e.__setitem__("stored_sig", "F5282EE4")),
                 ("logging a source tree architecture for an accepted add", lambda e: e.__setitem__("a", "src"))):
    m = copy.deepcopy(trs)
    t = [t for t in m if any(e["op"] == "add" and e["out"] == "ok" for e in t["events"])][0]
    fn([e for e in t["events"] if e["op"] == "add" and e["out"] == "ok"][0])
    show("Rpms", v0, verdicts("Trace_Rpms", "Trace_Rpms.cfg", m, consts), what)
# --- Modules / ExtraFiles builders
from harness import builders_traces  # noqa: E402
trs, consts = builders_traces.prepare(T.run_driver("builders", 0, 40).get("builders", []))
trs = trs[:60]
v0 = verdicts("Trace_Builders", "Trace_Builders.cfg", trs, consts)


def _first(m, op, pred=lambda e: True):
    for t in m:
        for e in t["events"]:
            if e["op"] == op and e["out"] == "ok" and pred(e):
                return e
    raise SystemExit("no %s event to mutate" % op)


for what, op, fn in (
        ("dropping the last RPM of a logged module entry", "modadd",
         lambda e: [s for s in e["state"] if s["rpms"]][0]["rpms"].pop()),
        ("logging a stored module name that is not the first part of the UID", "modadd", lambda e: e["meta"].__setitem__("name", "other")),
        ("logging an accepted extra file under an unknown architecture", "xfadd", lambda e: e.__setitem__("a", "bogus")),
        ("logging a partial dump that did not strip its base", "treedump",
         lambda e: [d for d in e["listed"]][0].__setitem__("file", ["kept"] + [d for d in e["listed"]][0]["file"]))):
    m = copy.deepcopy(trs)
    pred = (lambda e: any(s["rpms"] for s in e["state"])) if "last RPM" in what else ((lambda e: bool(e["listed"])) if op == "treedump" else (lambda e: True))
    fn(_first(m, op, pred))
    show("Builders", v0, verdicts("Trace_Builders", "Trace_Builders.cfg", m, consts), what)
# --- Compose accessors
from harness import compose_access as CA, compose_access_traces as CT  # noqa: E402
pref = CA.measure_pref()
trs = [CT.record(900000 + i, 30) for i in range(40)]
cfgname = "Trace_ComposeAccess.cfg" if pref else "Trace_ComposeAccess_legacyfirst.cfg"
v0 = verdicts("Trace_ComposeAccess", cfgname, trs, {})


def _acc(m, pred):
    for t in m:
        seen = set()
        for i, e in enumerate(t["events"]):
            if pred(e, seen, t, i):
                return t, i, e
            if e["a"] == "access" and e["out"] == "doc":
                seen.add(e["k"])
    raise SystemExit("no access event to mutate")


for what, pred, fn in (
        ("logging another document number for a re-used object (as if the file had been read again)",
         lambda e, seen, t, i: e["a"] == "access" and e["out"] == "doc" and e["k"] in seen, lambda t, i, e: e.__setitem__("v", e["v"] + 1)),
        ("logging an access that lost the caller's edit",
         lambda e, seen, t, i: e["a"] == "access" and e["out"] == "doc" and e["e"] != 0, lambda t, i, e: e.__setitem__("e", 0)),
        ("logging 'missing' where a file was undecodable",
         lambda e, seen, t, i: e["a"] == "access" and e["out"] == "bad", lambda t, i, e: (e.__setitem__("out", "missing"), e.__setitem__("s", ""))),
        ("removing a logged file replacement (a missing hook) before a first access",
         lambda e, seen, t, i: e["a"] == "file" and e["w"] == "new" and any(x["a"] == "access" and x["k"] == e["k"] and x["out"] == "doc" and x["v"] == e["v"] for x in t["events"][i:]),
         lambda t, i, e: t["events"].pop(i))):
    m = copy.deepcopy(trs)
    fn(*_acc(m, pred))
    show("Compose", v0, verdicts("Trace_ComposeAccess", cfgname, m, {}), what)
print("BINDING-DEMO %s" % ("ok" if ok else "FAILED"))
sys.exit(0 if ok else 1)
