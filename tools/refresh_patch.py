#!/venv/bin/python
"""tools/refresh_patch.py <seeded-name>...: re-base a seeded patch that no longer applies to /repo's HEAD because a later repair
rewrote the same lines.  Per file: base = the blob the patch was made against (its index line), theirs = base + patch,
ours = HEAD; `git merge-file --theirs` keeps every repair of HEAD except inside the hunks the seeded change itself rewrites
(there the seeded line wins - it was written against the older text).  The refreshed patch replaces patch.diff (original
kept as patch.orig.diff) only after confirming: the 90 tests pass with it, the demonstration fails with it and passes without."""
import os
import re
import shutil
import subprocess
import sys
import tempfile

PY = "/venv/bin/python"


def sh(cmd, cwd=None, env=None, timeout=900):
    e = dict(os.environ)
    e.update(env or {})
    p = subprocess.run(cmd, cwd=cwd, env=e, capture_output=True, text=True, timeout=timeout)
    return p.returncode, p.stdout + p.stderr


def refresh(name):
    d = os.path.join("/verif/seeded", name)
    orig = os.path.join(d, "patch.orig.diff")          # re-based before: start again from what the sub-agent wrote
    patch = open(orig if os.path.exists(orig) else os.path.join(d, "patch.diff")).read()
    files = re.findall(r"^diff --git a/(\S+) b/\S+\nindex ([0-9a-f]+)\.\.", patch, re.M)
    if not files:
        return "%s: no index lines in the patch (not made by git diff)" % name
    tmp = tempfile.mkdtemp(prefix="verif-refresh-")
    try:
        work = os.path.join(tmp, "repo")
        sh(["rsync", "-a", "--exclude", ".git", "--exclude", "__pycache__", "/repo/", work + "/"])
        based = os.path.join(tmp, "base")
        for path, blob in files:
            rc, base_text = sh(["git", "-C", "/repo", "show", blob])
            if rc != 0:
                return "%s: base blob %s of %s not in the repository" % (name, blob, path)
            os.makedirs(os.path.dirname(os.path.join(based, path)), exist_ok=True)
            open(os.path.join(based, path), "w").write(base_text)
        theirs = os.path.join(tmp, "theirs")
        shutil.copytree(based, theirs)
        p = subprocess.run("patch -p1 -s --no-backup-if-mismatch", shell=True, cwd=theirs, input=patch, capture_output=True, text=True)
        if p.returncode != 0:
            return "%s: the patch does not apply to its own base: %s" % (name, (p.stdout + p.stderr)[-200:])
        for path, _ in files:
            rc, out = sh(["git", "merge-file", "--theirs", os.path.join(work, path), os.path.join(based, path), os.path.join(theirs, path)])
            if rc < 0 or rc > 127:
                return "%s: merge-file failed on %s: %s" % (name, path, out[-200:])
        rc, new_patch = sh(["diff", "-ruN", "--label", "a", "--label", "b", "/repo/productmd", os.path.join(work, "productmd")])
        lines = []
        for path, _ in files:
            rc, out = sh(["diff", "-u", "--label", "a/" + path, "--label", "b/" + path, os.path.join("/repo", path), os.path.join(work, path)])
            if out.strip():
                lines.append("diff --git a/%s b/%s\n" % (path, path) + out)
        new_patch = "".join(lines)
        if not new_patch.strip():
            return "%s: EMPTY after the merge" % name
        env = {"PYTHONPATH": work, "PYTHONDONTWRITEBYTECODE": "1"}
        trc, tout = sh([PY, "-m", "pytest", "-q", "-p", "no:cacheprovider"], cwd=work)
        wrc, _ = sh([PY, os.path.join(d, "demo.py")], cwd=tmp, env=env, timeout=300)
        orc, _ = sh([PY, os.path.join(d, "demo.py")], cwd=tmp, env={"PYTHONPATH": "/repo", "PYTHONDONTWRITEBYTECODE": "1"}, timeout=300)
        if trc == 0 and wrc != 0 and orc == 0:
            if not os.path.exists(os.path.join(d, "patch.orig.diff")):
                shutil.copy(os.path.join(d, "patch.diff"), os.path.join(d, "patch.orig.diff"))
            open(os.path.join(d, "patch.diff"), "w").write(new_patch)
            return "%s: REFRESHED" % name
        return "%s: NOT-CONFIRMED tests_rc=%s demo_with=%s demo_without=%s (%s)" % (name, trc, wrc, orc, tout.strip().splitlines()[-1:] )
    finally:
        shutil.rmtree(tmp, ignore_errors=True)


if __name__ == "__main__":
    for n in sys.argv[1:]:
        print(refresh(n))
