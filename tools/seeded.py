#!/venv/bin/python
"""tools/seeded.py import <agent seeded dir> <Cxx> [tier]   - confirm an agent-made change and file it under /verif/seeded
   tools/seeded.py run [<name-prefix>] [tier]                - re-run the targeted checks against every filed change

A change is kept only after confirming, in a scratch copy of /repo's working tree: the patch applies, the 90 tests
pass with it, the demonstration fails with it and passes without it.  Then the targeted check is run against the
patched copy (VERIF_REPO) and the verdict recorded in meta.json.  Scratch copies are removed."""
import json
import os
import shutil
import subprocess
import sys
import tempfile

VERIF = os.path.dirname(os.path.dirname(os.path.abspath(__file__)))
PY = "/venv/bin/python"


def sh(cmd, cwd=None, env=None, timeout=3600):
    e = dict(os.environ)
    e.update(env or {})
    try:
        p = subprocess.run(cmd, cwd=cwd, env=e, capture_output=True, text=True, timeout=timeout, shell=isinstance(cmd, str))
    except subprocess.TimeoutExpired as exc:
        return 124, "TIMEOUT after %ss" % timeout
    return p.returncode, p.stdout + p.stderr


def scratch_copy():
    d = tempfile.mkdtemp(prefix="verif-seeded-")
    sh(["rsync", "-a", "--exclude", ".git", "--exclude", "__pycache__", "--exclude", "seeded", "/repo/", d + "/repo/"])
    return d


def confirm(patch, demo):
    d = scratch_copy()
    try:
        repo = d + "/repo"
        rc0, out0 = sh([PY, demo], env={"PYTHONPATH": repo, "PYTHONDONTWRITEBYTECODE": "1"}, cwd=d, timeout=300)
        rc, out = sh("patch -p1 -s < %s" % patch, cwd=repo)
        if rc != 0:
            return {"applies": False, "log": out[-500:]}
        rct, outt = sh([PY, "-m", "pytest", "-q", "-p", "no:cacheprovider"], cwd=repo, timeout=900)
        rc1, out1 = sh([PY, demo], env={"PYTHONPATH": repo, "PYTHONDONTWRITEBYTECODE": "1"}, cwd=d, timeout=300)
        return {"applies": True, "tests": outt.strip().splitlines()[-1], "tests_pass": rct == 0,
                "demo_without_patch_rc": rc0, "demo_with_patch_rc": rc1, "demo_fail_output": out1.strip()[-400:]}
    finally:
        shutil.rmtree(d, ignore_errors=True)


def run_check(patch, prop, tier="quick"):
    d = scratch_copy()
    try:
        repo = d + "/repo"
        prc, pout = sh("patch -p1 -s --no-backup-if-mismatch < %s" % patch, cwd=repo)
        if prc != 0:
            # the library moved on under the patch (a later repair touched the same lines): nothing was run
            return {"check": prop, "tier": tier, "rc": None, "detected": False, "stale_patch": True, "first": [], "tail": [pout.strip()[-200:]]}
        rc, out = sh([os.path.join(VERIF, "check"), prop, "--tier", tier], cwd=VERIF,
                     env={"VERIF_REPO": repo, "VERIF_OUT": d + "/out"}, timeout=7200)
        viol = [l for l in out.splitlines() if l.startswith("VIOLATION") or l.startswith("   why")][:4]
        return {"check": prop, "tier": tier, "rc": rc, "detected": rc == 1 and any(l.startswith("VIOLATION") for l in out.splitlines()), "first": viol, "tail": out.strip().splitlines()[-1:] }
    finally:
        shutil.rmtree(d, ignore_errors=True)


def do_import(src, prop, tier):
    for name in sorted(os.listdir(src)):
        sd = os.path.join(src, name)
        patch, demo = os.path.join(sd, "patch.diff"), os.path.join(sd, "demo.py")
        if not (os.path.isfile(patch) and os.path.isfile(demo)):
            continue
        c = confirm(patch, demo)
        ok = c.get("applies") and c.get("tests_pass") and c.get("demo_without_patch_rc") == 0 and c.get("demo_with_patch_rc") != 0
        print("%s/%s confirm: %s" % (prop, name, "OK" if ok else "REJECTED %s" % c))
        if not ok:
            continue
        dst = os.path.join(VERIF, "seeded", "%s-%s" % (prop, name))
        os.makedirs(dst, exist_ok=True)
        for f in ("patch.diff", "demo.py", "note.txt"):
            if os.path.isfile(os.path.join(sd, f)):
                shutil.copy(os.path.join(sd, f), os.path.join(dst, f))
        res = run_check(patch, prop, tier)
        note = open(os.path.join(dst, "note.txt")).read() if os.path.isfile(os.path.join(dst, "note.txt")) else ""
        meta = {"property": prop, "name": name, "needs_to_manifest": note.strip(), "confirmed": c,
                "ran": ["patch applied to scratch copy of /repo working tree", "pytest (90 tests)", "demo.py with and without patch",
                        "VERIF_REPO=<copy> ./check %s --tier %s" % (prop, tier)],
                "checks": [res]}
        with open(os.path.join(dst, "meta.json"), "w") as fh:
            json.dump(meta, fh, indent=1)
        print("   check %s: rc=%s %s %s" % (prop, res["rc"], "DETECTED" if res["detected"] else "MISSED", res["first"][1:2]))


def do_run(prefix, tier):
    root = os.path.join(VERIF, "seeded")
    for name in sorted(os.listdir(root)):
        if prefix and not name.startswith(prefix):
            continue
        dst = os.path.join(root, name)
        meta = json.load(open(os.path.join(dst, "meta.json")))
        res = run_check(os.path.join(dst, "patch.diff"), meta["property"], tier)
        meta["checks"] = meta.get("checks", []) + [res]
        json.dump(meta, open(os.path.join(dst, "meta.json"), "w"), indent=1)
        print("%s: %s %s" % (name, "DETECTED" if res["detected"] else ("PATCH-STALE" if res.get("stale_patch") else "MISSED rc=%s" % res["rc"]), res["first"][1:2]))


if __name__ == "__main__":
    if sys.argv[1] == "import":
        do_import(sys.argv[2], sys.argv[3], sys.argv[4] if len(sys.argv) > 4 else "quick")
    else:
        do_run(sys.argv[2] if len(sys.argv) > 2 else "", sys.argv[3] if len(sys.argv) > 3 else "quick")
