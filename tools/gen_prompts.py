#!/usr/bin/env python3
"""tools/gen_prompts.py <round> [<outdir>]  - write one prompt per property for a round of seeding sub-agents.

A prompt carries ONLY the property's text (title, statement, quantifier), the scratch worktree to work in and the one-line
notes of the changes already filed for that property (so that new ones differ in site or mechanism) - nothing else from
/verif.  The worktree /tmp/w<round>-<id> is created by the caller:
    git -C /repo worktree add --detach /tmp/w<round>-<id> HEAD
"""
import json
import os
import sys

VERIF = os.path.dirname(os.path.dirname(os.path.abspath(__file__)))

ANGLES = {
    8: """Angles wanted in THIS round (earlier rounds covered other ground - see the list at the end):
  * a change that needs TWO features of the input at once (e.g. a nested variant AND a dashed name, an old format version AND an
    optional field, two architectures AND a shared file) - each feature alone behaves;
  * a change in a helper far from the obvious site (header/version handling, common helpers, base classes, comparison and sort
    keys, __eq__/__lt__/__hash__, default arguments, properties/setters) that reaches the property only indirectly;
  * a change that shows only through ONE of the API spellings (dump(path) vs dump(file object) vs dumps(); load vs loads;
    deserialize(dict); attribute assignment vs constructor argument; keyword vs positional argument);
  * a threshold / boundary / comparison slip (<= vs <, version (1, 1) vs (1, 0), the third element, the last element, the empty
    and the one-element case) that ordinary sizes never meet;
  * a change that depends on the order in which a caller does legal things (set B before A, add the child before the parent's
    paths, query before the first dump, load twice, dump to two destinations in turn);
  * a change that depends on the environment in a legal way (current directory, relative vs absolute path, trailing slash,
    umask, a pre-existing destination, read-only directory, text given as a str subclass, int given as a numpy-free int subclass).""",
}


def main():
    rnd = int(sys.argv[1])
    out = sys.argv[2] if len(sys.argv) > 2 else "/tmp/agent-prompts"
    os.makedirs(out, exist_ok=True)
    props = [json.loads(l) for l in open(os.path.join(VERIF, "properties.jsonl")) if l.strip()]
    for p in props:
        pid = p["id"]
        earlier = []
        for name in sorted(os.listdir(os.path.join(VERIF, "seeded"))):
            if not name.startswith(pid + "-"):
                continue
            note = os.path.join(VERIF, "seeded", name, "note.txt")
            first = ""
            if os.path.isfile(note):
                for line in open(note, errors="replace"):
                    if line.strip():
                        first = line.strip()
                        break
            earlier.append("  - %s: %s" % (name[len(pid) + 1:], first[:260]))
        wt = "/tmp/w%d-%s" % (rnd, pid)
        text = """You are working on the Python library productmd (release-engineering/productmd): it parses, validates and serialises
Fedora/RHEL compose metadata (composeinfo / images / rpms / modules / extra-files JSON, .treeinfo INI, .discinfo).
A git worktree of the library is at %(wt)s .  Work ONLY inside %(wt)s (and %(wt)s/seeded for what you deliver).
Do NOT read or list anything under /verif, do not touch /repo, do not commit anything.
Python to use: /venv/bin/python ; tests: cd %(wt)s && /venv/bin/python -m pytest -q -p no:cacheprovider   (90 tests).

Here is ONE semantic property users of the library rely on:

  TITLE: %(title)s

  STATEMENT: %(statement)s

  FOR ALL: %(qtext)s

TASK.  Produce THREE different, realistic changes to the library's source (productmd/*.py), each of which BREAKS this property
while the library still imports and ALL 90 existing tests still pass.  Think of slips a maintainer could really make in a refactoring,
an optimisation, a "clean-up" or a feature addition - not sabotage that any use would expose at once.  Each change must need
something SPECIFIC to manifest: a multi-step sequence of operations, an unusual but legal input, state carried from an earlier call
or another object, a particular format version, or two cooperating sites that each look fine alone.

%(angles)s

Rules for a change:
  * small (a few lines to a few dozen), plausible, no dead give-aways in comments, no randomness, no dependence on time or
    on environment variables, and it must never make the library loop forever or take minutes;
  * the three changes must differ from each other in site AND mechanism, and from the changes ALREADY made for this
    property (list at the end);
  * the violation must be of THIS property as stated (read the quantifier: the failing input must lie inside it).

For each change deliver a directory %(wt)s/seeded/<short-kebab-name>/ with
  patch.diff  - `git diff` of the change against the worktree's HEAD (one change per patch; reset the worktree between changes:
                git -C %(wt)s checkout -- productmd);
  demo.py     - a small stand-alone program (imports productmd from PYTHONPATH, uses only the public API and temp files) that
                exits 0 on the unmodified library and exits non-zero WITH the change, printing what went wrong;
  note.txt    - first line: one sentence saying what was changed and where; then what exactly is needed for it to manifest and
                why the 90 tests cannot see it.
Verify each yourself: apply, run the 90 tests (must pass), run demo.py (must fail); un-apply, run demo.py (must pass).
Leave the worktree's productmd/ unmodified at the end (patches live only in seeded/).

ALSO: if, while reading, you find inputs inside the quantifier on which the UNMODIFIED library already violates the property,
describe them (with a tiny reproducer) in %(wt)s/seeded/REMARKS.txt .  That is as valuable as a change.

Finish with a short list of the three directory names and one line each.

Changes ALREADY made for this property in earlier rounds (do not repeat their site+mechanism):
%(earlier)s
""" % {"wt": wt, "title": p["title"], "statement": p["statement"], "qtext": p["quantifier"]["text"],
                "angles": ANGLES.get(rnd, ""), "earlier": "\n".join(earlier) or "  (none)"}
        with open(os.path.join(out, "%s-r%d.txt" % (pid, rnd)), "w") as f:
            f.write(text)
    print("wrote %d prompts to %s" % (len(props), out))


if __name__ == "__main__":
    main()
