#!/venv/bin/python
"""Regenerate MANIFEST.json from the table below (keeps it valid at all times)."""
import json
import os

HERE = os.path.dirname(os.path.dirname(os.path.abspath(__file__)))
ALL = ["C%02d" % i for i in range(1, 21)]

CHECKS = {
    "C09": dict(
        technique="TLA+ state machine ImagesManifest.tla: TLC model check + TLC-generated histories replayed on the real Images class + recorded traces validated by TLC (Trace_Images.tla)",
        text="TLC exhaustively checks UniqueIdent/RefusedIsNoop on the reference model (and reproduces the as-shipped "
             "defect on the Dev_FreshVersionZero deviation); every history up to the depth bound that TLC enumerates "
             "from the same spec is replayed call by call on the real Images class (outcome class, cells, invariant on "
             "the real object), deep random behaviours come from tlc -simulate; executions of the repository's own "
             "tests and of seeded random drivers are recorded and validated as behaviours of the spec.",
        note="Trusted: TLC, the 60-line adapter that concretises abstract images (identity class I2 differs from I1 in "
             "one rotating attribute), the recorder's projection. Bounded: 4-image pool, depth 3/4 exhaustive, 9/12 random.",
        design="4 C09"),
    "C11": dict(
        technique="TLA+ state machine Forest.tla: TLC model check (requirement invariants + shipped lookup/get_variants algorithms, Dev_* deviations) + full state-graph walk replayed on the real variant classes",
        text="TLC checks UidAligned/ArchSubset/UidUnique/ParentMirror/Findable/GetVSound/RefusedNoop on the reference model "
             "and reproduces each of the four as-shipped defects on its Dev_* deviation; every distinct forest TLC reaches "
             "(12-object pool incl. duplicate ids, foreign arches, misaligned and dashed UIDs, depth 3) is rebuilt on the real "
             "classes, every outgoing add transition (accepted and refused) is executed and compared, and every lookup and "
             "get_variants filter combination is checked before and after a write/read cycle.",
        note="Trusted: TLC, the adapter's projection of .variants/.parent, three name and two arch concretisations. Bounded by the pool (<= 10 filed variants).",
        design="4 C11"),
    "C12": dict(
        technique="TLA+ builder state machines RpmsManifest.tla / Builders.tla: TLC-enumerated argument matrix and add histories replayed on the real Rpms/Modules/ExtraFiles classes, action properties checked by TLC",
        text="TLC checks RefusedIsNoop/OnlyAddressed/UnderSource/SigLower/RpmListGrows/FilesAppendOnly on the reference models while "
             "enumerating the full argument-class matrix of each add (one call) and all histories to depth 2-4 (+ tlc -simulate depth 6-7); "
             "each behaviour is replayed on the real class comparing exception class {ValueError,TypeError} and the whole public mapping "
             "after every call; dump_for_tree is compared with the spec's Strip operator on all (path, base) component sequences <= 3.",
        note="Trusted: TLC, the adapters' rendering of argument classes (2 name tables x 3 arch tables rotated). Bounded pools.",
        design="4 C12"),
    "C03": dict(
        technique="TLA+ builder state machines (RpmsManifest.tla, Builders.tla) as generators of manifests + independent JSON oracle on the real write/read cycle",
        text="Every manifest reachable by the add histories TLC enumerates is built on the real class, written, parsed by json.loads and "
             "compared with the model's mapping (an oracle independent of the library's reader), read back and compared again, and "
             "re-written byte-identically; header type and compose section checked.",
        note="Trusted: TLC, adapters. The payload is the model's mapping, so reader/writer symmetric bugs are visible.",
        design="4 C03"),
    "C10": dict(
        technique="TLA+ state machines ImagesManifest.tla / RpmsManifest.tla: NoSourceArch invariant by TLC, TLC-enumerated adds and old-format documents replayed on the real loaders, recorded traces validated by TLC",
        text="TLC checks NoSourceArch, SrcRefiled, LoadConserves on the models; every add over arch classes and every small 1.0/1.1/1.2 images "
             "document / 0.3 rpms document (src tables next to binary arches, orphans, src-only variants, nosrc/unknown cells) is loaded by the "
             "real code and the arch keys and contents of object and re-dumped payload are compared with the model's re-filing.",
        note="Trusted: TLC, adapters; the 0.3 src-table layout follows the only description there is, the legacy reader.",
        design="4 C10"),
    "C13": dict(
        technique="TLA+ lexical spec Nvra.tla (Format / ParseRef over character classes): TLC checks the round trip and fixed point on the model and enumerates the strings fed to the real parse_nvra / Rpms.add",
        text="TLC enumerates ~30k part tuples (dash/digit-heavy names, epochs, versions/releases over 7 classes, directory prefixes with "
             "dashes, dots and ':', .rpm suffix), proves ParseRef(Format(p)) = p and the canonical fixed point on the model, and every "
             "string - concretised with rotating representatives and every architecture of the library's table - must be parsed by the "
             "real code into exactly the parts it was built from; Rpms.add must file the canonical key.",
        note="Trusted: TLC, the renderer of class tokens. Bounded: segment length <= 2, 3 segments, part length <= 3.",
        design="4 C13"),
    "C14": dict(
        technique="TLA+ lexical spec ReleaseId.tla: documented grammars as predicates over a class alphabet, Create, shipped ParseImpl; TLC labels every word <= 5/6 and every ID tuple, refutes injectivity; real predicates/create/parse compared",
        text="Every word up to length 5 (quick) / 6 (thorough) over the seven character classes is labelled by the documented grammars in the "
             "spec and compared with the three real predicates and with what create_release_id refuses; every (short, version, type[, base "
             "product]) tuple of the round-trip domain is created and parsed by the real code and compared with the tuple. TLC also decides "
             "the design question: Create is not injective for dashed shorts (recorded known finding F-14a).",
        note="Trusted: TLC, RELEASE_TYPES read from the working tree, 2-3 representatives per class.",
        design="4 C14"),
    "C15": dict(
        technique="TLA+ lexical spec ComposeId.tla (Encode / DecodeRef / shipped DecodeImpl with Dev_LastWindow deviation): TLC checks the layouts and enumerates them; real create_compose_id / validator / get_date_type_respin / legacy loader compared",
        text="TLC enumerates every ID layout of the domain (digit runs as length classes: version runs of 1-10 digits, date-like versions, respins "
             "of 1-8 digits, all release/base-product/compose types), checks Valid, StartsOk and ImplOk (the repaired decoding algorithm; the "
             "as-shipped one yields the respin >= 10^7 counterexample), and each layout is concretised with seed-drawn digits on the real "
             "ComposeInfo: created id == documented layout, passes the library's validation, decodes to the fields used, also when the id is "
             "the only carrier (0.0/0.2 composeinfo documents); decode-only table of documented and unknown suffixes.",
        note="Trusted: TLC, digit drawing (leading digit non-zero). RHEL-5 variant-suffix hack outside the domain.",
        design="4 C15"),
    "C19": dict(
        technique="TLA+ product-automaton spec RegexAmbiguity.tla over NFAs extracted from the working tree's patterns: TLC decides exponential ambiguity; pumped families timed on every public validator in a killable child process",
        text="All patterns handed to `re` (AST scan + observed while the repository's tests run + module-level compiled objects) are "
             "translated to NFAs (translation validated against `re` on all words <= 4) and TLC exhaustively searches the product automaton "
             "for two different edge sequences q -> q over one word (exponential ambiguity), yielding pump words; 26 public validators/parsers "
             "incl. loads() are timed on prefix + pump^n + suffix for every pattern atom, key atom pairs and TLC's pump words: inputs <= 48 "
             "characters must finish within 2 s and doubling n may multiply the time by at most 2^5.5.",
        note="Trusted: TLC, the sre parse tree, wall-clock with generous growth thresholds. Polynomial degree is measured, not modelled (IDA not in the spec).",
        design="4 C19"),
    "C18": dict(
        technique="TLA+ protocol spec DumpProtocol.tla (validate / open / write with injected failing validation point): TLC model check incl. liveness, fault enumeration replayed on the real dump(path), recorded event orders validated by TLC (Trace_Dump.tla); inductive invariant for unbounded numbers of validation points discharged by Apalache (Apa_Dump.tla)",
        text="TLC checks FailedDumpLeavesDisk, SuccessWrites, NoValidationAfterOpen and Terminates for every (top, nested, failAt, disk state) "
             "of the reference protocol and refutes the as-shipped open-before-serialize order; validation points are measured on the working "
             "tree (every _validate* call occurrence of a valid dump of 17 sample shapes of the 7 formats), TLC enumerates failAt x {absent, "
             "previous copy}, and each failure is injected into the real dump(path) and the destination's bytes/existence compared; real "
             "invalid field values are dumped over existing files; the event order (validate*/open/write) of every recorded dump, incl. "
             "the repository's tests, is validated against the spec. Apalache discharges Init => IndInv, IndInv /\\ Next => IndInv' and IndInv => "
             "FailedDumpLeavesDisk /\\ SuccessWrites for unbounded top / nested and refutes the inductive step of the as-shipped order. The failing "
             "dump is repeated as dump(f=path), to a pathlib.Path, a relative path and destinations named *.tmp / *.bak / ... with and without a previous copy.",
        note="Trusted: TLC, the validator/open wrappers installed from /verif (no repo hooks). Failures of the JSON/INI writer itself (after serialisation) are outside the statement.",
        design="4 C18"),
    "C06": dict(
        technique="TLA+ rule-table spec Validation.tla (documented field constraints x validation walk): TLC enumerates every single-slot corruption of measured node instances; real dumps() compared",
        text="The spec holds one rule per (node kind, field, invalid class) for all seven formats plus the validation walk; TLC checks walk "
             "completeness against node instances measured on 17 real sample objects and enumerates every (sample, node instance, field, "
             "invalid class); each is applied to the real object through the public attribute and dumps() must raise TypeError/ValueError; "
             "conversely every sample and one valid object per documented enumeration value (5 compose types, 9 release types, 10 labels, "
             "variant/image types, formats, all 61 architectures) must be written.",
        note="Trusted: TLC, the token->value table, sample builders. One corruption at a time; value classes, not all values.",
        design="4 C06"),
    "C07": dict(
        technique="TLA+ rule-table spec Validation.tla, document side: TLC enumerates slot corruptions, header type swaps, mangled versions and deleted required keys; documents edited by independent JSON/INI tools and fed to the real loads()",
        text="Same rule table applied to the dumped documents (load-side column: reject / documented coercion), plus header type swaps to each "
             "other format's type at versions 1.1/1.2/2.0, eight malformed version strings and every required key or section deleted "
             "(Required set in the spec, from the format docs); loads() must raise, and a value accepted by a documented coercion must yield "
             "an object the writer accepts.",
        note="Trusted: TLC, independent RawConfigParser/json editing of real dump text.",
        design="4 C07"),
    "C16": dict(
        technique="TLA+ specs ChunkedDigest.tla (read loop; recorded read/update traces validated by TLC) and Checksums.tla (path normalisation, [checksums] entry kinds, add_checksum state machine) as generators replayed on the real code",
        text="(a) the real compute_checksum runs on files straddling multiples of the observed 1 MiB chunk for every fixed-length hashlib "
             "algorithm: digest equals hashlib over the whole content and the recorded read()/update() sequence is validated by TLC as a "
             "behaviour of ChunkedDigest (every byte fed once, in order); (b) every relative/absolute path of <= 4 components over "
             "{x, y, ., .., //} through the real Checksums.add against real files; (c) every [checksums] section of <= 3 entries over 8 entry "
             "kinds: each path maps to its own entry or the document is rejected, also after a write/read cycle; (d) every add_checksum "
             "history of length <= 4/5 with NeverReplaced checked by TLC.",
        note="Trusted: TLC, hashlib as the reference digest, open()/hashlib.new() observation wrappers.",
        design="4 C16"),
    "C20": dict(
        technique="TLA+ configuration spec ComposeLayout.tla (directory layouts, probing precedence, accessor results): TLC enumerates every configuration; each is materialised on disk and opened by the real Compose; ComposeAccess.tla (accessors as a state machine: access / edit / file replaced, corrupted, removed / metadata appearing elsewhere): TLC model check of LoadedOnce, OnlyAccessFills, ServesDocumentStep, FirstAccessIsDirectLoad, Frame, three deviations refuted, every generated history replayed on one real Compose object, random executions of the real object validated by TLC against Trace_ComposeAccess.tla; inductive invariant for unbounded content numbers discharged by Apalache (Apa_ComposeAccess.tla)",
        text="TLC enumerates ~4k (quick) / ~9k configurations: states of the path, compose/, two legacy sub-directories x manifest file names "
             "(current, legacy, both, none) x content (valid, valid-empty, not JSON, empty, other format) x undecodable composeinfo x trailing "
             "slash, checks Prefers/Exists on the model and emits the allowed resolution set and each accessor's expected result; the real "
             "Compose must resolve into the allowed set, every accessor equals a direct load of an acceptable file, is the same object on "
             "re-access after the files were replaced, and missing/undecodable files raise RuntimeError naming the location/file. "
             "ComposeAccess.tla: TLC explores every reachable state of the accessor machine (18 starting directories, up to 1 (quick) / 2 replaced "
             "files or edits) and every history of length 3 per pair of kinds (thorough: also length 4 for the two-name kind) plus -simulate histories of length 12; each history "
             "runs on one real Compose over a real directory in the direct / compose/ / legacy layout, files really replaced, corrupted (six "
             "undecodable contents) or removed between accesses; document served, == direct load, identity, the caller's latest edit and the "
             "RuntimeError text are compared after every access.",
        note="Trusted: TLC, temp-dir materialisation from real dumps. Left open where the statement is silent (several legacy dirs, both names). HTTP not exercised.",
        design="4 C20"),
    "C01": dict(
        technique="TLA+ document spec ComposeInfoDoc.tla (abstract compose -> documented JSON layout, normalisations): TLC checks structural invariants of Ser and enumerates descriptions; real write / independent parse / read / rewrite compared",
        text="TLC enumerates compose descriptions in four slices (forest shapes x 4 variant types incl. layered-product and a dashed top-level UID; "
             "arch sets; path tables with empty and foreign-arch values over the 14 documented categories; release/base-product/compose "
             "sections over every type, label and flag) with the documented document and checks TopDetect, UidOnce, ChildArch, "
             "FinalOnlyWithLabel, StoredInArches on it; each is built through the public API, the written file is compared with the spec's "
             "document by json.loads (oracle independent of the library's reader), the re-read object is compared field by field with the "
             "input under the documented normalisations, and re-written byte for byte.",
        note="Trusted: TLC, the concretiser (3 id tables x 3 arch tables x 3 text tables rotated), containment comparison for the document (extras tolerated), exact for re-read fields.",
        design="4 C01"),
    "C02": dict(
        technique="TLA+ document spec ImagesDoc.tla (manifests over a six-image pool -> documented JSON layout): TLC enumerates manifests; real write / independent parse / read / rewrite compared",
        text="TLC enumerates every manifest filing pool images (field classes of the quantifier) into <= 2-3 cells with <= 2-3 images each, the "
             "same image possibly in several cells, and checks NothingLost / UnifiedOnlyWhenTrue / NoEmptyCell on the documented layout; the "
             "real manifest is built with Images.add, the written file must equal the spec's document cell by cell (sorted by path, unified "
             "keys only when unified), the re-read manifest must hold the same number of images per cell with all fifteen attributes equal "
             "(type included), compose intact, re-written byte for byte. Types/formats rotate over all supported values.",
        note="Trusted: TLC, concretiser. Identity-compatible pools only (collisions are C09).",
        design="4 C02"),
    "C04": dict(
        technique="TLA+ document spec TreeInfoDoc.tla (abstract tree -> documented INI layout incl. [general]; discinfo slice): TLC enumerates trees; real write / independent INI parse / read / rewrite compared",
        text="TLC enumerates trees in slices (top-level variants incl. both dashed-UID shapes keyed by uid or id, children of every type, a "
             "grandchild, path-kind subsets rotating over the seven kinds, binary/src, platforms, layered, image tables, stage2, media, "
             "checksums) with the documented sections and checks SectionPerVariant, TreeListsTops, ArchInPlatforms, GeneralMirrors; text values "
             "rotate over the quantifier's value classes. Real file vs spec document via RawConfigParser, re-read facts vs input, re-dump bytes. "
             "discinfo: 80 class combinations. Known findings F-04b (dashed variant keyed by id) and F-04c ('%' interpolation) are reported by signature.",
        note="Trusted: TLC, independent INI reader, concretiser.",
        design="4 C04"),
    "C17": dict(
        technique="TLA+ document spec TreeInfoDoc.tla: [general] defined in the spec as the function of the authoritative sections the statement gives; real dump(main_variant=...) parsed independently and compared; compatibility sections fed to the real legacy reader",
        text="For every tree of the C04 generation (plus float timestamps, every main-variant choice, packages/repository present, absent or only "
             "as source_*), each [general] key of the real output must equal the value the spec computes from [release]/[tree]/[variant-*] "
             "and mirror those sections inside the same file; for undashed main variants the compatibility sections alone are loaded by the "
             "real pre-productmd reader and compared with the tree.",
        note="Trusted: TLC, independent INI reader. Dashed variants keyed by id excluded (F-04b, reported under C04).",
        design="4 C17"),
    "C05": dict(
        technique="TLA+ version-table spec Upgrade.tla (Down steps per format/version, consistency checked by TLC) driving down-conversion of the documents enumerated by the document specs; real loaders compared fact by fact; fixture corpus",
        text="Upgrade.tla states what a document of each older version lacks, renames or lays out differently and what each missing fact becomes; "
             "TLC checks Monotone, OnceOnly, DropsHaveDefaults, EveryOldVersionDiffers and emits the steps per (format, version). Objects "
             "enumerated by ComposeInfoDoc/ImagesDoc/RpmsGen/TreeInfoDoc are written by the real code, down-converted by independent JSON/INI "
             "editing to composeinfo 0.0/0.2/0.3/1.0/1.1, images 1.0/1.1, rpms 0.3/1.0/1.1, treeinfo 0.0/0.3/1.0/1.1, loaded and compared fact by "
             "fact (dropped facts take their documented default), then written (current version + type), re-read and re-written byte for "
             "byte; every shipped treeinfo/discinfo/images/composeinfo fixture goes through the same idempotence facts. An acceptance probe "
             "per version guards against vacuity. Known finding F-05b by signature.",
        note="Trusted: TLC, the Python implementation of each Down step, the generators of C01-C04. Documents the library rejects in an old version are outside the claim.",
        design="4 C05"),
    "C08": dict(
        technique="TLA+ confluence spec Canon.tla (insertion histories over a content set, repeated dumps): TLC enumerates all N! histories; replayed per part kind on the real classes in separate interpreters per PYTHONHASHSEED",
        text="TLC enumerates every insertion order of 4 (quick) / 5 parts followed by 2-3 dumps; for 11 unordered part kinds of the quantifier "
             "each history is replayed on the real classes in fresh interpreters with PYTHONHASHSEED in {0,1,2} (quick) or "
             "{0,1,2,3,7,42,12345,random}; all outputs of one content class must be byte-identical across orders, repeated dumps and hash "
             "seeds; JSON must be key-sorted with indent 4, treeinfo sections/options sorted (independent reader).",
        note="Trusted: TLC, one fixed content per part kind (5 parts).",
        design="4 C08"),
}


def main():
    checks = []
    for pid in ALL:
        if pid not in CHECKS:
            continue
        c = CHECKS[pid]
        checks.append({
            "property_id": pid,
            "quick_cmd": "./check %s --tier quick" % pid,
            "thorough_cmd": "./check %s --tier thorough" % pid,
            "evidence_file": "evidence/%s.json" % pid,
            "replay_cmd_template": "./check %s --replay {path}" % pid,
            "engine": "tlc",
            "level_claimed": {"category": "model_checking", "text": c["text"], "design_ref": "DESIGN.md section " + c["design"]},
            "level_note": c["note"],
            "technique": c["technique"],
        })
    na = [{"property_id": p, "reason": "check not built yet in this round (planned with the same TLA+/TLC technique, see DESIGN.md section 4)"}
          for p in ALL if p not in CHECKS]
    m = {
        "version": 1,
        "setup_cmd": "./setup.sh",
        "hooks": {
            "guard": "PRODUCTMD_VERIF",
            "enable": "no source hooks: ./check sets PRODUCTMD_VERIF=1 and wraps public productmd methods from /verif/harness/verif_recorder.py at import time; /repo is imported from its working tree (VERIF_REPO overrides for self-tests)",
            "baseline_off_cmd": "cd /repo && /venv/bin/python -m pytest -ra -q -p no:cacheprovider --timeout=900 --continue-on-collection-errors",
            "source_commits": [],
            "add_only": True,
        },
        "engines": [{"name": "tlc", "path": "/opt/veriftools/tla/tla2tools.jar", "serves_properties": sorted(CHECKS),
                     "kind_free_text": "TLA+ specifications in spec/, model-checked and used as behaviour generators / trace validators by TLC 1.8; Python harness binds them to the real library"}],
        "checks": checks,
        "not_applicable": na,
        "notes": "All checks: ./check <id> [--tier quick|thorough] [--replay path]; exit 2 = machinery failure. Known findings: known_findings.json.",
    }
    with open(os.path.join(HERE, "MANIFEST.json"), "w") as fh:
        json.dump(m, fh, indent=1)
    print("MANIFEST.json: %d checks, %d not applicable" % (len(checks), len(na)))


if __name__ == "__main__":
    main()
