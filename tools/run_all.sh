#!/bin/bash
# tools/run_all.sh [quick|thorough] [ids...] - run checks sequentially, print rc and wall time per property
tier=${1:-quick}; shift
ids=${@:-C01 C02 C03 C04 C05 C06 C07 C08 C09 C10 C11 C12 C13 C14 C15 C16 C17 C18 C19 C20}
cd "$(dirname "$0")/.."
for id in $ids; do
  s=$(date +%s)
  out=$(./check $id --tier $tier 2>&1); rc=$?
  e=$(date +%s)
  echo "$id $tier rc=$rc $((e-s))s :: $(echo "$out" | tail -1 | cut -c1-200)"
  if [ $rc -ne 0 ]; then echo "$out" | grep -E "VIOLATION|why|MACHINERY" | head -5 | cut -c1-300; fi
done
