"""C12/C03 code -> spec: recorded Rpms traces validated against Trace_Rpms.tla.

The recorder logs raw arguments; this module abstracts them into the spec's vocabulary WITHOUT the library's help:
an independent reading of N-E:V-R.A (directory prefix and '.rpm' suffix dropped; arch after the last dot, release
after the last dash, version after the dash before it, epoch before ':' in the version part), canonical keys,
source-ness from the package arch, lower-cased signing keys, relative non-empty paths, the documented arch table."""
import json

from . import core, traces as T, enums


def canon(s):
    """-> (canonical key, is_source) or None when the name does not read as N-E:V-R.A with an epoch."""
    if not isinstance(s, str) or ":" not in s:
        return None
    s = s.rsplit("/", 1)[-1]
    if s.endswith(".rpm"):
        s = s[:-4]
    if "." not in s:
        return None
    rest, arch = s.rsplit(".", 1)
    if rest.count("-") < 2 or not arch:
        return None
    rest, release = rest.rsplit("-", 1)
    name, ver = rest.rsplit("-", 1)
    epoch = "0"
    if ":" in ver:
        epoch, ver = ver.split(":", 1)
        if not epoch.isdigit() or not epoch.isascii():
            return None
    if not name or not ver or not release or ":" in name or ":" in release:
        return None
    return "%s-%d:%s-%s.%s" % (name, int(epoch), ver, release, arch), arch in ("src", "nosrc")


def _s(x):
    return "<null>" if x is None else x


def prepare(trs):
    """-> (traces in the spec's vocabulary, constants).  A trace ends (unjudged from there) at the first event that cannot
    be abstracted faithfully: non-text arguments, a load of a pre-1.0 layout, a refused load."""
    out, rpm, lower, okpaths, binarch = [], {}, {"<null>": "<null>"}, set(), set()
    bins = set(a for a in enums.RPM_ARCHES if a not in ("src", "nosrc"))
    for t in trs:
        evs = []
        for e in t["events"]:
            if e["op"] == "add":
                a = e["args"]
                if any(not isinstance(a[k], str) for k in ("variant", "arch", "nevra", "path", "category")) or \
                        not (a["sigkey"] is None or isinstance(a["sigkey"], str)) or not (a["srpm_nevra"] is None or isinstance(a["srpm_nevra"], str)) \
                        or not a["variant"]:
                    break
                c = canon(a["nevra"])
                r = c[0] if c else "raw:" + a["nevra"]
                rpm[r] = {"src": bool(c and c[1])}
                srpm, sform = "none", "canon"
                if a["srpm_nevra"] is not None:
                    sc = canon(a["srpm_nevra"])
                    srpm = sc[0] if sc else "raw:" + a["srpm_nevra"]
                    sform = "canon" if sc else "bad"
                    rpm.setdefault(srpm, {"src": bool(sc and sc[1])})
                if a["arch"] in bins:
                    binarch.add(a["arch"])
                if a["path"] and not a["path"].startswith("/"):
                    okpaths.add(a["path"])
                sig = _s(a["sigkey"])
                lower[sig] = sig if a["sigkey"] is None else a["sigkey"].lower()
                lower.setdefault(lower[sig], lower[sig])
                ev = {"op": "add", "v": a["variant"], "a": a["arch"], "r": r, "form": "canon" if c else "bad", "path": a["path"], "sig": sig,
                      "cat": a["category"], "srpm": srpm, "sform": sform,
                      "out": "ok" if e["out"] == "ok" else ("refused" if e["out"] in ("ValueError", "TypeError") else e["out"]),
                      "n": e["n"], "nv": e["nv"], "nt": e["nt"], "stored_sig": "?", "stored_path": "?"}
                if e["out"] == "ok":
                    st = [x for x in (e.get("stored") or []) if x["rpm"] == r and x["srpm"] == (srpm if srpm != "none" else r)]
                    if len(st) == 1:
                        ev["stored_sig"], ev["stored_path"] = _s(st[0]["sigkey"]), st[0]["path"]
                evs.append(ev)
            elif e["op"] == "del":
                if not isinstance(e["v"], str):
                    break
                evs.append({"op": "del", "v": e["v"], "out": e["out"], "n": e["n"], "nv": e["nv"], "nt": e["nt"]})
            elif e["op"] == "load":
                if e["out"] != "ok" or "doc" not in e:
                    break
                doc = []
                for d in e["doc"]:
                    sig = _s(d["sigkey"])
                    lower.setdefault(sig, sig if d["sigkey"] is None else d["sigkey"].lower())
                    lower.setdefault(lower[sig], lower[sig])
                    for k in (d["rpm"], d["srpm"]):
                        c = canon(k)
                        rpm.setdefault(k, {"src": bool(c and c[1])})
                    if d["a"] in bins:
                        binarch.add(d["a"])
                    doc.append({"v": d["v"], "a": d["a"], "srpm": d["srpm"], "rpm": d["rpm"], "path": d["path"], "sigkey": sig, "category": d["category"]})
                evs.append({"op": "load", "doc": doc, "n": e["n"], "nv": e["nv"], "nt": e["nt"]})
            else:
                break
        if evs:
            out.append({"tid": t["tid"], "events": evs})
    rpm.setdefault("none", {"src": False})
    return out, {"rpm": rpm, "lower": lower, "okpaths": sorted(okpaths), "binarch": sorted(binarch)}


def _validate(ctx, source, raw, meta, fails_to):
    trs, consts = prepare(raw)
    if not trs:
        raise core.MachineryError("no recorded Rpms traces from %s" % source)
    total = 0
    for i in range(0, len(trs), 400):
        group = trs[i:i + 400]
        verdicts = T.validate_batch(ctx, "Trace_Rpms", "Trace_Rpms.cfg", group, extra=consts)
        by = {t["tid"]: t for t in group}
        inv = verdicts.pop("__invariant__", None)
        if inv:
            t = group[inv[2] - 1] if inv[2] else None
            fails_to({"source": source, "meta": meta, "trace": t, "tlc": inv[3]}, "recorded Rpms execution reaches a state violating %s" % inv[1])
            continue
        for tid, (v, at) in verdicts.items():
            total += 1
            if v == "REJECT":
                t = by[tid]
                nxt = t["events"][at - 1] if 0 < at <= len(t["events"]) else None
                fails_to({"source": source, "meta": meta, "trace": t, "rejected_at": at, "event": nxt},
                         "recorded execution is not a behaviour of RpmsManifest: event %d %s" % (at, json.dumps(nxt)[:500]))
    return trs, total


def validate(ctx):
    n_driver = 150 if ctx.quick else 2000
    total = 0
    for source, raw, meta in (("testsuite", T.record_testsuite().get("rpms", []), {}),
                              ("driver", T.run_driver("rpms", ctx.seed, n_driver).get("rpms", []), {"seed": ctx.seed, "n": n_driver})):
        trs, n = _validate(ctx, source, raw, meta, lambda case, why: ctx.fail(case, why, "rpms-trace"))
        total += n
        ctx.notes["rpms_traces_%s" % source] = len(trs)
        ctx.notes["rpms_trace_events_%s" % source] = sum(len(t["events"]) for t in trs)
        ctx.sample({"kind": "rpms-trace", "source": source, "trace": trs[0]["events"][:3]}, limit=8)
    ctx.traces += total
    ctx.evaluations += total
    ctx.distinct_count += total


def replay(info):
    ctx = core.Ctx(info["property"], "quick", info["case"].get("meta", {}).get("seed", 0))
    src = info["case"]["source"]
    raw = T.record_testsuite().get("rpms", []) if src == "testsuite" else \
        T.run_driver("rpms", info["case"]["meta"]["seed"], info["case"]["meta"]["n"]).get("rpms", [])
    fails = []
    _validate(ctx, src, raw, info["case"].get("meta", {}), lambda case, why: fails.append(why))
    return fails
