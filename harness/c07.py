"""C07 Documents violating a documented constraint are rejected on load (Validation.tla, document side)."""
from . import core, corruptions as K, c06


def run(ctx):
    ctx.rule = ("the rule table of Validation.tla applied to documents: for every sample document every (node instance, field, invalid "
                "class) whose load side is reject/coerce, plus header type swaps (6 other types x versions 1.1/1.2/2.0), 8 mangled "
                "versions and every required key/section deleted; documents are edited with independent JSON/INI/line tools and fed to "
                "loads(); coercible values may load only into an object that can be written. non-trivial = distinct document corruption")
    cases = [c for c in c06.gen(ctx, "obj") if c["load"] != "na"]
    docs = c06.gen(ctx, "doc")
    ctx.exhaustive = True
    ctx.evaluate(K.eval_load, cases, label="corrupt-load", chunk=50)
    ctx.evaluate(K.eval_doc, docs, label="corrupt-doc", chunk=50)


def replay(info):
    return K.eval_doc(info["case"]) if info["kind"] == "corrupt-doc" else K.eval_load(info["case"])
