"""Signature predicates for known_findings.json.

A predicate receives the failure `info` ({"property","kind","case","why"}) and the finding's
signature dict and says whether this failing *input* is the recorded finding.  They look at
the input of the case, never only at the property id, so a different violation of the same
property is still reported.
"""

SIGNATURES = {}


def signature(name):
    def deco(fn):
        SIGNATURES[name] = fn
        return fn
    return deco
