"""Signature predicates for known_findings.json.

A predicate receives the failure `info` ({"property","kind","case","why"}) and the finding's
signature dict and says whether this failing *input* is the recorded finding.  They look at
the input of the case, never only at the property id, so a different violation of the same
property is still reported.
"""

SIGNATURES = {}


def signature(name):
    def deco(fn):
        SIGNATURES[name] = fn
        return fn
    return deco


@signature("release_id_dashed_short_ga")
def _rid_dashed_ga(info, sig):
    """C14 F-14a: the ID was created from a dashed short name (or dashed base-product short name) with the
    implicit type 'ga' - the only inputs for which the ID format cannot be split unambiguously."""
    if info.get("kind") != "id" or "parse_release_id" not in info["why"]:
        return False
    x = info["case"]["x"]
    main = "-" in x["short"] and x["type"] == "ga"
    bp = bool(x.get("bp")) and "-" in x["bp_short"] and x["bp_type"] == "ga"
    return main or bp


@signature("treeinfo_dashed_top_keyed_by_id")
def _ti_dashed_by_id(info, sig):
    """C04 F-04b: a top-level variant with a dashed UID was added with the default add(v), i.e. keyed by its id."""
    if info.get("kind") != "tree":
        return False
    o = info["case"]["obj"]
    if not (o["keyby"] == "id" and any(t in ("S-o", "S-T") for t in o["tops"])):
        return False
    why = info["why"]
    if "re-read tree cannot be written: KeyError" in why:
        return True                                   # the requested main variant key (the id) no longer exists
    if "differs in <" in why:
        where = why.split("differs in <")[1].split(">")[0].split(",")
        return all(w in ("general/variant", "general/variants", "general/packagedir", "general/repository") for w in where)
    return False


@signature("treeinfo_percent_in_value")
def _ti_percent(info, sig):
    """C04 F-04c: a text value contains '%' (ConfigParser interpolation is applied on write and on read)."""
    if not (info.get("kind") == "tree" and bool(info["case"].get("pct"))):
        return False
    why = info["why"]
    return ("nterpolation" in why or "release." in why or "base_product." in why or ".name:" in why
            or "differs in <general/family" in why or "differs in <general/name" in why)


@signature("images_1_0_pair_differing_only_in_subvariant")
def _img10_subvariant_pair(info, sig):
    """C05 F-05b: an images 1.0 document holding two images that only 'subvariant' (new in 1.1) would distinguish."""
    return (info.get("kind") == "images-upgrade" and bool(info["case"].get("subvariant_pair")) and info["case"]["ver"] == 100
            and "cannot be re-read" in info["why"] and "UNIQUE_IMAGE_ATTRIBUTES" in info["why"])


@signature("ini_lone_surrogate_text")
def _ini_surrogate(info, sig):
    """C18 F-18c: a treeinfo / discinfo text value holds a lone surrogate; the text is built before the destination is opened,
    but only the file object can tell that it cannot be encoded."""
    return (info.get("kind") == "payload" and info["case"].get("fmt") in ("treeinfo", "discinfo")
            and "lone surrogate" in info["case"]["payload"] and "the dump was rejected" in info["why"])


@signature("treeinfo_fanout_document")
def _ti_fanout(info, sig):
    """C19 F-19c / F-19d: the two document families whose reading fans out (sig["family"])."""
    return info.get("kind") == "fanout" and info["case"].get("family") == sig.get("family")
