"""Signature predicates for known_findings.json.

A predicate receives the failure `info` ({"property","kind","case","why"}) and the finding's
signature dict and says whether this failing *input* is the recorded finding.  They look at
the input of the case, never only at the property id, so a different violation of the same
property is still reported.
"""

SIGNATURES = {}


def signature(name):
    def deco(fn):
        SIGNATURES[name] = fn
        return fn
    return deco


@signature("release_id_dashed_short_ga")
def _rid_dashed_ga(info, sig):
    """C14 F-14a: the ID was created from a dashed short name (or dashed base-product short name) with the
    implicit type 'ga' - the only inputs for which the ID format cannot be split unambiguously."""
    if info.get("kind") != "id" or "parse_release_id" not in info["why"]:
        return False
    x = info["case"]["x"]
    main = "-" in x["short"] and x["type"] == "ga"
    bp = bool(x.get("bp")) and "-" in x["bp_short"] and x["bp_type"] == "ga"
    return main or bp
