"""C18 A dump that fails validation leaves the destination file untouched (DumpProtocol.tla)."""
import json
import os
import shutil
import tempfile

from . import core, samples, traces as T


def _install():
    os.environ["PRODUCTMD_VERIF"] = "1"
    import sys
    if os.path.dirname(__file__) not in sys.path:
        sys.path.insert(0, os.path.dirname(__file__))
    import verif_recorder as R
    R.install()            # idempotent; wraps validators, dump() and open() in this process only
    return R


def measure(R, tmp):
    """Validation points of a valid dump of every format/shape, measured on the working tree."""
    out = {}
    for fmt in samples.FORMATS:
        for shape in range(samples.NSHAPES[fmt]):
            obj = samples.build(fmt, shape)
            path = os.path.join(tmp, "m_%s_%d" % (fmt, shape))
            R.TRACES.pop("dump", None)
            R.DUMP["inject"] = None
            obj.dump(path)
            tr = list(R.TRACES.get("dump", {}).values())
            if len(tr) != 1 or len(tr[0]) != 1:
                raise core.MachineryError("dump of %s/%d was not recorded exactly once" % (fmt, shape))
            ev = tr[0][0]
            if ev["failAt"] != 0 or ev["events"][-1] != "write":
                raise core.MachineryError("valid sample %s/%d did not dump cleanly: %s" % (fmt, shape, ev))
            out["%s_%d" % (fmt, shape)] = {"top": ev["top"], "nested": ev["nested"], "points": ev["points"], "good": open(path).read()}
    return out


def run_case(R, tmp, case, meas):
    """Inject one failure into a real dump(path); compare the destination with what was there before."""
    fmt, shape = case["fmt"].rsplit("_", 1)
    obj = samples.build(fmt, int(shape))
    path = os.path.join(tmp, "dest_" + case["fmt"])
    link = path + ".hardlink"
    for p in (path, link):
        if os.path.exists(p):
            os.unlink(p)
    old = meas[case["fmt"]]["good"] + "\n# previous good copy\n"
    if case["failAt"]:
        # the object has a history: it was written successfully before (to this very path and elsewhere); what is at the
        # destination when the failing dump starts is NOT what this object wrote
        R.DUMP["inject"] = None
        obj.dump(path)
        obj.dump(path + ".elsewhere")
        os.unlink(path)
        os.unlink(path + ".elsewhere")
    if case["disk0"] in ("Old", "OldLinked"):
        with open(path, "w") as fh:
            fh.write(old)
        if case["disk0"] == "OldLinked":
            os.link(path, link)
    R.TRACES.pop("dump", None)
    R.DUMP["inject"] = case["failAt"] or None
    raised = None
    try:
        obj.dump(path)
    except (ValueError, TypeError) as exc:
        raised = exc
    finally:
        R.DUMP["inject"] = None
    tr = [e for evs in R.TRACES.get("dump", {}).values() for e in evs]
    now = open(path).read() if os.path.exists(path) else None
    fails = []
    pt = meas[case["fmt"]]["points"][case["failAt"] - 1] if case["failAt"] else None
    if case["failAt"] and raised is None:
        fails.append("%s: injected failure at validation point %d (%s) did not make dump() raise" % (case["fmt"], case["failAt"], pt))
    if case["failAt"] == 0:
        if raised is not None or now != meas[case["fmt"]]["good"]:
            fails.append("%s: valid dump did not write the expected file (raised=%r)" % (case["fmt"], raised))
    elif case["disk0"] == "OldLinked" and (now != old or not os.path.exists(link) or open(link).read() != old):
        fails.append("%s: dump failed at validation point %d (%s) and the previous (hard-linked) file was %s"
                     % (case["fmt"], case["failAt"], pt, "deleted" if now is None else "changed"))
    elif case["disk0"] == "Old" and now != old:
        fails.append("%s: dump failed at validation point %d (%s) and the previous file was %s"
                     % (case["fmt"], case["failAt"], pt, "deleted" if now is None else "replaced by %d bytes" % len(now)))
    elif case["disk0"] == "Absent" and now is not None:
        fails.append("%s: dump failed at validation point %d (%s) and left a new %d-byte file behind"
                     % (case["fmt"], case["failAt"], pt, len(now)))
    if case["failAt"] and not fails:
        # the same failing dump through the other spellings of the call and to destinations with other names: whatever the
        # library makes of such a destination (supporting a path-like object is not the claim), the file at that place is
        # what it was.  Names: what callers use for their own write-then-rename idiom and for backups.
        import pathlib
        variants = [("a pathlib.Path", path, lambda d: ((pathlib.Path(d),), {})),
                    ("dump(f=<path>)", path, lambda d: ((), {"f": d}))]
        for suffix in (".tmp", ".json.tmp", ".bak", ".new", "~", ".lock", ".orig", ".part"):
            variants.append(("a destination named *%s" % suffix, path + suffix, lambda d: ((d,), {})))
            variants.append(("a destination named *%s via dump(f=<path>)" % suffix, path + suffix, lambda d: ((), {"f": d})))
        rel = os.path.relpath(path)
        if not rel.startswith(".."):
            variants.append(("a relative path", rel, lambda d: ((d,), {})))
        for how, dest, mk in variants:
            if dest != path:
                if case["disk0"] in ("Old", "OldLinked"):
                    with open(dest, "w") as fh:
                        fh.write(old)
                elif os.path.exists(dest):
                    os.unlink(dest)
            before = open(dest).read() if os.path.exists(dest) else None
            R.DUMP["inject"] = case["failAt"]
            a, kw = mk(dest)
            try:
                obj.dump(*a, **kw)
            except Exception:
                pass
            finally:
                R.DUMP["inject"] = None
            now2 = open(dest).read() if os.path.exists(dest) else None
            if dest != path and os.path.exists(dest):
                os.unlink(dest)
            if now2 != before:
                fails.append("%s: dump to %s failed at validation point %d (%s) and %s"
                             % (case["fmt"], how, case["failAt"], pt, "left a new file behind" if before is None else
                                ("deleted the previous file" if now2 is None else "replaced the previous file by %d bytes" % len(now2))))
                break
    if case["failAt"] and not fails:
        # after the refused dump the same object, now valid again, is written to the same destination
        try:
            obj.dump(path)
            if open(path).read() != meas[case["fmt"]]["good"]:
                fails.append("%s: a valid dump following the refused one (point %d) wrote something else than a first dump would" % (case["fmt"], case["failAt"]))
        except Exception as exc:
            fails.append("%s: a valid dump following the refused one (point %d) raised %s: %s" % (case["fmt"], case["failAt"], type(exc).__name__, exc))
        tr = tr + [e for evs in R.TRACES.get("dump", {}).values() for e in evs if e not in tr]
    return fails, tr


def _p_image_checksum_bytes():
    m = samples.images(1)
    sorted(m.images["Server"]["x86_64"], key=lambda i: i.path)[0].checksums = {"md5": b"0123456789abcdef0123456789abcdef"}
    return m


def _p_images_mixed_keys():
    m = samples.images(1)
    m.images[1] = m.images["Client"]
    return m


def _p_rpms_sigkey_bytes():
    m = samples.rpms(1)
    for v in m.rpms:
        for a in m.rpms[v]:
            for sr in m.rpms[v][a]:
                for r in m.rpms[v][a][sr]:
                    m.rpms[v][a][sr][r]["sigkey"] = b"f5282ee4"
    return m


def _p_modules_rpm_set():
    m = samples.modules(1)
    for v in m.modules:
        for a in m.modules[v]:
            for uid in m.modules[v][a]:
                m.modules[v][a][uid]["rpms"] = set(["a-0:1-1.noarch"])
    return m


def _p_extra_files_size_object():
    m = samples.extra_files(1)
    m.extra_files["Server"]["x86_64"][0]["size"] = object()
    return m


def _p_composeinfo_arch_bytes():
    ci = samples.composeinfo(0)
    ci["Server-optional"].arches = set([b"x86_64"])
    ci["Server"].arches = set(["ppc64le", "x86_64", b"x86_64"][1:])
    return ci


SURROGATE = "caf\udce9"        # what os.listdir / os.fsdecode return for a file name that is not valid UTF-8


def _p_surrogate(fmt):
    def make():
        o = samples.build(fmt, 1)
        if fmt == "composeinfo":
            o["Server"].paths.os_tree["x86_64"] = "Server/x86_64/" + SURROGATE
        elif fmt == "images":
            sorted(o.images["Server"]["x86_64"], key=lambda i: i.path)[0].volume_id = SURROGATE
        elif fmt == "rpms":
            for v in o.rpms:
                for a in o.rpms[v]:
                    for sr in o.rpms[v][a]:
                        for r in o.rpms[v][a][sr]:
                            o.rpms[v][a][sr][r]["path"] = "Packages/" + SURROGATE
        elif fmt == "modules":
            o.compose.label = None
            for v in o.modules:
                for a in o.modules[v]:
                    for uid in o.modules[v][a]:
                        o.modules[v][a][uid]["modulemd_path"]["binary"] = "repodata/" + SURROGATE
        elif fmt == "extra_files":
            o.extra_files["Server"]["x86_64"][0]["file"] = "Server/x86_64/os/" + SURROGATE
        elif fmt == "treeinfo":
            o["Server"].paths.packages = "Pack" + SURROGATE
        elif fmt == "discinfo":
            o.description = "Fedora " + SURROGATE
        return o
    return make


PAYLOAD = {"an image checksum value given as bytes": _p_image_checksum_bytes, "variant keys of mixed types in Images.images": _p_images_mixed_keys,
           "an rpm signing key given as bytes": _p_rpms_sigkey_bytes, "a module RPM list given as a set": _p_modules_rpm_set,
           "an extra file size that is no number": _p_extra_files_size_object, "a variant arch given as bytes": _p_composeinfo_arch_bytes}


def _p_extreme(fmt, value):
    """numbers of the right type at the rim of what anything downstream (the OS, time functions) can take"""
    def make():
        o = samples.build(fmt, 1)
        if fmt == "discinfo":
            o.timestamp = value
        elif fmt == "treeinfo":
            o.tree.build_timestamp = value
        elif fmt == "images":
            im = sorted(o.images["Server"]["x86_64"], key=lambda i: i.path)[0]
            im.mtime = int(value) if value == value and abs(value) != float("inf") else 10 ** 40
            im.size = 10 ** 40
        elif fmt == "composeinfo":
            o.compose.respin = 10 ** 40
        return o
    return make


for _fmt in ("discinfo", "treeinfo", "images", "composeinfo"):
    for _n, _v in (("1e30", 1e30), ("-1e30", -1e30), ("inf", float("inf")), ("nan", float("nan"))):
        PAYLOAD["%s: a number of the right type beyond any real time or size (%s)" % (_fmt, _n)] = _p_extreme(_fmt, _v)
for _fmt in samples.FORMATS:
    PAYLOAD["%s: a text value with a lone surrogate (undecodable file name)" % _fmt] = _p_surrogate(_fmt)


def eval_payload(name, make, disk0, tmp):
    obj = make()
    path = os.path.join(tmp, "payload_dest")
    if os.path.exists(path):
        os.unlink(path)
    old = "the last good copy\n" * 50
    if disk0 == "Old":
        with open(path, "w") as fh:
            fh.write(old)
    try:
        obj.dump(path)
        return []                         # the library wrote it: not a rejected object
    except Exception:
        pass
    now = open(path).read() if os.path.exists(path) else None
    if disk0 == "Old" and now != old:
        return ["%s: the dump was rejected and the previous file was %s" % (name, "deleted" if now is None else "replaced by %d bytes" % len(now))]
    if disk0 == "Absent" and now is not None:
        return ["%s: the dump was rejected and left a new %d-byte file behind" % (name, len(now))]
    return []


def run(ctx):
    ctx.level = "model_checking"
    ctx.rule = ("validation points are measured on the working tree (every _validate* call occurrence of a valid dump of each of the 7 "
                "formats, 2-4 shapes each, tagged top-level / nested); TLC enumerates failAt x {absent, previous copy} for each "
                "from DumpGen.tla; the harness injects that one failure into the real dump(path) and compares bytes/existence of the "
                "destination; plus real invalid field values detected only by nested writers; the recorded event order of every dump "
                "(incl. the repository's tests) is validated against Trace_Dump.tla. non-trivial = distinct (format, shape, point, disk state)")
    r = ctx.tlc("MC_Dump", "MC_Dump.cfg", must_cover=["Point", "Open", "Write"])
    ctx.require_ok(r)
    base = open(os.path.join(core.SPEC_DIR, "MC_Dump.cfg")).read()
    r = ctx.tlc("MC_Dump", cfg_text=base.replace("Dev_OpenBeforeSerialize = FALSE", "Dev_OpenBeforeSerialize = TRUE"),
                expect_error=True, count=False)
    if r.violated not in ("FailedDumpLeavesDisk", "NoValidationAfterOpen"):
        raise core.MachineryError("as-shipped order should be refuted by TLC, got %s" % r.violated)
    ctx.notes["asshipped_Dev_OpenBeforeSerialize"] = "TLC counterexample: %s violated" % r.violated
    # the same protocol for ANY number of validation points: inductive invariant discharged by Apalache (Apa_Dump.tla);
    # the order as shipped at the pinned commit (ApaDev_Dump.tla) must fail the inductive step
    from . import apalache
    apalache.obligations(ctx, [("base: Init => IndInv", "Apa_Dump", "Init0", "IndInv", 0, "NoError"),
                               ("step: IndInv /\\ Next => IndInv'", "Apa_Dump", "IndInit", "IndInv", 1, "NoError"),
                               ("IndInv => FailedDumpLeavesDisk /\\ SuccessWrites", "Apa_Dump", "IndInit", "Safety", 0, "NoError"),
                               ("as shipped (open before nested validation): step refuted", "ApaDev_Dump", "IndInit", "IndInv", 1, "Error")])
    R = _install()
    tmp = tempfile.mkdtemp(prefix="verif-c18-")
    try:
        meas = measure(R, tmp)
        ctx.notes["validation_points"] = {k: [v["top"], v["nested"]] for k, v in meas.items()}
        mod, files, lines = core.gen_module("DumpGen", {"Formats": {k: [v["top"], v["nested"]] for k, v in meas.items()}})
        cases = []
        cfg = core.cfg_with("DumpGen.cfg", [], {}) + "\n".join(lines) + "\n"
        ctx.require_ok(ctx.tlc(mod, cfg_text=cfg, extra_files=files, on_emit=cases.append))
        cases = list({json.dumps(c, sort_keys=True): c for c in cases}.values())
        trs = []
        for i, c in enumerate(cases):
            exp_disk = c["disk"]
            fails, tr = run_case(R, tmp, c, meas)
            for f in fails:
                ctx.fail(c, f, "inject")
            for e in tr:
                trs.append({"tid": "d%d" % i, "top": meas[c["fmt"]]["top"], "nested": meas[c["fmt"]]["nested"],
                            "disk0": e["disk0"], "failAt": e["failAt"], "events": e["events"]})
            ctx.distinct.add(core._digest(c))
        ctx.evaluations += len(cases)
        ctx.traces += len(cases)
        for c in cases[:3]:
            ctx.sample({"kind": "inject", "case": c})
        # real invalid values that only nested writers detect
        from . import corruptions
        n = 0
        for c in corruptions.write_cases(quick=ctx.quick):
            for disk0 in ("Old", "Absent"):
                n += 1
                fails = corruptions.eval_dump_path(c, disk0, tmp)
                for f in fails:
                    ctx.fail(dict(c, disk0=disk0), f, "invalid-value")
        ctx.evaluations += n
        ctx.notes["real_invalid_value_dumps"] = n
        # invalid values in payload no validator looks at: only the writer of the file trips over them
        for name, make in PAYLOAD.items():
            for disk0 in ("Old", "Absent"):
                n += 1
                for f in eval_payload(name, make, disk0, tmp):
                    ctx.fail({"payload": name, "disk0": disk0, "fmt": name.split(":")[0]}, f, "payload")
        ctx.evaluations += 2 * len(PAYLOAD)
    finally:
        shutil.rmtree(tmp, ignore_errors=True)
    # code -> spec: event order of every recorded dump
    suite = [e for t in T.record_testsuite().get("dump", []) for e in t["events"]]
    for j, e in enumerate(suite):
        trs.append({"tid": "t%d" % j, "top": e["top"], "nested": e["nested"], "disk0": e["disk0"], "failAt": e["failAt"], "events": e["events"]})
    ctx.notes["testsuite_dumps"] = len(suite)
    for t in trs:
        if t["disk0"] == "OldLinked":
            t["disk0"] = "Old"
    verdicts = T.validate_batch(ctx, "Trace_Dump", "Trace_Dump.cfg", trs)
    rejected = [t for t in trs if verdicts.get(t["tid"], ("?",))[0] == "REJECT"]
    ctx.notes["dump_traces_validated"] = len(trs)
    ctx.notes["dump_traces_rejected"] = len(rejected)
    ctx.traces += len(trs)
    if rejected and not ctx.violations and not ctx.known_hits:
        # a rejected order without a destroyed file is a diagnostic (e.g. validation after open on a successful dump)
        ctx.model_drift.append({"note": "dump event order deviates from the reference protocol", "example": rejected[0]})
    elif rejected:
        ctx.notes["rejected_example"] = rejected[0]


def replay(info):
    R = _install()
    tmp = tempfile.mkdtemp(prefix="verif-c18-")
    try:
        if info["kind"] == "payload":
            c = info["case"]
            return eval_payload(c["payload"], PAYLOAD[c["payload"]], c["disk0"], tmp)
        if info["kind"] == "invalid-value":
            from . import corruptions
            return corruptions.eval_dump_path(info["case"], info["case"]["disk0"], tmp)
        meas = measure(R, tmp)
        return run_case(R, tmp, info["case"], meas)[0]
    finally:
        shutil.rmtree(tmp, ignore_errors=True)
