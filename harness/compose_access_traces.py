"""Code -> spec for ComposeAccess.tla: a seeded random driver exercises ONE real productmd.compose.Compose per trace over a real
directory and logs, per step, what it did and what the caller saw; TLC validates the batch against Trace_ComposeAccess.tla.

The driver keeps no model of the library: it only remembers what IT wrote to the directory (so that it never asks for a file
operation that is a no-op) and hands out content numbers the way the specification does (a counter from 10, one per replaced file
and per edit), so that the logged numbers can be compared literally."""
import gc
import os
import random
import re
import shutil
import tempfile

from . import c20, core, traces as T
from . import compose_access as CA

KINDS = ("info", "images", "rpms", "modules")
STARTS = ("cur", "leg", "both", "none", "curbad")
BAD_EXTRA = ["{\"header\": {\"version\": \"1.2\"}}garbage", "﻿{}x", "[", "nul\x00l"]


def _slot_of(msg, md):
    for key, fn in CA.FILE.items():
        if os.path.join(md, fn) in msg or os.path.join(md, fn) in os.path.normpath(msg):
            return key
    return None


def record(seed, length):
    import productmd.compose
    rng = random.Random(seed)
    names = STARTS[seed % len(STARTS)]
    layout = CA.LAYOUTS[(seed // len(STARTS)) % 3]
    tmp = tempfile.mkdtemp(prefix="verif-c20t-")
    events = []
    try:
        root = os.path.join(tmp, "compose dir %d" % seed)
        disk = CA.init_disk(names)
        if layout == "compose" and disk[("info", "cur")] == 0:
            layout = "legacy"
        mdroot = os.path.join(root, {"direct": "", "compose": "compose", "legacy": "7.2"}[layout])
        md = os.path.join(mdroot, "metadata")
        os.makedirs(md)
        for key, v in disk.items():
            CA._write(md, key, v, seed)
        c = productmd.compose.Compose(root + ("/" if seed % 4 == 1 else ""))
        init = {"%s/%s" % k: v for k, v in disk.items()}
        fresh = 10
        decoyed = False
        loaded = set()
        held = []
        for n in range(length):
            r = rng.random()
            if r < 0.45:
                k = rng.choice(KINDS)
                ev = {"a": "access", "k": k, "s": "", "w": "", "out": "", "v": 0, "e": 0}
                try:
                    obj = getattr(c, k)
                    ev["out"] = "doc"
                    ev["v"] = int(obj.compose.respin)
                    m = re.match(r"^E(\d{7})$", str(obj.compose.date))
                    ev["e"] = int(m.group(1)) if m else 0
                    loaded.add(k)
                    if rng.random() < 0.3:
                        held.append(obj)
                    obj = None
                except RuntimeError as exc:
                    msg = str(exc)
                    slot = _slot_of(msg, md)
                    if slot is not None and "can not be deserialized" in msg:
                        ev["out"], ev["s"] = "bad", slot[1]
                        if slot[0] != k:
                            ev["out"] = "bad-names-a-file-of-another-kind"
                    elif os.path.normpath(mdroot) in os.path.normpath(msg) or mdroot in msg:
                        ev["out"] = "missing"
                    else:
                        ev["out"] = "RuntimeError-without-location"
                except Exception as exc:
                    ev["out"] = type(exc).__name__
                events.append(ev)
            elif r < 0.6 and loaded:
                k = rng.choice(sorted(loaded))
                try:
                    getattr(c, k).compose.date = "E%07d" % fresh
                except Exception:
                    break
                events.append({"a": "edit", "k": k, "s": "", "w": "", "out": "", "v": 0, "e": fresh})
                fresh += 1
                if rng.random() < 0.5:
                    held[:] = []
                    gc.collect()
            elif r < 0.95:
                key = rng.choice(sorted(CA.FILE))
                w = rng.choice(("new", "new", "bad", "gone"))
                if (w == "bad" and disk[key] == 1) or (w == "gone" and disk[key] == 0):
                    w = "new"
                p = os.path.join(md, CA.FILE[key])
                if w == "new":
                    v = fresh
                    fresh += 1
                    with open(p, "w") as fh:
                        fh.write(c20.doc(key[0], v))
                elif w == "bad":
                    v = 1
                    pool = list(CA.BAD) + BAD_EXTRA
                    b = pool[rng.randrange(len(pool))]
                    if isinstance(b, bytes):
                        CA._write(md, key, 1, CA.BAD.index(b))
                    else:
                        with open(p, "w") as fh:
                            fh.write(b)
                else:
                    v = 0
                    os.unlink(p)
                disk[key] = v
                events.append({"a": "file", "k": key[0], "s": key[1], "w": w, "out": "", "v": v, "e": 0})
            elif not decoyed:
                CA._decoy(root, layout)
                decoyed = True
                events.append({"a": "decoy", "k": "", "s": "", "w": "", "out": "", "v": 0, "e": 0})
        return {"tid": "ca%d" % seed, "init": init, "events": events, "layout": layout, "names": names}
    finally:
        shutil.rmtree(tmp, ignore_errors=True)


def _describe(t, upto):
    out = []
    for e in t["events"][:upto]:
        if e["a"] == "access":
            out.append(".%s -> %s%s" % (e["k"], e["out"], (" document %d edit %d" % (e["v"], e["e"])) if e["out"] == "doc" else (" " + e["s"] if e["s"] else "")))
        elif e["a"] == "edit":
            out.append("edit(.%s, %d)" % (e["k"], e["e"]))
        elif e["a"] == "file":
            out.append("%s %s%s" % (CA.FILE[(e["k"], e["s"])], e["w"], (" = document %d" % e["v"]) if e["w"] == "new" else ""))
        else:
            out.append("metadata appears elsewhere")
    return "; ".join(out)


def validate(ctx, pref, n, length):
    _, out = core.pmap_eval(_rec, [{"seed": ctx.seed * 100000 + i, "length": length} for i in range(n)], chunk=20)
    trs = sorted((f[0] for _, f in out if f and f[0]["events"]), key=lambda t: t["tid"])
    verdicts = T.validate_batch(ctx, "Trace_ComposeAccess", "Trace_ComposeAccess.cfg" if pref else "Trace_ComposeAccess_legacyfirst.cfg", trs)
    if "__invariant__" in verdicts:
        _, name, tidx, tail = verdicts["__invariant__"]
        t = trs[tidx - 1] if tidx else trs[0]
        ctx.fail({"trace": t, "kind": "access-trace"}, "recorded execution of Compose violates %s of ComposeAccess.tla: %s" % (name, _describe(t, len(t["events"]))[:600]),
                 "access-trace")
        return
    rejected = 0
    for t in trs:
        v = verdicts.get(t["tid"])
        if v and v[0] == "REJECT":
            rejected += 1
            at = v[1]
            ctx.fail({"trace": t, "kind": "access-trace", "at": at},
                     "recorded execution of Compose (%s layout, starting files %s) is not a behaviour of ComposeAccess.tla: step %d [%s] after [%s]"
                     % (t["layout"], t["names"], at, _describe({"events": t["events"][at - 1:at]}, 1), _describe(t, at - 1)[-500:]), "access-trace")
    ctx.traces += len(trs)
    ctx.evaluations += sum(len(t["events"]) for t in trs)
    ctx.notes["access_traces_validated"] = len(trs)
    ctx.notes["access_trace_events"] = sum(len(t["events"]) for t in trs)
    ctx.notes["access_traces_rejected"] = rejected


def _rec(case):
    return [record(case["seed"], case["length"])]


def replay(info):
    """re-record with the same seed and compare with the stored trace's verdict position: the failing step must re-occur"""
    t = info["case"]["trace"]
    seed = int(t["tid"][2:])
    again = record(seed, len(t["events"]) + 5)
    at = info["case"].get("at")
    if at and at <= len(again["events"]) and again["events"][at - 1] == t["events"][at - 1]:
        return ["recorded execution reproduces: step %d %s" % (at, again["events"][at - 1])]
    return [] if again["events"][:len(t["events"])] != t["events"] else ["recorded execution reproduces the stored trace"]
