"""Binding between Forest.tla state-graph emissions and the real composeinfo variant classes."""
import itertools
import json

TOKSETS = [
    {"A": "Server", "B": "optional", "C": "Client", "T": "Tools", "o": "Optional2", "h": "HA"},
    {"A": "a", "B": "B9", "C": "Z", "T": "0x", "o": "o", "h": "9"},
    {"A": "Workstation", "B": "HighAvailability", "C": "Server", "T": "ServerSAP", "o": "optional", "h": "SAPHANA"},
]
ARCHSETS = [
    {"x": "x86_64", "y": "ppc64le", "z": "s390x", "s": "src"},
    {"x": "aarch64", "y": "i386", "z": "x86_64", "s": "src"},
]


def _tok(t, tok):
    """A token outside the map is the concatenation of one-letter tokens ("AT" = A followed by T)."""
    return tok[t] if t in tok else "".join(tok[ch] for ch in t)


def real_uid(spec, tok):
    return "-".join(_tok(t, tok) for t in spec["uid"])


def real_id(spec, tok):
    return _tok(spec["id"], tok)


def new_ci():
    from productmd.composeinfo import ComposeInfo
    ci = ComposeInfo()
    ci.release.name = "Fedora"
    ci.release.short = "F"
    ci.release.version = "22"
    ci.release.type = "ga"
    ci.compose.id = "F-22-20150522.0"
    ci.compose.type = "production"
    ci.compose.date = "20150522"
    ci.compose.respin = 0
    return ci


def make_variant(ci, spec, tok, arch):
    from productmd.composeinfo import Variant
    v = Variant(ci)
    v.id = real_id(spec, tok)
    v.uid = real_uid(spec, tok)
    v.name = "Pretty " + v.uid
    v.type = spec["type"]
    v.arches = set(arch[a] for a in spec["arches"])
    if v.type == "layered-product":
        v.release.name = "Satellite"
        v.release.short = "SAT"
        v.release.version = "6.0"
        v.release.type = "ga"
    return v


def project(ci, objs, names):
    """Real forest -> (kids, par) in the model's vocabulary (object names)."""
    kids = {"ROOT": {}}
    par = {}
    for n, o in objs.items():
        kids[n] = {}
        par[n] = "None" if o.parent is None else names.get(id(o.parent), "<foreign %r>" % (o.parent,))
    for key, v in ci.variants.variants.items():
        kids["ROOT"][key] = names.get(id(v), "<foreign>")
    for n, o in objs.items():
        for key, v in o.variants.items():
            kids[n][key] = names.get(id(v), "<foreign>")
    return kids, par


OTHER_KEY = "NoSuchName"


def real_key(k, spec, tok):
    """The model's table key in real text: the variant's id, or (add(..., variant_id=uid)) its dashed UID."""
    if k == spec["id"]:
        return real_id(spec, tok)
    if k == "-".join(spec["uid"]):
        return real_uid(spec, tok)
    return OTHER_KEY


def model_kids(case, tok):
    pool = case["pool"]
    out = {}
    for c, d in case["kids"].items():
        out[c] = {} if isinstance(d, list) else {real_key(k, pool[o], tok): o for k, o in d.items()}
    return out


def _norm_newc(d, pool, tok):
    return {} if isinstance(d, list) else {real_key(k, pool[o], tok): o for k, o in d.items()}


def _by_id(kids, objs):
    """The tables with every entry under its variant's id: how a loader files them, whatever key the builder chose."""
    return {c: {(objs[o].id if o in objs else k): o for k, o in d.items()} for c, d in kids.items()}


def build(case, tok, arch, upto=None):
    ci = new_ci()
    pool = case["pool"]
    objs = {n: make_variant(ci, pool[n], tok, arch) for n in pool}
    names = {id(o): n for n, o in objs.items()}
    fails = []
    hist = case["hist"] if upto is None else case["hist"][:upto]
    for i, ev in enumerate(hist):
        out = do_add(ci, objs, ev["c"], ev["o"], ev.get("kf", "id"))
        if out != ev["out"]:
            fails.append("history step %d add(%s,%s%s): model %s, code %s" % (i, ev["c"], ev["o"], _kf(ev), ev["out"], out))
            break
    return ci, objs, names, fails


def _kf(ev):
    return "" if ev.get("kf", "id") == "id" else ", variant_id=<%s>" % ev["kf"]


def do_add(ci, objs, c, o, kf="id"):
    cont = ci.variants if c == "ROOT" else objs[c]
    try:
        if kf == "id":
            cont.add(objs[o])
        else:
            cont.add(objs[o], variant_id=objs[o].uid if kf == "uid" else OTHER_KEY)
        return "ok"
    except ValueError:
        return "ValueError"
    except Exception as exc:
        return type(exc).__name__


TYPES = ["variant", "optional", "addon", "layered-product"]


def queries(ci, objs, forest, where, arch, quick, light=None):
    """C11 lookup and get_variants clauses on a real forest. forest: names of filed objects."""
    fails = []
    for n in forest:
        o = objs[n]
        try:
            got = ci[o.uid]
        except Exception as exc:
            got = "%s(%s)" % (type(exc).__name__, exc)
        if got is not o:
            fails.append("%s: ComposeInfo[%r] returns %r, not the variant with that UID" % (where, o.uid, got))
        try:
            got = ci.variants[o.uid]
        except Exception as exc:
            got = "%s(%s)" % (type(exc).__name__, exc)
        if got is not o:
            fails.append("%s: variants[%r] returns %r" % (where, o.uid, got))
        if o.parent is not None:
            try:
                got = o.parent[o.id]
            except Exception as exc:
                got = "%s(%s)" % (type(exc).__name__, exc)
            if got is not o:
                fails.append("%s: parent[%r] of %s returns %r" % (where, o.id, o.uid, got))
    if fails:
        return fails[:3]
    # get_variants
    typesets = [[]] + [list(c) for r in (1, 2, 3, 4) for c in itertools.combinations(TYPES, r)]
    if quick:
        typesets = [[], ["variant"], ["addon"], ["optional", "addon"], ["layered-product", "variant"], TYPES]
    archs = [None, "src"] + [arch[a] for a in ("x", "y", "z")]
    conts = [("ROOT", ci)] + [(n, objs[n]) for n in forest]
    if light is not None:
        # a light round (used before/after every accepted add): the top, the container concerned, few filters
        typesets = [[], TYPES]
        archs = [None, "src", arch["x"]]
        conts = [c for c in conts if c[0] in ("ROOT", light)]
    level = {"ROOT": list(ci.variants.variants.values())}
    for n in forest:
        level[n] = list(objs[n].variants.values())

    def desc(n):
        res = []
        for v in level[n]:
            res.append(v)
            res.extend(desc([k for k in forest if objs[k] is v][0]))
        return res
    for cname, cont in conts:
        for a in archs:
            for ts in typesets:
                for withself in ((False, True) if cname != "ROOT" else (False,)):
                    for rec in (False, True):
                        types = list(ts) + (["self"] if withself else [])
                        try:
                            res = cont.get_variants(arch=a, types=types or None, recursive=rec)
                        except Exception as exc:
                            fails.append("%s: %s.get_variants(arch=%r, types=%r, recursive=%r) raised %s: %s"
                                         % (where, cname, a, types, rec, type(exc).__name__, exc))
                            return fails
                        call = "%s: %s.get_variants(arch=%r, types=%r, recursive=%r)" % (where, cname, a, types, rec)
                        try:               # asking again gives the same answer (no state carried between calls)
                            res2 = cont.get_variants(arch=a, types=types or None, recursive=rec)
                            if [id(v) for v in res2] != [id(v) for v in res]:
                                fails.append("%s answers differently when asked twice: %s then %s" % (call, [v.uid for v in res], [v.uid for v in res2]))
                        except Exception as exc:
                            fails.append("%s raised %s when asked a second time" % (call, type(exc).__name__))
                        if len(set(id(v) for v in res)) != len(res):
                            fails.append("%s returns a variant twice: %s" % (call, [v.uid for v in res]))
                        rest = [v for v in res if not (withself and v is cont)]
                        uids = [v.uid for v in res]
                        if uids != sorted(uids):
                            fails.append("%s not ordered by UID: %s" % (call, uids))
                        for v in rest:
                            if a not in (None, "src") and a not in v.arches:
                                fails.append("%s returns %s which lacks arch %s (arches %s)" % (call, v.uid, a, sorted(v.arches)))
                            if types and v.type not in ts:
                                fails.append("%s returns %s of type %s" % (call, v.uid, v.type))
                        if withself and cont not in res:
                            fails.append("%s omits the container although 'self' was requested" % call)
                        if not types and a is None:
                            exp = desc(cname) if rec else level[cname]
                            if sorted(v.uid for v in rest) != sorted(v.uid for v in exp):
                                fails.append("%s without filter returns %s, expected every variant of the %s: %s"
                                             % (call, uids, "subtree" if rec else "level", sorted(v.uid for v in exp)))
                        if a == "src" and not types:
                            exp = desc(cname) if rec else level[cname]
                            if sorted(v.uid for v in rest) != sorted(v.uid for v in exp):
                                fails.append("%s: pseudo-arch src must match every variant; got %s" % (call, uids))
                        if fails:
                            return fails[:3]
    return fails


def eval_state(case):
    """Verify one emitted state of the Forest state graph and all its outgoing transitions."""
    i = case.get("rot", 0)
    tok = TOKSETS[i % len(TOKSETS)]
    arch = ARCHSETS[(i // len(TOKSETS)) % len(ARCHSETS)]
    pool = case["pool"]
    ci, objs, names, fails = build(case, tok, arch)
    if fails:
        return fails
    exp_kids = model_kids(case, tok)
    exp_par = case["par"]
    kids, par = project(ci, objs, names)
    if kids != exp_kids or par != exp_par:
        return ["after history %s: forest differs: model kids=%s par=%s ; code kids=%s par=%s"
                % (_short(case["hist"]), exp_kids, exp_par, kids, par)]
    forest = sorted(case["forest"])
    fails = queries(ci, objs, forest, "forest %s" % _short(case["hist"]), arch, case.get("quick", True))
    if fails:
        return fails
    # the same forest after a write/read cycle
    try:
        text = ci.dumps()
    except Exception as exc:
        return ["forest %s accepted by add cannot be written: %s: %s" % (_short(case["hist"]), type(exc).__name__, exc)]
    fails = queries(ci, objs, forest, "forest %s after it was written" % _short(case["hist"]), arch, True)
    if fails:
        return fails
    from productmd.composeinfo import ComposeInfo
    ci2 = ComposeInfo()
    try:
        ci2.loads(text)
    except Exception as exc:
        return ["forest %s written but not readable: %s: %s" % (_short(case["hist"]), type(exc).__name__, exc)]
    objs2 = {}
    for n in forest:
        try:
            objs2[n] = ci2[objs[n].uid]
        except Exception as exc:
            return ["re-read forest %s: ComposeInfo[%r] raised %s" % (_short(case["hist"]), objs[n].uid, exc)]
    names2 = {id(o): n for n, o in objs2.items()}
    kids2, par2 = project(ci2, objs2, names2)
    kf = _by_id({c: d for c, d in kids.items() if c == "ROOT" or c in forest}, objs)
    pf = {c: p for c, p in par.items() if c in forest}
    if _by_id(kids2, objs2) != kf or par2 != pf:
        return ["re-read forest differs from the written one: written kids=%s par=%s ; read kids=%s par=%s"
                % (kf, pf, kids2, par2)]
    for n in forest:
        a, b = objs[n], objs2[n]
        if (a.id, a.uid, a.type, a.arches) != (b.id, b.uid, b.type, b.arches):
            return ["re-read variant %s differs: %s vs %s" % (a.uid, (a.id, a.uid, a.type, sorted(a.arches)), (b.id, b.uid, b.type, sorted(b.arches)))]
    fails = queries(ci2, objs2, forest, "re-read forest %s" % _short(case["hist"]), arch, True)
    if fails:
        return fails
    # ... and the ORIGINAL forest still answers with its own objects after a second compose with the same UIDs exists in the process
    fails = queries(ci, objs, forest, "forest %s after another compose with the same UIDs was read in this process" % _short(case["hist"]),
                    arch, True, light="ROOT")
    if fails:
        return fails
    # every outgoing transition
    refused = [a for a in case["acts"] if a["out"] != "ok"]
    accepted = [a for a in case["acts"] if a["out"] == "ok"]
    fails = []
    for a in refused:
        out = do_add(ci, objs, a["c"], a["o"], a.get("kf", "id"))
        k2, p2 = project(ci, objs, names)
        bad = None
        if out == "ok":
            bad = ("add(%s,%s%s) after %s must be refused (model: ValueError), code accepted it"
                   % (a["c"], a["o"], _kf(a), _short(case["hist"])))
        elif out != "ValueError":
            bad = "add(%s,%s) after %s raised %s instead of ValueError" % (a["c"], a["o"], _short(case["hist"]), out)
        elif (k2, p2) != (kids, par):
            bad = ("refused add(%s,%s) after %s changed the forest: kids %s -> %s ; par %s -> %s"
                   % (a["c"], a["o"], _short(case["hist"]), _diff(kids, k2), _diff(k2, kids), _diff(par, p2), _diff(p2, par)))
        if bad:
            fails.append(bad)
            if len(fails) >= 6:
                return fails
            ci, objs, names, _ = build(case, tok, arch)      # continue from a clean copy of the state
    if fails:
        return fails
    for a in accepted:
        ci3, objs3, names3, f3 = build(case, tok, arch)
        prime = queries(ci3, objs3, forest, "before add(%s,%s)" % (a["c"], a["o"]), arch, True, light=a["c"])      # fills any cache
        out = do_add(ci3, objs3, a["c"], a["o"], a.get("kf", "id"))
        if out == "ok" and not prime:
            # the forest after the add: the new variant and the sub-tree it brings, if its container is in the forest
            grown = set(forest)
            if a["c"] == "ROOT" or a["c"] in grown:
                todo = [objs3[a["o"]]]
                while todo:
                    v = todo.pop()
                    if id(v) in names3 and names3[id(v)] not in grown:
                        grown.add(names3[id(v)])
                        todo.extend(v.variants.values())
            after = queries(ci3, objs3, sorted(grown), "forest %s then add(%s,%s), queried before and after the add"
                            % (_short(case["hist"]), a["c"], a["o"]), arch, True, light=a["c"])
            if after:
                return after
        if out != "ok":
            return ["add(%s,%s%s) after %s is valid (model: ok), code raised %s" % (a["c"], a["o"], _kf(a), _short(case["hist"]), out)]
        k3, p3 = project(ci3, objs3, names3)
        ek = dict(exp_kids)
        ek[a["c"]] = _norm_newc(a["newc"], pool, tok)
        ep = dict(exp_par)
        if a["c"] != "ROOT":
            ep[a["o"]] = a["c"]
        if (k3, p3) != (ek, ep):
            return ["add(%s,%s) after %s: forest differs from model: kids %s vs %s ; par %s vs %s"
                    % (a["c"], a["o"], _short(case["hist"]), _diff(k3, ek), _diff(ek, k3), _diff(p3, ep), _diff(ep, p3))]
    return []


def _diff(a, b):
    return {k: v for k, v in a.items() if b.get(k) != v}


def _short(hist):
    return ";".join("%s.add(%s%s)%s" % (e["c"], e["o"], _kf(e), "" if e["out"] == "ok" else "!") for e in hist) or "<empty>"
