"""Binding between Builders.tla behaviours and the real Modules / ExtraFiles classes."""
import copy
import io
import json

from . import core
from .rpms_adapter import COMPOSE, cycle

MODS = [{"m2": "httpd:2.4", "m3": "perl:5.26:20180629", "m4": "django:1.6:20180307130104:c2c572ec"},
        {"m2": "a-b_c:f28", "m3": "x:1:2", "m4": "n.n:s-s:0:deadbeef"}]
ARCH = [{"bin1": "x86_64", "bin2": "ppc64le", "src": "src", "unknown": "x86-64"},
        {"bin1": "noarch", "bin2": "s390x", "src": "src", "unknown": ""}]
PATHS = {"rel1": "Server/x86_64/os/repodata/modules.yaml", "rel2": "mods/other.yaml", "abs": "/abs/modules.yaml", "empty": "", "int": 5}
RPMTOK = {"r1": "httpd-0:2.4.6-80.x86_64", "r2": "mod_ssl-1:2.4.6-80.x86_64"}
SIZES = {"s1": 1234, "s2": (1 << 33) + 5, "s0": 0}
# "two": types deliberately NOT in alphabetical insertion order
CKS = {"one": {"sha256": "a" * 64}, "two": {"sha256": "c" * 64, "md5": "b" * 32, "SHA1": "d" * 40}, "notadict": ["sha256", "x"], "nosums": {}}


def uid_arg(m, form, mods):
    u = mods[m]
    if form == "canon":
        return u
    if form == "dir":
        return "some/dir/" + u
    if form == "nostream":
        return u.split(":")[0]
    if form == "fiveparts":
        return "n:s:v:c:extra"
    if form == "emptypart":
        return u.split(":")[0] + "::1"
    if form == "notastring":
        return 12345
    raise KeyError(form)


def exp_mods(flat, mods, arch):
    out = {}
    for e in flat:
        uid = mods[e["m"]]
        parts = (uid.split(":") + ["", ""])[:4]
        out.setdefault(e["v"], {}).setdefault(arch[e["a"]], {})[uid] = {
            "metadata": {"uid": uid, "name": parts[0], "stream": parts[1], "version": parts[2], "context": parts[3],
                         "koji_tag": "module-tag-1"},
            "modulemd_path": {p["cat"]: PATHS[p["path"]] for p in e["paths"]},
            "rpms": [RPMTOK[r] for r in e["rpms"]]}
    return out


def exp_files(flat, arch):
    out = {}
    for e in flat:
        out.setdefault(e["v"], {})[arch[e["a"]]] = [{"file": xf_path(i["file"]), "size": SIZES[i["size"]], "checksums": CKS[i["checksums"]]}
                                                    for i in e["items"]]
    return out


def xf_path(tok):
    return {"rel1": "Server/x86_64/os/GPL", "rel2": "Server/x86_64/osx/README", "abs": "/etc/passwd", "empty": "", "int": 5}[tok]


def _new(cls):
    m = cls()
    for k, v in COMPOSE.items():
        setattr(m.compose, k, v)
    return m


def replay_case(case):
    from productmd.modules import Modules
    from productmd.extra_files import ExtraFiles
    rot = case.get("rot", 0)
    mods, arch = MODS[rot % 2], ARCH[(rot // 2) % 2]
    focus = case.get("focus", "C12")
    mm, xf = _new(Modules), _new(ExtraFiles)
    fails = []
    shared = {}       # callers commonly pass the SAME list object for several entries: the library must not alias it
    for step, ev in enumerate(case["hist"]):
        before = (copy.deepcopy(mm.modules), copy.deepcopy(xf.extra_files))
        out, exc = "ok", None
        try:
            if ev["op"] == "modadd":
                rl = "not-a-list" if ev["rl"] == ["notalist"] else shared.setdefault(tuple(ev["rl"]), [RPMTOK[r] for r in ev["rl"]])
                if isinstance(rl, list) and (rot + step) % 3 == 1:
                    rl = tuple(rl)              # the other sequence type the builder takes
                mm.add("" if ev["v"] == "empty" else ev["v"], arch[ev["a"]], uid_arg(ev["m"], ev["uform"], mods),
                       "module-tag-1" if ev["koji"] == "tag" else "", PATHS[ev["path"]],
                       "package" if ev["cat"] == "invalid" else ev["cat"], rl)
            elif ev["op"] == "treedump":
                buf = io.StringIO()
                xf.dump_for_tree(buf, ev["v"], arch[ev["a"]], "/".join(ev["base"]))
                listed = [d["file"] for d in json.loads(buf.getvalue())["data"]]
                if listed != ["/".join(p) for p in ev["listed"]]:
                    fails.append("step %d dump_for_tree(%s, %s, base=%s) lists %s, model %s" % (step, ev["v"], arch[ev["a"]], "/".join(ev["base"]),
                                                                                              listed, ["/".join(p) for p in ev["listed"]]))
                    return fails
            else:
                xf.add("" if ev["v"] == "empty" else ev["v"], arch[ev["a"]], xf_path(ev["path"]), SIZES[ev["size"]],
                       copy.deepcopy(CKS[ev["cks"]]))
        except (ValueError, TypeError) as e:
            out, exc = "refused", e
        except Exception as e:
            out, exc = type(e).__name__, e
        if out != ev["out"]:
            if focus in ("C12", "C03"):
                fails.append("step %d %s: model %s, code %s%s" % (step, json.dumps(ev, sort_keys=True), ev["out"], out,
                                                                  " (%s)" % exc if exc is not None else ""))
            return fails
        if ev["op"] == "treedump" and (mm.modules, xf.extra_files) != before:
            fails.append("step %d: dump_for_tree(%s, %s, base=%s), a query, changed the manifest" % (step, ev["v"], arch[ev["a"]], "/".join(ev["base"])))
            return fails
        if out != "ok" and (mm.modules, xf.extra_files) != before:
            if focus == "C12":
                fails.append("step %d %s: refused call changed the mapping" % (step, json.dumps(ev, sort_keys=True)))
            return fails
    em, ef = exp_mods(case["mods"], mods, arch), exp_files(case["files"], arch)
    if mm.modules != em or xf.extra_files != ef:
        if focus in ("C12", "C03"):
            fails.append("mapping after %s differs: model %s / %s ; code %s / %s"
                         % (json.dumps(case["hist"], sort_keys=True)[:600], json.dumps(em, sort_keys=True)[:500],
                            json.dumps(ef, sort_keys=True)[:300], json.dumps(mm.modules, sort_keys=True)[:500],
                            json.dumps(xf.extra_files, sort_keys=True)[:300]))
        return fails
    if focus == "C03":
        if case["mods"]:
            fails += cycle(mm, em, "modules", focus)
        if case["files"]:
            fails += cycle(xf, ef, "extra_files", focus)
    return fails


def eval_strip(case):
    """dump_for_tree: base path stripped only on a path-component boundary."""
    from productmd.extra_files import ExtraFiles
    fails = []
    path = "/".join(case["p"])
    exp = "/".join(case["strip"])
    for slash in ("", "/", "//"):
        base = "/".join(case["b"]) + (slash if case["b"] else "")
        xf = _new(ExtraFiles)
        xf.add("V", "x86_64", path, 7, {"md5": "0" * 32})
        xf.add("V", "x86_64", "other/" + path, 8, {"md5": "1" * 32})
        out = io.StringIO()
        xf.dump_for_tree(out, "V", "x86_64", base)
        doc = json.loads(out.getvalue())
        got = [d["file"] for d in doc["data"]]
        want = [exp, "other/" + path]
        if got != want:
            fails.append("dump_for_tree(base=%r) of %r gives %r, expected %r" % (base, [path, "other/" + path], got, want))
        if [d["size"] for d in doc["data"]] != [7, 8] or doc["data"][0]["checksums"] != {"md5": "0" * 32}:
            fails.append("dump_for_tree altered size/checksums")
        if xf.extra_files["V"]["x86_64"][0]["file"] != path:
            fails.append("dump_for_tree modified the stored manifest")
    return fails


def gen(ctx, mode, depth, simulate=None):
    out = []
    consts = {"Mode": mode, "D": depth}
    if simulate:
        cfg = core.cfg_with("BuildersGen.cfg", ["CONSTRAINT EmitLast"], consts)
        ctx.tlc("BuildersGen", cfg_text=cfg, constants=consts, on_emit=out.append, mode="simulate", sim_num=simulate,
                sim_depth=depth + 1, seed=ctx.seed + 2)
    else:
        cfg = core.cfg_with("BuildersGen.cfg", ["CONSTRAINT Emit"], consts)
        ctx.require_ok(ctx.tlc("BuildersGen", cfg_text=cfg, constants=consts, on_emit=out.append, timeout=1200))
    return out


def run_builders(ctx, focus):
    cases = []
    if focus == "C12":
        cases += gen(ctx, "modmatrix", 1)
        cases += gen(ctx, "xfmatrix", 1)
    cases += gen(ctx, "modhist", 2)
    cases += gen(ctx, "xfhist", 3 if ctx.quick else 4)
    cases += gen(ctx, "modhist", 6, simulate=40 if ctx.quick else 600)
    seen, uniq = set(), []
    for c in cases:
        if "hist" not in c:
            continue
        k = core._digest(c["hist"])
        if k not in seen:
            seen.add(k)
            uniq.append(c)
    for i, c in enumerate(uniq):
        c["rot"] = (i + ctx.seed) % 4
        c["focus"] = focus
    ctx.evaluate(replay_case, uniq, label="builders-history", key=lambda c: core._digest([c["hist"], c["rot"]]))
    if focus == "C12":
        strips = []
        cfg = core.cfg_with("BuildersGen.cfg", [], {"Mode": "strip", "D": 0})
        ctx.tlc("BuildersGen", cfg_text=cfg, on_emit=strips.append, count=False)
        if len(strips) < 100:
            raise core.MachineryError("strip cases missing")
        ctx.evaluate(eval_strip, strips, label="dump_for_tree")


def replay(info):
    if info["kind"] == "dump_for_tree":
        return eval_strip(info["case"])
    return replay_case(info["case"])
