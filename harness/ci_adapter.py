"""Binding between ComposeInfoDoc.tla emissions and the real ComposeInfo class (C01, C05, C08)."""
import json
import zlib
import os
import tempfile
from . import core

TOK = [{"A": "Server", "B": "Client", "o": "optional", "h": "HighAvailability"},
       {"A": "a", "B": "B9", "o": "0x", "h": "Z"},
       {"A": "Workstation", "B": "Server", "o": "Tools", "h": "SAP"}]
ARCH = [{"x": "x86_64", "y": "ppc64le"}, {"x": "aarch64", "y": "s390x"}, {"x": "i386", "y": "x86_64"}, {"x": "x86_64", "y": "src"}]
SCAL = [{"relname": "Fedora", "relshort": "F", "relver": "22", "bpname": "Red Hat Enterprise Linux", "bpshort": "RHEL", "bpver": "7",
         "lpname": "Satellite", "lpshort": "SAT", "lpver": "6.0", "date": "20150522"},
        {"relname": "My Prodüct  (beta)", "relshort": "my-prod", "relver": "rawhide", "bpname": "b", "bpshort": "b-1", "bpver": "10.0.3",
         "lpname": "L P", "lpshort": "lp", "lpver": "tech-preview", "date": "19991231"},
        {"relname": "R", "relshort": "R9", "relver": "7.1", "bpname": "Base", "bpshort": "Base", "bpver": "snapshot",
         "lpname": "x", "lpshort": "X", "lpver": "1", "date": "20380119"},
        # a version that looks like a date (snapshot streams): the compose ID then holds two 8-digit fields
        {"relname": "Snapshots", "relshort": "Snap", "relver": "20240101", "bpname": "Base OS", "bpshort": "BaseOS", "bpver": "20231231",
         "lpname": "Layer", "lpshort": "Layer", "lpver": "20240101.1", "date": "20240315"},
        # numeric versions whose components carry leading zeros (calendar versions): text, not numbers
        {"relname": "Cal", "relshort": "Cal", "relver": "2024.01", "bpname": "Base", "bpshort": "B", "bpver": "08",
         "lpname": "Zero", "lpshort": "Z", "lpver": "7.00", "date": "20240131"}]
RESPIN = {"r0": 0, "r7": 7, "rbig": 10 ** 7 + 3}
# the 14 documented path categories (doc/composeinfo-1.1.rst) - NOT read from the working tree, so that a category
# dropped symmetrically from reader and writer is seen
CATS = ["os_tree", "packages", "repository", "isos", "images", "jigdos",
        "source_tree", "source_packages", "source_repository", "source_isos", "source_jigdos",
        "debug_tree", "debug_packages", "debug_repository"]


def cats():
    return CATS


class Conc(object):
    def __init__(self, rot):
        self.rot = rot
        self.tok = TOK[rot % len(TOK)]
        self.arch = ARCH[(rot // len(TOK)) % len(ARCH)]
        self.scal = SCAL[(rot // 2) % len(SCAL)]
        c = cats()
        self.cat = {"c1": c[(rot * 3) % len(c)], "c2": c[(rot * 3 + 1) % len(c)], "c3": c[(rot * 3 + 2) % len(c)]}
        self.dashuid = "Wk-Tools" if rot % 2 else "Alpha-Beta-Gamma"
        self.dashid = self.dashuid.replace("-", "")
        self.labelver = ["1.0", "10.12", "0.1"][rot % 3]

    def uid(self, path):
        return "-".join(self.tok[t] for t in path)

    def pretty(self, path):
        """pretty name of the variant at `path`: free text, its ID, its UID - a name that coincides with an identifier is a
        name like any other"""
        uid = self.uid(path)
        return ["Pretty " + uid, self.tok[path[-1]], "Pretty " + uid, uid][zlib.crc32(("%s/%d" % (uid, self.rot)).encode("utf-8")) % 4]

    def pretty_dash(self):
        return ["Pretty dash", self.dashid, self.dashuid][self.rot % 3]

    def pretty_dashkid(self):
        return ["Pretty dash kid", self.tok["o"]][self.rot % 2]

    def token(self, s):
        if s.startswith("$path:"):
            _, u, c, a = s.split(":")
            return "%s/%s/%s" % ("-".join(self.tok[t] for t in u.split("-")), self.arch[a], self.cat[c])
        if s == "$name:dash":
            return self.pretty_dash()
        if s == "$name:dashkid":
            return self.pretty_dashkid()
        if s == "$dashkiduid":
            return self.dashuid + "-" + self.tok["o"]
        if s.startswith("$name:"):
            return self.pretty(s[6:].split("-"))
        if s.startswith("$label:"):
            return "%s-%s" % (s[7:], self.labelver)
        if s == "$dashid":
            return self.dashid
        if s == "$dashuid":
            return self.dashuid
        if s == "$current":
            import productmd.common
            return ".".join(str(i) for i in productmd.common.VERSION)
        if s in ("$r0", "$r7", "$rbig"):
            return RESPIN[s[1:]]
        if s == "$composeid":
            return None          # filled from create_compose_id()
        if s.startswith("$"):
            return self.scal[s[1:]]
        return s


def render(x, conc, key=False):
    if isinstance(x, dict):
        if set(x) == {"sorted"}:
            return sorted(render(v, conc, True) for v in x["sorted"])
        return {render(k, conc, True): render(v, conc) for k, v in x.items()}
    if isinstance(x, list):
        return {} if x == [] else [render(v, conc) for v in x]
    if isinstance(x, str):
        if x.startswith("$"):
            return conc.token(x)
        if key or True:
            # bare id / arch / category tokens
            if x in conc.tok:
                return conc.tok[x]
            if x in conc.arch:
                return conc.arch[x]
            if x in conc.cat:
                return conc.cat[x]
            if "-" in x and all(t in conc.tok for t in x.split("-")):
                return "-".join(conc.tok[t] for t in x.split("-"))
        return x
    return x


def contains(exp, got, path=""):
    """Every key/value the specification expects must be present and equal (extras tolerated)."""
    if isinstance(exp, dict):
        if not isinstance(got, dict):
            return "%s: expected an object, got %r" % (path, got)
        for k, v in exp.items():
            if k not in got:
                return "%s/%s missing" % (path, k)
            r = contains(v, got[k], path + "/" + str(k))
            if r:
                return r
        return None
    if exp is None:
        return None
    if exp != got or type(exp) is not type(got):
        return "%s: expected %r, got %r" % (path, exp, got)
    return None


def build(obj, conc):
    from productmd.composeinfo import ComposeInfo, Variant
    sec = obj["sec"]
    ci = ComposeInfo()
    s = conc.scal
    ci.release.name, ci.release.short, ci.release.version, ci.release.type = s["relname"], s["relshort"], s["relver"], sec["reltype"]
    ci.release.internal = sec["internal"]
    if sec["layered"]:
        ci.release.is_layered = True
        ci.base_product.name, ci.base_product.short, ci.base_product.version = s["bpname"], s["bpshort"], s["bpver"]
        ci.base_product.type = sec["bptype"]
    ci.compose.type = sec["ctype"]
    ci.compose.date = s["date"]
    ci.compose.respin = RESPIN[sec["respin"]]
    if sec["label"] != "none":
        ci.compose.label = "%s-%s" % (sec["label"], conc.labelver)
    ci.compose.final = sec["final"]
    ci.compose.id = ci.create_compose_id()
    idform = sec.get("idform", "derived")
    if idform == "othertype":
        # the ID is free-form: its suffix spells another type and respin than the fields carry
        ci.compose.id = "%s-%s-%s%s.%d" % (s["relshort"], s["relver"], s["date"], "" if sec["ctype"] == "nightly" else ".n",
                                           RESPIN[sec["respin"]] + 1)
    elif idform == "nodash":
        ci.compose.id = "%s%s_%s.%d" % (s["relshort"], s["relver"], s["date"], RESPIN[sec["respin"]])
    objs = {}
    for nd in sorted(obj["nodes"], key=lambda d: (len(d["path"]), d["path"])):
        p = nd["path"]
        v = Variant(ci)
        v.id = conc.tok[p[-1]]
        v.uid = conc.uid(p)
        # pretty name: free text, the variant's ID, its UID (a name that coincides with an identifier is a name like any other)
        v.name = conc.pretty(p)
        v.type = nd["type"]
        v.arches = set(conc.arch[a] for a in nd["arches"])
        if v.type == "layered-product":
            if conc.rot % 2:
                # the product's release described on its own and handed to the variant (such an object starts as not layered)
                from productmd.composeinfo import Release
                v.release = Release(ci)
            v.release.name, v.release.short, v.release.version, v.release.type = s["lpname"], s["lpshort"], s["lpver"], "ga"
        for c, a, cls in nd["paths"]:
            getattr(v.paths, conc.cat[c])[conc.arch[a]] = ("%s/%s/%s" % (v.uid, conc.arch[a], conc.cat[c])) if cls == "set" else ""
        (ci.variants if len(p) == 1 else objs[tuple(p[:-1])]).add(v)
        objs[tuple(p)] = v
    if obj["dashed"]:
        v = Variant(ci)
        v.id, v.uid, v.name, v.type, v.arches = conc.dashid, conc.dashuid, conc.pretty_dash(), "variant", set([conc.arch["x"]])
        ci.variants.add(v)
        if obj.get("dashkid"):
            k = Variant(ci)
            k.id, k.uid, k.name, k.type, k.arches = conc.tok["o"], conc.dashuid + "-" + conc.tok["o"], conc.pretty_dashkid(), "optional", set([conc.arch["x"]])
            v.add(k)
    _prepare(ci, conc, obj)
    return ci


def check_reread(obj, conc, ci, c2):
    """Every documented field of the re-read object equals what was written (original input, normalised)."""
    fails = []
    sec = obj["sec"]
    for a in ("name", "short", "version", "type", "internal", "is_layered"):
        if getattr(c2.release, a) != getattr(ci.release, a):
            fails.append("release.%s: wrote %r, read %r" % (a, getattr(ci.release, a), getattr(c2.release, a)))
    if sec["layered"]:
        for a in ("name", "short", "version", "type"):
            if getattr(c2.base_product, a) != getattr(ci.base_product, a):
                fails.append("base_product.%s: wrote %r, read %r" % (a, getattr(ci.base_product, a), getattr(c2.base_product, a)))
    for a in ("id", "type", "date", "respin", "label"):
        if getattr(c2.compose, a) != getattr(ci.compose, a):
            fails.append("compose.%s: wrote %r, read %r" % (a, getattr(ci.compose, a), getattr(c2.compose, a)))
    if bool(c2.compose.final) != obj["normfinal"]:
        fails.append("compose.final: expected %r after the cycle (label %r), read %r" % (obj["normfinal"], ci.compose.label, c2.compose.final))
    uids = {conc.uid(nd["path"]): nd for nd in obj["nodes"]}
    tops = sorted(conc.tok[nd["path"][0]] for nd in obj["nodes"] if len(nd["path"]) == 1) + ([conc.dashid] if obj["dashed"] else [])
    if sorted(c2.variants.variants) != sorted(tops):
        fails.append("top-level variants: wrote %s, read %s" % (sorted(tops), sorted(c2.variants.variants)))
    for uid, nd in uids.items():
        try:
            a, b = ci[uid], c2[uid]
        except Exception as exc:
            fails.append("variant %s not found after re-read: %s" % (uid, exc))
            continue
        for f in ("id", "uid", "name", "type", "arches"):
            if getattr(a, f) != getattr(b, f):
                fails.append("variant %s.%s: wrote %r, read %r" % (uid, f, getattr(a, f), getattr(b, f)))
        pa = None if a.parent is None else a.parent.uid
        pb = None if b.parent is None else b.parent.uid
        if pa != pb:
            fails.append("variant %s parent: wrote %r, read %r" % (uid, pa, pb))
        if sorted(a.variants) != sorted(b.variants):
            fails.append("variant %s children: wrote %s, read %s" % (uid, sorted(a.variants), sorted(b.variants)))
        stored = {}
        for c, ar, cls in nd["stored"]:
            stored.setdefault(conc.cat[c], {})[conc.arch[ar]] = "%s/%s/%s" % (uid, conc.arch[ar], conc.cat[c])
        for cat in cats():
            if getattr(b.paths, cat, "<attribute missing>") != stored.get(cat, {}):
                fails.append("variant %s paths.%s: expected %r, read %r" % (uid, cat, stored.get(cat, {}),
                                                                             getattr(b.paths, cat, "<attribute missing>")))
        if nd["type"] == "layered-product":
            for f in ("name", "short", "version", "type"):
                if getattr(a.release, f) != getattr(b.release, f):
                    fails.append("variant %s release.%s: wrote %r, read %r" % (uid, f, getattr(a.release, f), getattr(b.release, f)))
            # the release of a layered product is layered, whatever the object said before it was written
            if b.release.is_layered is not True:
                fails.append("variant %s release.is_layered: read %r for a layered-product variant" % (uid, b.release.is_layered))
    if obj["dashed"]:
        try:
            b = c2[conc.dashuid]
            if (b.id, b.uid, b.type, b.arches) != (conc.dashid, conc.dashuid, "variant", set([conc.arch["x"]])):
                fails.append("dashed top-level variant differs after re-read: %r" % ((b.id, b.uid, b.type, b.arches),))
        except Exception as exc:
            fails.append("dashed top-level variant %s not found after re-read: %s" % (conc.dashuid, exc))
        if obj.get("dashkid"):
            try:
                k = c2[conc.dashuid].variants[conc.tok["o"]]     # reached through its parent (lookup by UID is C11's subject)
                if (k.id, k.type, k.parent.uid if k.parent is not None else None) != (conc.tok["o"], "optional", conc.dashuid):
                    fails.append("child of the dashed top-level variant differs after re-read: %r" % ((k.id, k.type, k.parent),))
            except Exception as exc:
                fails.append("child of the dashed top-level variant not found after re-read: %s" % exc)
    return fails


def _prepare(ci, conc, obj):
    """Before anything is written: a path for an architecture the first top-level variant gets only LATER (not stored while the
    architecture is outside the variant's set - the documented normalisation - but it stays in the object)."""
    tops = sorted(n["path"] for n in obj["nodes"] if len(n["path"]) == 1)
    if tops:
        v = ci[conc.uid(tops[0])]
        new = [a for a in ("s390x", "armhfp", "riscv64") if a not in conc.arch.values()][0]
        getattr(v.paths, conc.cat["c2"])[new] = "%s/%s/prepared" % (v.uid, new)


def _grow(ci, conc, obj, reread=False):
    """A legal later edit: a top-level variant gains an architecture and a path for it."""
    top = sorted(n["path"] for n in obj["nodes"] if len(n["path"]) == 1)[0]
    v = ci[conc.uid(top)]
    new = [a for a in ("s390x", "armhfp", "riscv64") if a not in conc.arch.values()][0]
    v.arches.add(new)
    if reread:
        # the re-read object never knew the prepared path (it was not stored): the caller supplies it again
        getattr(v.paths, conc.cat["c2"])[new] = "%s/%s/prepared" % (v.uid, new)
    getattr(v.paths, conc.cat["c1"])[new] = "%s/%s/grown" % (v.uid, new)
    getattr(v.paths, conc.cat["c3"])[new] = "%s/%s/grown3" % (v.uid, new)


def mutate_and_redump(obj, conc, ci, c2):
    """Objects that were already written (ci) or read (c2) are edited and written again: the bytes must be those of a
    freshly built object with the same content (no state of earlier dumps/loads may leak)."""
    fails = []
    fresh = build(obj, conc)
    fresh.compose.id = ci.compose.id
    _grow(fresh, conc, obj)
    want = fresh.dumps()
    for name, o in (("already-written", ci), ("re-read", c2)):
        try:
            _grow(o, conc, obj, reread=(name == "re-read"))
            got = o.dumps()
        except Exception as exc:
            fails.append("%s object edited and written again: %s: %s" % (name, type(exc).__name__, exc))
            continue
        if got != want:
            a, b = json.loads(got)["payload"]["variants"], json.loads(want)["payload"]["variants"]
            diff = [u for u in sorted(set(a) | set(b)) if a.get(u) != b.get(u)]
            fails.append("%s object edited (new arch + paths) and written again differs from a freshly built object with the same "
                         "content; variants differing: %s" % (name, diff))
    return fails


def evaluate(case):
    from productmd.composeinfo import ComposeInfo
    conc = Conc(case.get("rot", 0))
    obj = case["obj"]
    what = "compose %s" % json.dumps({"nodes": [[n["path"], n["type"], n["arches"], n["paths"]] for n in obj["nodes"]],
                                      "dashed": obj["dashed"], "dashkid": obj.get("dashkid", False), "sec": obj["sec"], "rot": conc.rot}, sort_keys=True)[:700]
    if obj["dashed"]:
        # earlier in the same process ANOTHER compose was read in which the dashed UID of this one is the UID of a (grand)child
        # (Server + optional -> Server-optional): nothing of it may be remembered
        try:
            from productmd.composeinfo import Variant
            other = build({"nodes": [], "dashed": False, "sec": obj["sec"]}, conc)
            parts = conc.dashuid.split("-")
            par = other.variants
            for i, part in enumerate(parts):
                k = Variant(other)
                k.id, k.uid, k.name, k.type, k.arches = part, "-".join(parts[:i + 1]), part, "variant" if i == 0 else "optional", set([conc.arch["x"]])
                par.add(k)
                par = k
            ComposeInfo().loads(other.dumps())
        except Exception:
            pass
    try:
        ci = build(obj, conc)
        text = ci.dumps()
    except Exception as exc:
        return ["%s: valid description refused: %s: %s" % (what, type(exc).__name__, exc)]
    got = json.loads(text)
    exp = render(case["doc"], conc)
    exp["payload"]["compose"]["id"] = ci.compose.id
    why = contains(exp, got)
    fails = []
    if why:
        fails.append("%s: written document differs from the documented layout: %s" % (what, why))
    # nothing beyond the stored paths may appear in a variant's path table
    if not isinstance(got.get("payload", {}).get("variants"), dict):
        return fails + ["%s: the written document has no payload/variants table" % what]
    for uid, v in got["payload"]["variants"].items():
        e = exp["payload"]["variants"].get(uid)
        if e is not None and v.get("paths", {}) != e.get("paths", {}):
            fails.append("%s: variant %s paths table %r, documented %r" % (what, uid, v.get("paths"), e.get("paths")))
    if set(got["payload"]["variants"]) != set(exp["payload"]["variants"]):
        fails.append("%s: variants written %s, expected %s" % (what, sorted(got["payload"]["variants"]), sorted(exp["payload"]["variants"])))
    c2 = ComposeInfo()
    try:
        c2.loads(text)
    except Exception as exc:
        return fails + ["%s: written document cannot be read back: %s: %s" % (what, type(exc).__name__, exc)]
    fails += ["%s: %s" % (what, f) for f in check_reread(obj, conc, ci, c2)]
    try:
        text2 = c2.dumps()
    except Exception as exc:
        return fails + ["%s: re-read object cannot be written: %s: %s" % (what, type(exc).__name__, exc)]
    if text2 != text:
        fails.append("%s: writing the re-read object does not reproduce the file byte for byte" % what)
    if case.get("viafile"):
        def reload(p):
            c3 = ComposeInfo()
            c3.load(p)
            return c3.dumps()
        fails += core.file_cycle(ci, text, what, "composeinfo.json", reload=reload)
    if not fails:
        fails += core.dict_cycle(ci, text, what)
    if not fails and case.get("uptype"):
        # release types spelled with capitals: the documented normalisation is case-folding.  If the library agrees to write
        # such a description, the cycle must hold for it (file re-read and re-written byte for byte, type read lower-case)
        up = build(obj, conc)
        up.compose.id = ci.compose.id
        up.release.type = up.release.type.upper()
        if obj["sec"]["layered"]:
            up.base_product.type = up.base_product.type.capitalize()
        for nd in obj["nodes"]:
            if nd["type"] == "layered-product":
                up[conc.uid(nd["path"])].release.type = "GA"
        try:
            t_up = up.dumps()
        except (ValueError, TypeError):
            t_up = None                     # not agreed to write: outside the claim
        if t_up is not None:
            c4 = ComposeInfo()
            try:
                c4.loads(t_up)
                if c4.release.type != obj["sec"]["reltype"]:
                    fails.append("%s: release type written as %r is read back as %r, documented: case-folded" % (what, up.release.type, c4.release.type))
                if c4.dumps() != t_up:
                    fails.append("%s: description with release types in capitals is written, but writing the re-read object does not reproduce the file" % what)
            except Exception as exc:
                fails.append("%s: description with release types in capitals is written but cannot be read back: %s: %s" % (what, type(exc).__name__, exc))
    if not fails and obj["nodes"]:
        fails += ["%s: %s" % (what, f) for f in mutate_and_redump(obj, conc, ci, c2)]
    return fails[:6]
