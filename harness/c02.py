"""C02 Image manifests survive a write/read cycle unchanged (ImagesDoc.tla)."""
import json

from . import core, samples
from .ci_adapter import contains

FIELDS = ["path", "mtime", "size", "volume_id", "type", "format", "arch", "disc_number", "disc_count", "checksums", "implant_md5",
          "bootable", "subvariant", "unified", "additional_variants"]
PATHS = [{"p1": "Server/x86_64/iso/z-boot.iso", "p2": "Server/x86_64/iso/a-dvd.iso", "p3": "unified/m.iso", "p4": "Client/b.iso",
          "p5": "Server/x86_64/iso/a-dvd2.iso", "p6": "0/first.iso", "p8": "x/p8.iso", "p9": "Server/x86_64/iso/twin.iso", "p10": "Server/x86_64/os/images/z-boot.iso", "p11": "unified/n.iso"},
         {"p1": "b.iso", "p2": "a.iso", "p3": "B.iso", "p4": "a/a.iso", "p5": "a.iso.2", "p6": "_.iso", "p8": "p8", "p9": "c.iso", "p10": "latest/b.iso", "p11": "C.iso"},
         # legal spellings that are not in normal form: a path is stored and written as the producer spelled it
         {"p1": "./Server/x86_64/iso/z.iso", "p2": "Server//x86_64/iso/a.iso", "p3": "unified/x/../m.iso", "p4": "Client/./b.iso", "p5": "Server/x86_64/iso/a.iso",
          "p6": "0/first.iso/", "p8": "x/p8.iso", "p9": "Server/x86_64//iso/a.iso", "p10": "./Server//x86_64/iso/z.iso", "p11": "unified/m.iso"}]
VARS = [{"V1": "Server", "V2": "Client", "V-3": "Server-optional"}, {"V1": "b", "V2": "a", "V-3": "a-b"}]
AV = {"none": [], "one": ["Client"], "two": ["Workstation", "Client"]}
COMPOSES = [dict(label=None, final=False, ctype="production", respin=0), dict(label="RC-2.1", final=True, ctype="nightly", respin=3),
            dict(label="Beta-1.0", final=False, ctype="test", respin=10 ** 7),
            # the ID is free-form text: what follows the date need not be a type suffix the library knows
            dict(label=None, final=False, ctype="production", respin=2, cid="Foo-1.0-20170217.production.2"),
            dict(label="RC-1.0", final=True, ctype="nightly", respin=1, cid="Fedora-22-20150522.respin.1")]


class Conc(object):
    def __init__(self, rot):
        from . import enums as C
        IM = C
        self.rot = rot
        self.paths = PATHS[rot % 3]
        self.vars = VARS[(rot // 2) % 2]
        bins = [a for a in C.RPM_ARCHES if a not in ("src", "nosrc")]
        self.arch = {"a1": bins[(rot * 2) % len(bins)], "a2": bins[(rot * 2 + 1) % len(bins)]}
        self.types = sorted(IM.IMAGE_TYPE_FORMAT_MAPPING)
        self.fmap = IM.IMAGE_TYPE_FORMAT_MAPPING
        self.allfmt = IM.SUPPORTED_IMAGE_FORMATS
        self.compose = COMPOSES[rot % len(COMPOSES)]

    def fields(self, n, spec):
        j = int(n[1:])
        own = j
        if spec.get("twinof", n) != n:
            # same identity as its twin (every identifying attribute), but its own path, mtime and checksums
            f = self.fields(spec["twinof"], dict(spec, twinof=spec["twinof"], pathof=n))
            f["mtime"] = 1432300000 + j
            if spec.get("sumsof", n) == n:
                f["checksums"] = {"sha256": "%x" % (j % 16) * 64}
            return f
        t = self.types[(self.rot * 6 + j) % len(self.types)]
        fmts = self.fmap[t] or self.allfmt
        if self.rot % 2:
            fmts = self.allfmt          # type and format are two enumerations: the usual pairing is a default, not a rule
        return {"path": self.paths[spec.get("pathof", n)], "mtime": 1432300000 + j, "size": 1234 + j if spec["size"] == "small" else (1 << (33 if self.rot % 3 else 62)) + j,
                "volume_id": None if spec["volume_id"] == "null" else "Vol %s-22" % n + ("  " if (self.rot + j) % 3 == 0 else ""), "type": t, "format": fmts[(self.rot + j) % len(fmts)],
                "arch": [self.arch["a1"], self.arch["a2"], "src"][j % 3], "disc_number": spec["disc_number"], "disc_count": spec.get("disc_count", 3),
                "checksums": {"sha256": "%x" % j * 64} if spec["checksums"] == "one" else {"md5": "%x" % j * 32, "sha256": "%x" % (j + 6) * 64},
                "implant_md5": None if spec["implant_md5"] == "null" else ("0123456789abcdef" * 2)[j:] + "f" * j,
                "bootable": spec["bootable"], "subvariant": "Sub %s" % n, "unified": spec["unified"],
                "additional_variants": list(AV[spec["additional_variants"]])}


def render_img(doc, conc, pool):
    n = doc["n"]
    f = conc.fields(n, pool[n])
    out = {k: f[k] for k in doc if k in f}
    return out


def evaluate(case):
    from productmd.images import Images, Image
    conc = Conc(case.get("rot", 0))
    pool = case["pool"]
    m = Images()
    samples.set_compose(m.compose, **{k: v for k, v in conc.compose.items() if k != "cid"})
    if conc.compose.get("cid"):
        m.compose.id = conc.compose["cid"]
    objs = {}
    for n, spec in pool.items():
        img = Image(m)
        for k, v in conc.fields(n, spec).items():
            setattr(img, k, v)
        objs[n] = img
    what = "manifest %s rot=%d" % (json.dumps(sorted((c["v"], c["a"], sorted(c["imgs"])) for c in case["obj"])), conc.rot)
    refused = set()
    try:
        for c in sorted(case["obj"], key=lambda c: (c["a"], c["v"])):
            for n in sorted(c["imgs"], reverse=True):
                try:
                    m.add(conc.vars[c["v"]], conc.arch[c["a"]], objs[n])
                except ValueError:
                    # callers that file one image under several variants catch the refusal and go on; the same call again
                    # must be refused again - and the refused image is not in the manifest
                    try:
                        m.add(conc.vars[c["v"]], conc.arch[c["a"]], objs[n])
                    except ValueError:
                        refused.add((c["v"], c["a"], n))
        if conc.rot % 3 == 0:
            # an image withdrawn again: the emptied (variant, arch) set holds nothing to write
            tmp = Image(m)
            for k, v in conc.fields("p2", pool["p2"]).items():
                setattr(tmp, k, v)
            tmp.path, tmp.subvariant = "withdrawn.iso", "Withdrawn"
            m.add("Withdrawn", conc.arch["a1"], tmp)
            m.images["Withdrawn"][conc.arch["a1"]].remove(tmp)
        text = m.dumps()
    except Exception as exc:
        if not case.get("valid", True) and isinstance(exc, (ValueError, TypeError)):
            return []                   # the library does not agree to write it: outside the claim (C06 judges refusals)
        return ["%s: valid manifest refused: %s: %s" % (what, type(exc).__name__, exc)]
    got = json.loads(text)
    fails = []
    exp = {}
    for v, arches in case["images"].items():
        for a, cell in arches.items():
            lst = [render_img(d, conc, pool) for d in cell["bypath"] if (v, a, d["n"]) not in refused]
            if lst:
                exp.setdefault(conc.vars[v], {})[conc.arch[a]] = sorted(lst, key=lambda d: d["path"])
    gi = got["payload"]["images"]
    if {v: sorted(gi[v]) for v in gi} != {v: sorted(exp[v]) for v in exp}:
        fails.append("%s: cells written %s, expected %s" % (what, {v: sorted(gi[v]) for v in gi}, {v: sorted(exp[v]) for v in exp}))
    else:
        for v in exp:
            for a in exp[v]:
                if gi[v][a] != exp[v][a]:
                    fails.append("%s: cell %s/%s written as %s, documented layout %s" % (what, v, a, json.dumps(gi[v][a], sort_keys=True)[:400],
                                                                                         json.dumps(exp[v][a], sort_keys=True)[:400]))
                    break
    ec = {"id": m.compose.id, "type": m.compose.type, "date": m.compose.date, "respin": m.compose.respin}
    if m.compose.label:
        ec.update({"label": m.compose.label, "final": m.compose.final})
    if got["payload"].get("compose") != ec:
        fails.append("%s: compose section written as %s, expected %s" % (what, got["payload"].get("compose"), ec))
    if got["header"].get("type") != "productmd.images":
        fails.append("%s: header type %r" % (what, got["header"].get("type")))
    m2 = Images()
    try:
        m2.loads(text)
    except Exception as exc:
        return fails + ["%s: written manifest cannot be read back: %s: %s" % (what, type(exc).__name__, exc)]
    cells = {(conc.vars[c["v"]], conc.arch[c["a"]]): [n for n in c["imgs"] if (c["v"], c["a"], n) not in refused] for c in case["obj"]}
    cells = {k: v for k, v in cells.items() if v}
    got_cells = {(v, a) for v in m2.images for a in m2.images[v]}
    if got_cells != set(cells):
        fails.append("%s: cells after re-read %s, written %s" % (what, sorted(got_cells), sorted(cells)))
    for (v, a), names in cells.items():
        imgs = list(m2.images.get(v, {}).get(a, []))
        if len(imgs) != len(names):
            fails.append("%s: cell %s/%s holds %d images after re-read, %d were written" % (what, v, a, len(imgs), len(names)))
            continue
        bypath = {i.path: i for i in imgs}
        for n in names:
            f = conc.fields(n, pool[n])
            i2 = bypath.get(f["path"])
            if i2 is None:
                fails.append("%s: image %s missing from %s/%s after re-read" % (what, f["path"], v, a))
                continue
            for k in FIELDS:
                gv = getattr(i2, k, "<attribute missing>")
                if gv != f[k] or type(gv) is not type(f[k]):
                    fails.append("%s: image %s in %s/%s: %s written %r, read %r" % (what, f["path"], v, a, k, f[k], gv))
    c2 = m2.compose
    if (c2.id, c2.type, c2.date, c2.respin, c2.label, bool(c2.final)) != (m.compose.id, m.compose.type, m.compose.date, m.compose.respin,
                                                                         m.compose.label, bool(m.compose.label and m.compose.final)):
        fails.append("%s: compose section differs after re-read" % what)
    try:
        if m2.dumps() != text:
            fails.append("%s: writing the re-read manifest does not reproduce the file byte for byte" % what)
    except Exception as exc:
        fails.append("%s: re-read manifest cannot be written: %s: %s" % (what, type(exc).__name__, exc))
    if case.get("viafile"):
        def reload(p):
            m3 = Images()
            m3.load(p)
            return m3.dumps()
        fails += core.file_cycle(m, text, what, "images.json", reload=reload)
    if not fails and case.get("valid", True):
        fails += core.dict_cycle(m, text, what)
    if not fails and case.get("valid", True) and conc.rot % 2 == 0:
        # written to a path, edited so that the text keeps its LENGTH (time stamp and digest of the same width), written to the
        # same path again: the file holds the new manifest
        import os
        import shutil
        import tempfile
        d = tempfile.mkdtemp(prefix="verif-c02-")
        try:
            pth = os.path.join(d, "images.json")
            m.dump(pth)
            img0 = None
            for v in sorted(m.images):
                for a in sorted(m.images[v]):
                    for i0 in sorted(m.images[v][a], key=lambda i: i.path):
                        img0 = img0 or i0
            if img0 is not None:
                keep0 = (img0.mtime, dict(img0.checksums))
                img0.mtime += 777
                img0.checksums = {k: ("e" if val[0] != "e" else "d") * len(val) for k, val in img0.checksums.items()}
                try:
                    now = m.dumps()
                    m.dump(pth)
                    on_disk = open(pth).read()
                    if len(now) == len(text) and on_disk != now:
                        fails.append("%s: written to a path, then time stamp and digests edited (same width) and written to the same path "
                                     "again: the file still holds %s" % (what, "the first manifest" if on_disk == text else "something else"))
                finally:
                    img0.mtime, img0.checksums = keep0[0], keep0[1]
        finally:
            shutil.rmtree(d, ignore_errors=True)
    if not fails and case.get("valid", True):
        # an image of the re-read manifest is promoted in place (unified, one more variant); the unchanged file read afterwards
        # by another object is what it was
        promoted = None
        for v in sorted(m2.images):
            for a in sorted(m2.images[v]):
                for img in sorted(m2.images[v][a], key=lambda i: i.path):
                    if promoted is None and not img.unified:
                        img.unified = True
                        img.additional_variants.append("Elsewhere")
                        promoted = img
        if promoted is not None:
            try:
                m5 = Images()
                m5.loads(text)
                if m5.dumps() != text:
                    fails.append("%s: after an image of an earlier re-read manifest was promoted in place (unified, one more variant), "
                                 "the unchanged file is read and re-written differently" % what)
            except Exception as exc:
                fails.append("%s: after an image of an earlier re-read manifest was promoted in place (unified, one more variant), "
                             "the unchanged file cannot be read: %s: %s" % (what, type(exc).__name__, exc))
            promoted.additional_variants.remove("Elsewhere")
            promoted.unified = False
    if not fails and case.get("valid", True):
        # an already-written manifest is edited and written again: the new values must be in the file
        first = sorted(case["obj"], key=lambda c: (c["v"], c["a"]))[0]
        n = sorted(first["imgs"])[0]
        for name, man in (("already-written", m), ("re-read", m2)):
            cell = man.images[conc.vars[first["v"]]][conc.arch[first["a"]]]
            img = [i for i in cell if i.path == conc.fields(n, pool[n])["path"]][0]
            img.mtime += 1000
            img.bootable = not img.bootable
            img.checksums = dict(img.checksums, sha1="f" * 40)
            try:
                recs = json.loads(man.dumps())["payload"]["images"][conc.vars[first["v"]]][conc.arch[first["a"]]]
            except Exception as exc:
                fails.append("%s: %s manifest edited and written again: %s: %s" % (what, name, type(exc).__name__, exc))
                continue
            rec = [r for r in recs if r["path"] == img.path][0]
            if (rec["mtime"], rec["bootable"], rec["checksums"]) != (img.mtime, img.bootable, img.checksums):
                fails.append("%s: %s manifest edited (mtime, bootable, checksums of %s) and written again still shows the old values: %s"
                             % (what, name, img.path, {k: rec[k] for k in ("mtime", "bootable", "checksums")}))
            # ... and an edit that breaks a rule: whatever the library then agrees to write must still be read back as written
            keep = (img.format, img.volume_id)
            img.format, img.volume_id = img.format.upper(), ""
            try:
                t_bad = man.dumps()
            except (ValueError, TypeError):
                t_bad = None
            if t_bad is not None:
                try:
                    m4 = Images()
                    m4.loads(t_bad)
                    if m4.dumps() != t_bad:
                        fails.append("%s: %s manifest edited (format %r, volume id '') was written and is read back differently" % (what, name, img.format))
                except Exception as exc:
                    fails.append("%s: %s manifest edited (format %r, volume id '') was written but cannot be read back: %s: %s"
                                 % (what, name, img.format, type(exc).__name__, exc))
            img.format, img.volume_id = keep
    return fails[:6]


def gen(ctx, mc, mp, twin=True):
    out = []
    consts = {"MaxCells": mc, "MaxPerCell": mp, "WithTwin": twin}
    ctx.require_ok(ctx.tlc("ImagesDoc", cfg_text=core.cfg_with("ImagesDoc.cfg", [], consts), on_emit=out.append, constants=consts, timeout=1800))
    return out


def run(ctx):
    ctx.rule = ("TLC enumerates every manifest filing images of a six-image pool (null/non-empty volume id, null/32-hex implanted md5, one/two "
                "checksum types, sizes > 2^33, unified images with 0/1/2 additional variants, different disc numbers) into <= 2 (quick) cells "
                "of 3 variants x 2 arches with <= 2/3 images per cell (and one cell of up to 4/5), the same image possibly in several cells, with the documented document; "
                "type/format rotate over all supported types and formats, arches over the whole table; built through Images.add, written, "
                "compared by an independent JSON reader, read back comparing all fifteen attributes per image per cell, re-written byte for "
                "byte. non-trivial = distinct (manifest, concretisation)")
    cases = gen(ctx, 2, 2 if ctx.quick else 3)
    cases += gen(ctx, 1, 4 if ctx.quick else 5, twin=False)         # one crowded cell: the order of a longer list
    if not ctx.quick:
        cases += [c for i, c in enumerate(gen(ctx, 3, 2, twin=False)) if i % 4 == ctx.seed % 4]
    for i, c in enumerate(cases):
        c["rot"] = (i + ctx.seed) % 132
        c["viafile"] = (i % 41 == 0)
    ctx.exhaustive = True
    ctx.evaluate(evaluate, cases, label="manifest", chunk=100, key=lambda c: core._digest([c["obj"], c["rot"]]))


def replay(info):
    return evaluate(info["case"])
