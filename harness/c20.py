"""C20 A compose directory is resolved to the same metadata in every supported layout (ComposeLayout.tla)."""
import gc
import json
import os
import shutil
import tempfile
import zlib

from . import core, samples

SUB = {"R": "", "C": "compose", "L1": "1.0", "L2": "7.2-updates"}
IDX = {"R": 1, "C": 2, "L1": 3, "L2": 4}
CLS = {"info": "composeinfo", "images": "images", "rpms": "rpms", "modules": "modules"}


def _doc(kind, respin):
    obj = samples.build(CLS[kind], 0)
    obj.compose.respin = respin
    obj.compose.id = "Fedora-22-20150522.%d" % respin
    return obj.dumps()


_CACHE = {}


def doc(kind, respin):
    k = (kind, respin)
    if k not in _CACHE:
        _CACHE[k] = _doc(kind, respin)
    return _CACHE[k]


def content(kind, cls, respin):
    if cls == "valid":
        return doc(kind, respin)
    if cls == "validempty":
        # a valid manifest with an empty payload table
        d = json.loads(doc(kind, respin))
        d["payload"][CLS[kind]] = {}
        return json.dumps(d)
    if cls == "notjson":
        return "this is not { json"
    if cls == "empty":
        return ""
    other = {"images": "rpms", "rpms": "modules", "modules": "images", "info": "images"}[kind]
    return doc(other, respin)                    # a valid document of another format


CURRENT_NAMES = ("images.json", "rpms.json")
_REF = {}


def _both_reference(kind):
    """Does the library prefer the current name in the plain direct layout? (None if it cannot be told)"""
    if kind not in _REF:
        import productmd.compose
        d = tempfile.mkdtemp(prefix="verif-c20ref-")
        try:
            case = {"st": {"R": "meta_ci", "C": "absent", "L1": "absent", "L2": "absent"}, "names": "both", "content": "valid", "cibad": False}
            path = materialise(case, d)
            obj = getattr(productmd.compose.Compose(path), kind)
            cur = type(obj)()
            cur.load(os.path.join(path, "metadata", "images.json" if kind == "images" else "rpms.json"))
            _REF[kind] = obj.dumps() == cur.dumps()
        except Exception:
            _REF[kind] = None
        finally:
            shutil.rmtree(d, ignore_errors=True)
    return _REF[kind]


# directory names are free text: brackets, stars and question marks (what glob takes for patterns), blanks
PATHNAMES = ["compose-dir", "Foo-1.0-20240102.0[nightly]", "a star * and ? mark", "nightly-compose", "compose"]


def materialise(case, root):
    path = os.path.join(root, PATHNAMES[0 if case.get("http") else case.get("pathname", 0)])
    st = case["st"]
    if st["R"] == "absent":
        return path
    if case.get("link", "none") != "none":
        # the path handed to Compose() is a symbolic link; the directory itself lives next to it
        real = os.path.join(root, "real", "Fedora-22-20150522.0")
        os.makedirs(real)
        os.symlink(os.path.join("real", "Fedora-22-20150522.0") if case["link"] == "rel" else real, path)
    for d in ("R", "C", "L1", "L2"):
        if st[d] == "absent":
            continue
        dp = os.path.join(path, SUB[d])
        os.makedirs(dp, exist_ok=True)
        if st[d] in ("meta", "meta_ci"):
            md = os.path.join(dp, "metadata")
            os.makedirs(md, exist_ok=True)
            i = IDX[d]
            if st[d] == "meta_ci":
                with open(os.path.join(md, "composeinfo.json"), "w") as fh:
                    fh.write("}{ not json" if case["cibad"] else doc("info", i))
            n = case["names"]
            files = {}
            if n in ("cur", "both", "mix_rl", "both_curbad", "both_legbad"):
                files["images.json"] = ("images", i)
            if n in ("cur", "both", "mix_il", "both_curbad", "both_legbad"):
                files["rpms.json"] = ("rpms", i)
            if n in ("leg", "both", "mix_il", "both_curbad", "both_legbad"):
                files["image-manifest.json"] = ("images", i + 10)
            if n in ("leg", "both", "mix_rl", "both_curbad", "both_legbad"):
                files["rpm-manifest.json"] = ("rpms", i + 10)
            if n != "none":
                files["modules.json"] = ("modules", i)
            broken = {"both_curbad": CURRENT_NAMES, "both_legbad": ("image-manifest.json", "rpm-manifest.json")}.get(n, ())
            for name, (kind, respin) in files.items():
                with open(os.path.join(md, name), "w") as fh:
                    fh.write(content(kind, "notjson" if name in broken else case["content"], respin))
    return path


def evaluate(case):
    import productmd.compose
    import productmd.composeinfo, productmd.images, productmd.rpms, productmd.modules  # noqa
    root = tempfile.mkdtemp(prefix="verif-c20-")
    fails = []
    what = "layout %s names=%s content=%s cibad=%s slash=%s" % (json.dumps(case["st"], sort_keys=True), case["names"], case["content"],
                                                                case["cibad"], case["slash"]) + (" reversed-access" if case.get("rev") else "")
    if case.get("link", "none") != "none":
        what += " given-as-symlink(%s target)" % case["link"]
    if case.get("pathname") and not case.get("http"):
        what += " directory-named(%r)" % PATHNAMES[case["pathname"]]
    try:
        path = materialise(case, root)
        arg = path + ("/" if case["slash"] else "")
        unstub = None
        if case.get("http"):
            # the compose served over HTTP: urlopen is replaced by a stub that serves the materialised directory
            import productmd.common
            import urllib.error
            base = "http://example.noexist/c/compose-dir"
            req = productmd.common.six.moves.urllib.request
            orig = req.urlopen

            def fake(url, **kw):
                rel = url[len(base):].lstrip("/") if url.startswith(base) else None
                local = None if rel is None else os.path.join(path, rel)
                if local is None or not os.path.exists(local):
                    raise urllib.error.HTTPError(url, 404, "Not Found", None, None)
                if os.path.isdir(local):
                    import io
                    return io.StringIO("<html>index</html>")
                return open(local, "r")
            req.urlopen = fake
            unstub = lambda: setattr(req, "urlopen", orig)      # noqa: E731
            arg = base + ("/" if case["slash"] else "")
            what += " over-http"
        try:
            return _evaluate(case, what, root, path, arg, fails)
        finally:
            if unstub:
                unstub()
    finally:
        shutil.rmtree(root, ignore_errors=True)


def _evaluate(case, what, root, path, arg, fails):
    import productmd.compose
    http = bool(case.get("http"))
    if True:
        try:
            c = productmd.compose.Compose(arg)
        except Exception as exc:
            return ["%s: Compose(path) raised %s: %s" % (what, type(exc).__name__, exc)]
        allowed = {os.path.normpath(os.path.join(path, SUB[d])): d for d in case["resolved"]}
        got = os.path.normpath(c.compose_path)
        if case.get("link", "none") != "none":
            # whether the library reports the link or what it points to is open: compare the places
            allowed = {os.path.realpath(k): v for k, v in allowed.items()}
            got = os.path.realpath(c.compose_path if os.path.isabs(c.compose_path) else os.path.join(os.path.dirname(path), c.compose_path))
        if http:
            base = "http://example.noexist/c/compose-dir"
            got = os.path.normpath(path + c.compose_path[len(base):]) if c.compose_path.startswith(base) else c.compose_path
        if got not in allowed:
            return ["%s: compose_path resolved to %s, documented precedence allows %s" % (what, os.path.relpath(got, root),
                                                                                         sorted(os.path.relpath(a, root) for a in allowed))]
        d = allowed[got]
        exp = case["exp"][d]
        order = ("info", "images", "rpms", "modules")
        if case.get("rev"):
            order = tuple(reversed(order))
        for kind in order:
            e = exp[kind]
            try:
                obj = getattr(c, kind)
                out, err = "doc", None
            except RuntimeError as exc:
                out, err = "runtime", exc
            except Exception as exc:
                fails.append("%s: .%s raised %s instead of RuntimeError: %s" % (what, kind, type(exc).__name__, exc))
                continue
            if e["out"] == "onebad":
                # two candidate files, one undecodable: the library's preference (as it shows in the plain layout) decides
                ref = _both_reference(kind)
                if ref is None:
                    continue
                bad_is_current = e["bad"] in CURRENT_NAMES
                good = [fn for fn in e["files"] if fn != e["bad"]][0]
                if ref == bad_is_current:
                    if out == "doc":
                        fails.append("%s: .%s returned an object although the file the library prefers (%s) is undecodable - the content of "
                                     "%s was served instead" % (what, kind, e["bad"], good))
                    elif os.path.join(got, "metadata", e["bad"]) not in os.path.normpath(str(err)) and os.path.join(got, "metadata", e["bad"]) not in str(err):
                        fails.append("%s: RuntimeError for undecodable %s does not name the file: %r" % (what, e["bad"], str(err)))
                else:
                    if out != "doc":
                        fails.append("%s: .%s raised %s although the file the library prefers (%s) is valid" % (what, kind, err, good))
                    else:
                        direct = type(obj)()
                        direct.load(os.path.join(got, "metadata", good))
                        if obj.dumps() != direct.dumps():
                            fails.append("%s: .%s differs from loading %s directly" % (what, kind, good))
                continue
            if e["out"] == "doc":
                if out != "doc":
                    fails.append("%s: .%s raised %s although %s holds a valid file" % (what, kind, err, sorted(e["files"])))
                    continue
                texts = {}
                cls = type(obj)
                for fn in e["files"]:
                    direct = cls()
                    direct.load(os.path.join(got, "metadata", fn))
                    texts[fn] = direct.dumps()
                if obj.dumps() not in texts.values():
                    fails.append("%s: .%s differs from loading %s directly" % (what, kind, sorted(e["files"])))
                elif len(texts) == 2 and len(set(texts.values())) == 2:
                    # both names exist: the statement does not say which wins, but the choice may not depend on the layout.
                    # Reference: what the library picks in the plain direct layout.
                    chosen = [fn for fn, t in texts.items() if t == obj.dumps()][0]
                    ref = _both_reference(kind)
                    if ref is not None and (chosen in CURRENT_NAMES) != ref:
                        fails.append("%s: with both names present .%s comes from %s here but from the %s name in the direct layout"
                                     % (what, kind, chosen, "current" if ref else "legacy"))
                # loaded once, then reused: replace the files, access again
                for fn in e["files"]:
                    with open(os.path.join(got, "metadata", fn), "w") as fh:
                        fh.write(doc(kind, 99))
                again = getattr(c, kind)
                if again is not obj:
                    fails.append("%s: second access to .%s returned a different object (not cached)" % (what, kind))
                # ... also for a caller that keeps no reference of its own between two accesses (c.rpms.add(...); c.rpms[...])
                obj = again = direct = None
                getattr(c, kind).compose.respin = 4242
                if zlib.crc32(what.encode("utf-8", "replace")) % 8 == 0:
                    gc.collect()            # metadata objects are cyclic (header -> parent): only the collector frees them
                if getattr(c, kind).compose.respin != 4242:
                    fails.append("%s: an edit made through .%s is gone at the next access: the file was loaded a second time "
                                 "(the caller kept no reference in between)" % (what, kind))
            else:
                if out == "doc":
                    fails.append("%s: .%s returned an object although the file is %s" % (what, kind, e["out"]))
                    continue
                try:                   # a failed load must not be cached: the next access raises again
                    getattr(c, kind)
                    fails.append("%s: second access to .%s returned an object after the first raised RuntimeError (file %s)" % (what, kind, e["out"]))
                except RuntimeError:
                    pass
                except Exception as exc:
                    fails.append("%s: second access to .%s raised %s" % (what, kind, type(exc).__name__))
                msg = str(err)
                if http:
                    msg = msg.replace("http://example.noexist/c/compose-dir", path)
                if e["out"] == "missing":
                    if got not in msg and arg.rstrip("/") not in msg and os.path.normpath(got) not in os.path.normpath(msg):
                        fails.append("%s: RuntimeError for missing %s does not name the location: %r" % (what, kind, msg))
                else:
                    if not any(os.path.join(got, "metadata", fn) in msg or os.path.join(got, "metadata", fn) in os.path.normpath(msg)
                               for fn in e["files"]):
                        fails.append("%s: RuntimeError for undecodable %s does not name the file: %r" % (what, kind, msg))
    return fails


def run(ctx):
    ctx.rule = ("TLC enumerates every configuration of ComposeLayout.tla: states of the path, compose/, two legacy sub-directories "
                "(absent / plain / metadata / metadata with composeinfo) x manifest file names (current, legacy, both, none) x content "
                "(valid, not JSON, empty, other format) x undecodable composeinfo x trailing slash, with the allowed resolution set and "
                "the expected result of each accessor; each is materialised in a temp directory from real dumps with distinguishable "
                "content and opened by the real Compose: compose_path, accessor == direct load, identity on re-access after the files "
                "were replaced, RuntimeError naming the location/file. non-trivial = distinct configuration")
    ctx.assumptions += ["which of several legacy sub-directories wins, and which name wins when both exist, is left open (either accepted)",
                        "HTTP locations are not exercised (no network in the sandbox)"]
    cases = []
    mode = "quick" if ctx.quick else "full"
    ctx.require_ok(ctx.tlc("ComposeLayout", cfg_text=core.cfg_with("ComposeLayout.cfg", [], {"Mode": mode}), on_emit=cases.append,
                           constants={"Mode": mode}))
    for i, c in enumerate(cases):
        c["pathname"] = i % len(PATHNAMES)
    ctx.exhaustive = True
    ctx.evaluate(evaluate, cases, label="layout", chunk=40)
    access_histories(ctx)


def access_histories(ctx):
    """ComposeAccess.tla: the accessors as a state machine - histories of accesses, edits through an accessor and files that
    are replaced / corrupted / removed / appear elsewhere between two accesses, replayed on one real Compose object."""
    from . import compose_access as CA
    ctx.rule += ("; ComposeAccess.tla: TLC model-checks LoadedOnce / OnlyAccessFills / ServesDocument / FirstAccessIsDirectLoad / Frame "
                 "over every reachable state and refutes each of three deviations (no cache, remembered failure, fall-back to the "
                 "other file name); every history of ComposeAccessGen.tla (exhaustive per pair of kinds, random deep over all four) is "
                 "replayed on a real Compose over a real directory in the three layouts, comparing after every access the document "
                 "served, the object's identity, the caller's latest edit and the RuntimeError text; code -> spec: seeded random executions of the "
                 "real object (30-40 steps, all kinds, ten ways of being undecodable) are logged and validated by TLC against "
                 "Trace_ComposeAccess.tla, the action properties evaluated on every recorded step")
    base = open(os.path.join(core.SPEC_DIR, "MC_ComposeAccess.cfg")).read().replace("MaxFresh = 2", "MaxFresh = %d" % (1 if ctx.quick else 2))
    ctx.require_ok(ctx.tlc("MC_ComposeAccess", cfg_text=base, must_cover=["Access", "Edit", "FileSet", "Decoy"], timeout=3000))
    for dev, prop in (("Dev_NoCache", "LoadedOnce"), ("Dev_CacheFailure", "FirstAccessIsDirectLoad"), ("Dev_Fallback", "FirstAccessIsDirectLoad")):
        r = ctx.tlc("MC_ComposeAccess", cfg_text=base.replace("%s = FALSE" % dev, "%s = TRUE" % dev).replace("MaxFresh = 2", "MaxFresh = 1"),
                    expect_error=True, count=False)
        if r.violated is None:
            raise core.MachineryError("deviation %s should be refuted by TLC" % dev)
        ctx.notes["deviation_%s" % dev] = "TLC counterexample: %s violated" % r.violated
    # the same machine with UNBOUNDED content / edit numbers: inductive invariant discharged by Apalache (Apa_ComposeAccess.tla);
    # without the cache (ApaDev_ComposeAccess.tla) the inductive step must be refuted
    from . import apalache
    apalache.obligations(ctx, [("base: Init => IndInv", "Apa_ComposeAccess", "Init0", "IndInv", 0, "NoError"),
                               ("step: IndInv /\\ Next => IndInv'", "Apa_ComposeAccess", "IndInit", "IndInv", 1, "NoError"),
                               ("IndInv => an accessor holds and serves documents only", "Apa_ComposeAccess", "IndInit", "Safe", 0, "NoError"),
                               ("no cache: step refuted", "ApaDev_ComposeAccess", "IndInit", "IndInv", 1, "Error")])
    pref = CA.measure_pref()
    if pref is None:
        ctx.notes["access_histories"] = "skipped: the library's preference between current and legacy names could not be measured"
        return
    cases = CA.generate(ctx, core, pref)
    ctx.notes["access_histories"] = len(cases)
    ctx.exhaustive = False
    ctx.evaluate(CA.evaluate, cases, label="access", chunk=100)
    # code -> spec: random executions of the real object, logged and validated by TLC against Trace_ComposeAccess.tla
    from . import compose_access_traces as CT
    CT.validate(ctx, pref, 200 if ctx.quick else 4000, 30 if ctx.quick else 40)


def replay(info):
    if info["case"].get("kind") == "access-trace":
        from . import compose_access_traces as CT
        return CT.replay(info)
    if "hist" in info["case"]:
        from . import compose_access as CA
        return CA.evaluate(info["case"])
    return evaluate(info["case"])
