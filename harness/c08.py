"""C08 Serialisation is canonical: output depends on content only (Canon.tla)."""
import hashlib
import json
import os
import subprocess
import sys

from . import core, samples

# ------------------------------------------------------------------ part kinds: build(order) -> object


def _ci_base():
    from .forest_adapter import new_ci
    return new_ci()


def _variant(ci, vid, uid, arches=("x86_64",), vtype="variant"):
    from productmd.composeinfo import Variant
    v = Variant(ci)
    v.id, v.uid, v.name, v.type, v.arches = vid, uid, "N " + uid, vtype, set(arches)
    return v


def k_top_variants(order):
    ci = _ci_base()
    names = ["Server", "Client", "Workstation", "AtomicHost", "Cloud"]
    for i in order:
        ci.variants.add(_variant(ci, names[i - 1], names[i - 1]))
    return ci


def k_child_variants(order):
    ci = _ci_base()
    p = _variant(ci, "Server", "Server")
    ci.variants.add(p)
    names = ["optional", "HA", "RS", "SAP", "NFV"]
    for i in order:
        p.add(_variant(ci, names[i - 1], "Server-" + names[i - 1], vtype="addon"))
    return ci


def k_arches(order):
    ci = _ci_base()
    arches = ["x86_64", "ppc64le", "s390x", "aarch64", "i386"]
    v = _variant(ci, "Server", "Server", arches=())
    v.arches = set()
    for i in order:
        v.arches.add(arches[i - 1])
        v.paths.os_tree[arches[i - 1]] = "Server/%s/os" % arches[i - 1]
    v.paths.os_tree["riscv64"] = "Server/riscv64/os"          # prepared for an arch the variant gets later (see _edit)
    ci.variants.add(v)
    return ci


def k_free_arches(order):
    """composeinfo takes any architecture name: names the library's own table does not know."""
    ci = _ci_base()
    arches = ["xarch1", "yarch2", "aarch9", "zarch0", "marchx"]
    v = _variant(ci, "Server", "Server", arches=())
    v.arches = set()
    for i in order:
        v.arches.add(arches[i - 1])
        v.paths.os_tree[arches[i - 1]] = "Server/%s/os" % arches[i - 1]
    ci.variants.add(v)
    return ci


def k_path_entries(order):
    ci = _ci_base()
    v = _variant(ci, "Server", "Server", arches=("x86_64", "ppc64le"))
    ents = [("os_tree", "x86_64"), ("packages", "x86_64"), ("os_tree", "ppc64le"), ("debug_tree", "ppc64le"), ("isos", "x86_64")]
    for i in order:
        c, a = ents[i - 1]
        getattr(v.paths, c)[a] = "Server/%s/%s" % (a, c)
    ci.variants.add(v)
    return ci


def k_images(order):
    from productmd.images import Images
    m = Images()
    samples.set_compose(m.compose)
    # two paths that differ only in the leading zero of a number (equal under a "natural" ordering), and one that a natural
    # ordering would put elsewhere: the documented order is the plain one
    paths = ["d/disc-1.iso", "d/disc-01.iso", "m/b.iso", "B.iso", "d/disc-10.iso"]
    for i in order:
        # part 2 is a unified image whose additional_variants (a caller-ordered list: content) is not in sorted order
        # part 4 is the file of part 1 published under a second path: same identity, same checksums - both records are content
        j = 1 if i == 4 else i
        m.add("Server", "x86_64", samples.image(m, path=paths[i - 1], subvariant="S%d" % j,
                                                sums={"sha256": "%x" % j * 64, "md5": "%x" % j * 32},
                                                unified=(i == 2), av=(["Workstation", "Client", "Atomic"] if i == 2 else ())))
        if i == 1:
            m.add("Server", "ppc64le", samples.image(m, path="p.iso", subvariant="P"))
        if i == 1:
            # the same path again in a cell of its own variant ...
            m.add("Alpha", "x86_64", samples.image(m, path="shared/name.iso", subvariant="A", itype="live", sums={"sha256": "e" * 64}))
        if i == 3:
            # ... and another image with that path in yet another variant (paths are distinct per cell only); which of the two
            # variants is created first depends on the history
            m.add("Beta", "x86_64", samples.image(m, path="shared/name.iso", subvariant="B", itype="cd", sums={"sha256": "f" * 64}))
    return m


def k_rpms(order):
    from productmd.rpms import Rpms
    m = Rpms()
    samples.set_compose(m.compose)
    pk = ["bash", "zsh", "awk", "Xorg", "0ad"]
    for i in order:
        n = pk[i - 1]
        if i == 2 and list(order).index(2) < list(order).index(1):
            # (in the histories where part 2 comes before part 1:) a refused call on the way (a source package name without epoch) into a tree that gets nothing else: not content
            try:
                m.add("Workstation", "s390x", "%s-0:1-1.x86_64" % n, "p/%s.rpm" % n, None, "binary", "%s-1-1.src" % n)
            except ValueError:
                pass
        m.add("Server" if i % 2 else "Client", "x86_64" if i < 4 else "ppc64le", "%s-0:1-1.x86_64" % n, "p/%s.rpm" % n, None, "binary",
              "%s-0:1-1.src" % (n if i != 2 else "bash"))
    # a package filed in a tree of its own and taken out again: the emptied buckets are content like any other (every dump shows the same)
    m.add("Gone", "s390x", "gone-0:1-1.s390x", "p/gone.rpm", None, "binary", "gone-0:1-1.src")
    del m.rpms["Gone"]["s390x"]["gone-0:1-1.src"]["gone-0:1-1.s390x"]
    return m


def k_modules(order):
    from productmd.modules import Modules
    m = Modules()
    samples.set_compose(m.compose)
    uids = ["httpd:2.4", "perl:5.26:1", "django:1.6:2:c0ffee", "a:b", "Z:9"]
    shared = ["common-0:1-1.noarch"]           # one list object handed to every call, as callers do
    for i in order:
        m.add("Server" if i % 2 else "Client", "x86_64", uids[i - 1], "tag", "p/m%d.yaml" % i, ["binary", "debug", "source"][i % 3], shared)
        if i in (1, 2):                        # the same module on a second arch, then a second category for one of them
            m.add("Server" if i % 2 else "Client", "ppc64le", uids[i - 1], "tag", "p/m%d.yaml" % i, "binary", shared)
            # (several RPMs the entry does not list yet, next to one it does: their order is the caller's)
            m.add("Server" if i % 2 else "Client", "x86_64", uids[i - 1], "tag", "p/d%d.yaml" % i, "debug",
                  ["zdbg%d-0:1-1.noarch" % i, "common-0:1-1.noarch", "dbg%d-0:1-1.noarch" % i, "adbg%d-0:1-1.noarch" % i, "mdbg-0:1-1.noarch"])
    return m


def k_platforms(order):
    t = samples.treeinfo(0)
    pl = ["xen", "lpae", "p8", "A", "0"]
    t.tree.platforms = set()
    for i in order:
        t.tree.platforms.add(pl[i - 1])
    return t


def k_checksums(order):
    t = samples.treeinfo(0)
    # part 4 is a second spelling of part 3's path, as an older file had it (kept verbatim on load): an entry of its own
    ps = ["images/boot.iso", "Repo/repomd.xml", "a", "./a", "0/0"]
    for i in order:
        if i == 4:
            t.checksums.checksums[ps[i - 1]] = ["md5", "4" * 32]
        else:
            t.checksums.add(ps[i - 1], "sha256", "%x" % i * 64)
    return t


def k_image_table(order):
    t = samples.treeinfo(0)
    # "xen-x86_64" is a platform name like any other (it merely ends in the tree's architecture): a table of its own
    t.tree.platforms = set(["x86_64", "xen", "xen-x86_64"])
    ents = [("x86_64", "boot.iso"), ("x86_64", "Kernel"), ("xen", "kernel"), ("xen-x86_64", "kernel"), ("xen", "Initrd")]
    for i in order:
        p, n = ents[i - 1]
        t.images.images.setdefault(p, {})[n] = "images/%s/%s" % (p, n)
    return t


def k_treeinfo_variants(order):
    from productmd.treeinfo import Variant
    t = samples.treeinfo(0)
    names = ["Client", "Atomic", "Workstation", "Zeta", "B2"]
    for i in order:
        v = Variant(t)
        v.id = v.uid = v.name = names[i - 1]
        v.type = "variant"
        v.paths.packages = names[i - 1] + "/Packages"
        t.variants.add(v, variant_id=v.uid)
        if i == 1:
            c = Variant(t)
            c.id, c.uid, c.name, c.type = "HA", names[0] + "-HA", "HA", "addon"
            v.add(c)
    return t


def k_treeinfo_children(order):
    """One treeinfo variant whose children of every type are added in the given order."""
    from productmd.treeinfo import Variant
    t = samples.treeinfo(0)
    top = Variant(t)
    top.id = top.uid = top.name = "Zeta"
    top.type = "variant"
    top.paths.packages = "Zeta/Packages"
    t.variants.add(top, variant_id=top.uid)
    kids = [("HA", "addon"), ("optional", "optional"), ("Tools", "variant"), ("RS", "addon"), ("Extras", "optional")]
    for i in order:
        cid, ctype = kids[i - 1]
        c = Variant(t)
        c.id, c.uid, c.name, c.type = cid, "Zeta-" + cid, cid, ctype
        c.paths.repository = "Zeta/" + cid
        top.add(c)
    return t


def k_extra_files(order):
    """Extra-file entries are a caller-ordered list (content): orders are compared with themselves only; between two dumps
    the partial dump_for_tree is taken, which must not change what later dumps write."""
    from productmd.extra_files import ExtraFiles
    m = ExtraFiles()
    samples.set_compose(m.compose)
    files = ["Server/x86_64/os/GPL", "Server/x86_64/os/EULA", "Server/x86_64/os/Server/x86_64/os/README", "Server/x86_64/osx/X", "a"]
    for i in order:
        cks = {"sha256": "%x" % i * 64}
        cks["md5"] = "%x" % i * 32           # each record's checksum table is filled in an order that is not the sorted one
        cks["sha1"] = "%x" % i * 40
        m.add("Server", "x86_64", files[i - 1], 100 + i, cks)
    return m


def _between_extra_files(obj):
    import io
    obj.dump_for_tree(io.StringIO(), "Server", "x86_64", "Server/x86_64/os")
    obj.dump_for_tree(io.StringIO(), "Server", "x86_64", "Server/x86_64/os/")


def _edit(obj):
    """A legal edit of an object that may have been dumped before: the bytes afterwards must be those of a never-dumped object
    given the same edit."""
    if hasattr(obj, "tree"):
        obj.tree.arch = "ppc64le" if obj.tree.arch != "ppc64le" else "s390x"
    else:
        obj.compose.respin += 1
        try:
            if "riscv64" in obj["Server"].paths.os_tree:
                obj["Server"].arches.add("riscv64")           # the arch whose path was stored before the dumps
        except (KeyError, TypeError, AttributeError):
            pass


def _edit2(obj):
    """A second legal edit after one more dump: one architecture is swapped for another IN PLACE (the set keeps its size and its
    identity) and the new one gets its path."""
    try:
        v = obj["Server"]
        if not v.arches or "riscv64" not in v.paths.os_tree:
            return False
        a = sorted(v.arches)[0]
        v.arches.discard(a)
        v.arches.add("mips64el")
        v.paths.os_tree["mips64el"] = "Server/mips64el/os"
        return True
    except (KeyError, TypeError, AttributeError):
        return False


def _between_treeinfo(obj):
    """Dumps with an explicit main variant (not the default one), and a refused one, between the default dumps."""
    import io
    names = sorted(v.uid for v in obj.variants.get_variants(recursive=False))
    obj.dump(io.StringIO(), main_variant=names[-1])
    try:
        obj.dump(io.StringIO(), main_variant="NoSuchVariant")
    except Exception:
        pass


def _between_images(obj):
    """Queries between dumps: the identity of every image."""
    from productmd.images import identify_image
    for v in obj.images:
        for a in obj.images[v]:
            for img in obj.images[v][a]:
                identify_image(img)


ORDERED = {"extra_files"}                 # kinds whose part order is content
BETWEEN = {"extra_files": _between_extra_files, "treeinfo_variants": _between_treeinfo, "images": _between_images}
KINDS = {"extra_files": k_extra_files, "top_variants": k_top_variants, "child_variants": k_child_variants, "arches": k_arches, "free_arches": k_free_arches, "path_entries": k_path_entries,
         "images": k_images, "rpms": k_rpms, "modules": k_modules, "platforms": k_platforms, "checksums": k_checksums,
         "image_table": k_image_table, "treeinfo_variants": k_treeinfo_variants, "treeinfo_children": k_treeinfo_children}


def _subseq(small, big):
    it = iter(big)
    return all(x in it for x in small)


def caller_order(kind, order, text):
    """Caller-ordered lists are content and keep their order: what the written bytes must show for the lists the builders passed."""
    if kind == "images":
        recs = [r for r in json.loads(text)["payload"]["images"]["Server"]["x86_64"] if r.get("unified")]
        if 2 in order and [r.get("additional_variants") for r in recs] != [["Workstation", "Client", "Atomic"]]:
            return "additional_variants written as %s, the caller's list is ['Workstation', 'Client', 'Atomic']" % [r.get("additional_variants") for r in recs]
    elif kind == "modules":
        mods = json.loads(text)["payload"]["modules"]
        for i, (v, uid) in ((1, ("Server", "httpd:2.4")), (2, ("Client", "perl:5.26:1"))):
            if i in order:
                got = mods[v]["x86_64"][uid]["rpms"]
                want = ["common-0:1-1.noarch", "zdbg%d-0:1-1.noarch" % i, "dbg%d-0:1-1.noarch" % i, "adbg%d-0:1-1.noarch" % i, "mdbg-0:1-1.noarch"]
                if not _subseq(want, got):
                    return "RPM list of %s written as %s, the caller passed them in the order %s" % (uid, got, want)
    elif kind == "extra_files":
        files = ["Server/x86_64/os/GPL", "Server/x86_64/os/EULA", "Server/x86_64/os/Server/x86_64/os/README", "Server/x86_64/osx/X", "a"]
        got = [e["file"] for e in json.loads(text)["payload"]["extra_files"]["Server"]["x86_64"]]
        if got != [files[i - 1] for i in order]:
            return "extra files written as %s, added in the order %s" % (got, [files[i - 1] for i in order])
    return None


def worker(orders, dumps):
    """Run in a fresh interpreter (own PYTHONHASHSEED): {kind: {order: [digest of each dump]}} + format clause failures."""
    core.import_repo()
    from .ti_adapter import ini_parse
    out, fails = {}, []
    for kind, fn in KINDS.items():
        out[kind] = {}
        for order in orders:
            try:
                obj = fn(order)
                texts = []
                for d_i in range(max(dumps, 2)):
                    texts.append(obj.dumps())
                    if kind in BETWEEN:
                        BETWEEN[kind](obj)
            except Exception as exc:
                fails.append("%s order %s: %s: %s" % (kind, order, type(exc).__name__, exc))
                continue
            out[kind]["".join(map(str, order))] = [hashlib.sha1(t.encode()).hexdigest() for t in texts]
            try:
                _edit(obj)
                fresh = fn(order)
                _edit(fresh)
                if obj.dumps() != fresh.dumps():
                    fails.append("%s order %s: dumped %d times, then edited (tree arch / compose respin): the bytes differ from those of a "
                                 "never-dumped object given the same edit" % (kind, order, len(texts)))
                never = fn(order)
                _edit(never)
                if _edit2(obj) and _edit2(never) and obj.dumps() != never.dumps():
                    fails.append("%s order %s: dumped, edited, dumped, then one architecture swapped for another in place: the bytes differ "
                                 "from those of a never-dumped object given the same edits" % (kind, order))
                # what the header said before is not content: the current version is written whatever the object carried
                for ver in ("1.3", "2.0", "1.10", "0.3"):
                    other = fn(order)
                    if not hasattr(other, "header"):
                        break
                    other.header.version = ver
                    if other.dumps() != fn(order).dumps():
                        fails.append("%s order %s: an object whose header carried version %s before is written differently from one "
                                     "with the same content" % (kind, order, ver))
                        break
            except Exception as exc:
                fails.append("%s order %s: edit after dumping: %s: %s" % (kind, order, type(exc).__name__, exc))
            text = texts[0]
            try:
                now = obj.dumps()
                kw = {}
                fails += core.file_cycle(obj, now, "%s order %s" % (kind, order), "out.%s" % kind, dump_kw=kw)
            except Exception as exc:
                fails.append("%s order %s: writing to files: %s: %s" % (kind, order, type(exc).__name__, exc))
            for t_i, t in enumerate(texts):
                try:
                    bad = caller_order(kind, order, t)
                except ValueError as exc:
                    bad = "dumps() returned text that is not one document (%s): %r ... %r" % (str(exc)[:80], t[:30], t[-50:])
                if bad:
                    fails.append("%s order %s dump #%d: %s" % (kind, order, t_i + 1, bad))
                    break
            if kind == "extra_files":
                # the per-tree partial dump is JSON output of the library as well
                import io
                for base in ("Server/x86_64/os", "Server/x86_64/os/", "elsewhere"):
                    buf = io.StringIO()
                    try:
                        obj.dump_for_tree(buf, "Server", "x86_64", base)
                    except Exception as exc:
                        fails.append("%s order %s: dump_for_tree(%r): %s: %s" % (kind, order, base, type(exc).__name__, exc))
                        continue
                    part = buf.getvalue()
                    try:
                        json.loads(part)
                    except ValueError as exc:
                        fails.append("%s order %s: dump_for_tree(%r) output is not one JSON document: %s" % (kind, order, base, exc))
                        break
                    if part != json.dumps(json.loads(part), indent=4, sort_keys=True, separators=(",", ": ")):
                        fails.append("%s order %s: dump_for_tree(%r) output is not key-sorted JSON with 4-space indentation" % (kind, order, base))
                        break
            if text.lstrip().startswith("{"):
                try:
                    canon = json.dumps(json.loads(text), indent=4, sort_keys=True, separators=(",", ": "))
                except ValueError as exc:
                    canon = None
                    fails.append("%s order %s: dumps() returned text that is not one JSON document (%s): %r ... %r" % (kind, order, exc, text[:40], text[-60:]))
                if canon is not None and text != canon:
                    fails.append("%s order %s: JSON output is not key-sorted with 4-space indentation" % (kind, order))
            else:
                import configparser
                cp = configparser.RawConfigParser()
                cp.optionxform = str
                try:
                    cp.read_string(text)
                except configparser.Error as exc:
                    fails.append("%s order %s: dumps() returned text that is not one INI document: %s" % (kind, order, str(exc)[:200]))
                    continue
                secs = cp.sections()
                if secs != sorted(secs):
                    fails.append("%s order %s: treeinfo sections not sorted: %s" % (kind, order, secs))
                for s in secs:
                    opts = [o for o in cp.options(s)]
                    if opts != sorted(opts):
                        fails.append("%s order %s: options of [%s] not sorted: %s" % (kind, order, s, opts))
    return {"digests": out, "fails": fails}


def run(ctx):
    ctx.rule = ("TLC enumerates every insertion history of N = 4 (quick) / 5 parts followed by 1-3 dumps (Canon.tla, all N! orders, confluent "
                "by construction of the state graph); for each of 13 unordered part kinds (top-level and child variants, arch sets of known and of free names, path-table "
                "entries, images per cell, RPMs, module entries, tree platforms, checksums, image-table entries, treeinfo variants) every "
                "history is replayed on the real classes in separate interpreters started with PYTHONHASHSEED in {0,1,2 | 3,7,42,12345,random}: "
                "all outputs of one content class must be byte-identical across orders, repeated dumps and hash seeds; JSON key-sorted with "
                "indent 4, treeinfo sections/options sorted (independent reader). non-trivial = distinct (kind, order, seed)")
    n = 4 if ctx.quick else 5
    dumps = 2 if ctx.quick else 3
    orders = []
    consts = {"N": n, "MaxDumps": dumps}
    r = ctx.tlc("Canon", cfg_text=core.cfg_with("Canon.cfg", [], consts), on_emit=orders.append, constants=consts)
    ctx.require_ok(r)
    orders = sorted(set(tuple(o["order"]) for o in orders))
    import math
    if len(orders) != math.factorial(n):
        raise core.MachineryError("expected %d orders from TLC, got %d" % (math.factorial(n), len(orders)))
    seeds = ["0", "1", "2"] if ctx.quick else ["0", "1", "2", "3", "7", "42", "12345", "random"]
    procs = []
    for s in seeds:
        env = dict(os.environ)
        env.update({"PYTHONHASHSEED": s, "PYTHONPATH": os.pathsep.join([core.VERIF, core.REPO]), "PYTHONDONTWRITEBYTECODE": "1"})
        procs.append((s, subprocess.Popen([core.PY, "-m", "harness.c08", json.dumps(orders), str(dumps)], cwd=core.VERIF, env=env,
                                          stdout=subprocess.PIPE, stderr=subprocess.PIPE, text=True)))
    results = {}
    for s, p in procs:
        out, err = p.communicate(timeout=1800)
        if p.returncode != 0:
            raise core.MachineryError("C08 worker (seed %s) failed: %s" % (s, err[-2000:]))
        results[s] = json.loads(out)
    for kind in KINDS:
        seen = {}
        for s in seeds:
            for f in results[s]["fails"]:
                if f.startswith(kind + " "):
                    ctx.fail({"kind": kind, "seed": s}, "PYTHONHASHSEED=%s: %s" % (s, f), "format")
            for order, digs in results[s]["digests"].get(kind, {}).items():
                for d_i, d in enumerate(digs):
                    seen.setdefault((d, order if kind in ORDERED else ""), []).append((s, order, d_i))
                    ctx.evaluations += 1
                    ctx.distinct.add("%s-%s-%s-%d" % (kind, s, order, d_i))
        classes = {}
        for (d, cls), members in seen.items():
            classes.setdefault(cls, []).append(members)
        bad = [g for g in classes.values() if len(g) > 1]
        if bad:
            groups = sorted(bad[0], key=len, reverse=True)
            a, b = groups[0][0], groups[1][0]
            ctx.fail({"kind": kind, "a": {"seed": a[0], "order": a[1], "dump": a[2]}, "b": {"seed": b[0], "order": b[1], "dump": b[2]},
                      "n": n, "dumps": dumps},
                     "%s: same content, different bytes: (hash seed %s, insertion order %s, dump #%d) vs (hash seed %s, order %s, dump #%d); "
                     "%d distinct outputs" % (kind, a[0], a[1], a[2] + 1, b[0], b[1], b[2] + 1, len(groups)), "order")
    ctx.traces += ctx.evaluations
    ctx.exhaustive = True
    ctx.sample({"kind": "history", "part_kind": "images", "order": list(orders[1]), "dumps": dumps, "hash_seed": seeds[-1]})
    ctx.sample({"kind": "history", "part_kind": "top_variants", "order": list(orders[-1]), "dumps": dumps, "hash_seed": seeds[0]})


def replay(info):
    c = info["case"]
    if info["kind"] != "order":
        return []
    outs = []
    for side in (c["a"], c["b"]):
        env = dict(os.environ)
        env.update({"PYTHONHASHSEED": side["seed"], "PYTHONPATH": os.pathsep.join([core.VERIF, core.REPO]), "PYTHONDONTWRITEBYTECODE": "1"})
        p = subprocess.run([core.PY, "-m", "harness.c08", json.dumps([[int(x) for x in side["order"]]]), str(c["dumps"])], cwd=core.VERIF,
                           env=env, capture_output=True, text=True)
        outs.append(json.loads(p.stdout)["digests"][c["kind"]][side["order"]][side["dump"]])
    return [] if outs[0] == outs[1] else ["%s: same content, different bytes" % c["kind"]]


if __name__ == "__main__":
    print(json.dumps(worker([tuple(o) for o in json.loads(sys.argv[1])], int(sys.argv[2]))))
