"""C15 Compose IDs encode date, type and respin recoverably (ComposeId.tla)."""
import json
import random

from . import core

SHORTS = ["F", "RHEL", "my-prod"]
VERSIONS = [["D"], ["D", "D"], ["D", ".", "D"], ["D"] * 8, ["D"] * 9, ["D"] * 10, list("rawhide"), list("snap") + ["D"] * 8,
            ["D"] * 8 + ["."] + ["D"]]


def setup(mode, dev, directives):
    from . import enums as C
    mod, files, lines = core.gen_module("ComposeId", {"Shorts": set(tuple(s) for s in SHORTS),
                                                      "Versions": set(tuple(v) for v in VERSIONS),
                                                      "RelTypes": set(tuple(t) for t in C.RELEASE_TYPES)})
    cfg = core.cfg_with("ComposeId.cfg", directives, {"Mode": mode, "Dev_LastWindow": dev}) + "\n".join(lines) + "\n"
    return mod, files, cfg


def digits(rng, n, nonzero=True):
    s = "".join(rng.choice("0123456789") for _ in range(n))
    if nonzero and n > 1 and s[0] == "0":
        s = rng.choice("123456789") + s[1:]
    return s


def eval_case(case):
    from productmd.composeinfo import ComposeInfo, get_date_type_respin
    x = case["x"]
    rng = random.Random(case["rseed"])
    # render digit tokens: every "D" of the id string is drawn once, left to right, so the parts agree with the id
    toks = case["id"]
    ver = "".join(digits(rng, 1, False) if t == "D" else t for t in x["version"])
    if x["version"][0] == "D" and len(x["version"]) > 1 and ver[0] == "0":
        ver = "1" + ver[1:]
    if case.get("rseed", 0) % 11 == 3 and not ver[0].isdigit():
        # a free-form version is any text: a line feed and a blank inside it (the model's id string is lengthened alike)
        ins = "\n %s%%/_\\"          # ... per-cent signs, which string formatting takes for directives, and path separators
        ver = ver[:1] + ins + ver[1:]
        k = len(x["short"]) + 2
        toks = toks[:k] + list(ins) + toks[k:]
    bpver = "".join(digits(rng, 1, False) if t == "D" else t for t in x["bpversion"]) if x["layered"] else None
    # any 8 digits: dates of this century, of the last, and texts of 8 digits that begin with noughts
    date = ["20", "19", "0", "00", "20", "9"][case.get("rseed", 0) % 6]
    date += digits(rng, 8 - len(date), False)
    respin = int(digits(rng, x["rlen"]))
    if x["rlen"] == 8 and case.get("worst"):
        respin = int("9" * 8)
    if case.get("rseed", 0) % 2:
        # earlier in the same process a compose with an unknown type was refused (what a refusal leaves behind must not matter)
        try:
            bad = ComposeInfo()
            bad.compose.id, bad.compose.date, bad.compose.respin, bad.compose.type = "X-1-20000101.0", "20000101", 0, "release"
            bad.compose.validate()
        except ValueError:
            pass
    ci = ComposeInfo()
    ci.release.name = "Name"
    ci.release.short = x["short"]
    ci.release.version = ver
    ci.release.type = x["type"]
    if x["layered"]:
        ci.release.is_layered = True
        ci.base_product.name = "Base"
        ci.base_product.short = x["bpshort"]
        ci.base_product.version = bpver
        ci.base_product.type = x["bptype"]
    ci.compose.date = date
    ci.compose.type = x["ctype"]
    ci.compose.respin = respin
    fails = []
    try:
        cid = ci.create_compose_id()
    except Exception as exc:
        return ["create_compose_id() raised %s: %s for %s" % (type(exc).__name__, exc, x)]
    sfx = {"production": "", "nightly": ".n", "test": ".t", "ci": ".ci", "development": ".d"}[x["ctype"]]
    head = "%s-%s%s" % (x["short"], ver, "" if x["type"] == "ga" else "-" + x["type"])
    exp = head
    if x["layered"]:
        exp += "-%s-%s%s" % (x["bpshort"], bpver, "" if x["bptype"] == "ga" else "-" + x["bptype"])
    exp += "-%s%s.%d" % (date, sfx, respin)
    if cid != exp:
        fails.append("create_compose_id() = %r, documented layout gives %r" % (cid, exp))
    if len(exp) != len(toks):
        fails.append("model/renderer length mismatch for %r vs %s" % (exp, toks))
    if not cid.startswith(head):
        fails.append("compose id %r does not start with %r" % (cid, head))
    ci.compose.id = cid
    try:
        ci.compose.validate()
    except Exception as exc:
        fails.append("created id %r fails the library's own compose validation: %s" % (cid, exc))
    try:
        got = get_date_type_respin(cid)
    except Exception as exc:
        return fails + ["get_date_type_respin(%r) raised %s: %s" % (cid, type(exc).__name__, exc)]
    if tuple(got) != (date, x["ctype"], respin):
        fails.append("get_date_type_respin(%r) = %r, created from %r" % (cid, tuple(got), (date, x["ctype"], respin)))
    if not fails:
        # second calls: the same object with other compose fields creates the other id; decoding again decodes the same
        ci.compose.respin = respin + 1
        ci.compose.type = "nightly" if x["ctype"] != "nightly" else "test"
        sfx2 = ".n" if x["ctype"] != "nightly" else ".t"
        # ... and other release / base-product types, assigned to the same objects
        rt2 = "eus" if x["type"] != "eus" else "ga"
        ci.release.type = rt2
        exp2 = "%s-%s%s" % (x["short"], ver, "" if rt2 == "ga" else "-" + rt2)
        if x["layered"]:
            bt2 = "updates" if x["bptype"] != "updates" else "ga"
            ci.base_product.type = bt2
            exp2 += "-%s-%s%s" % (x["bpshort"], bpver, "" if bt2 == "ga" else "-" + bt2)
        exp2 += "-%s%s.%d" % (date, sfx2, respin + 1)
        try:
            cid2 = ci.create_compose_id()
            if cid2 != exp2:
                fails.append("create_compose_id() after changing type/respin on the same object = %r, expected %r" % (cid2, exp2))
            if tuple(get_date_type_respin(cid)) != (date, x["ctype"], respin):
                fails.append("get_date_type_respin(%r) differs when called again" % cid)
        except Exception as exc:
            fails.append("second create_compose_id()/decode raised %s: %s" % (type(exc).__name__, exc))
    # legacy (pre-0.3) composeinfo: date/type/respin exist only inside the id
    if case.get("legacy") and not fails:
        doc = {"header": {"version": case["legacy"]},
               "payload": {"compose": {"id": cid, "type": "production" if x["ctype"] != "production" else "test"},
                           "product": {"name": "Name", "short": x["short"], "version": ver, "type": x["type"]},
                           "variants": {"Foo": {"id": "Foo", "uid": "Foo", "name": "Foo", "type": "variant", "arches": ["x86_64"], "paths": {}}}}}
        if case.get("rseed", 0) % 3 == 1:
            del doc["payload"]["compose"]["type"]       # "exist only inside the id": no stored type at all (otherwise a stale one)
        if case.get("rseed", 0) % 5 == 2:
            doc["payload"]["compose"]["id"] = cid + "-Server"       # IDs of that time went on after the respin (a tree's variant)
        if x["layered"]:
            doc["payload"]["product"]["is_layered"] = True
            doc["payload"]["base_product"] = {"name": "Base", "short": x["bpshort"], "version": bpver, "type": x["bptype"]}
        c2 = ComposeInfo()
        if case.get("rseed", 0) % 2:
            c2.compose.id = doc["payload"]["compose"]["id"]         # the caller already knew which compose it was about to read
        try:
            c2.loads(json.dumps(doc))
            got = (c2.compose.date, c2.compose.type, c2.compose.respin)
            if got != (date, x["ctype"], respin):
                fails.append("legacy %s document with id %r loads compose fields %r, expected %r" % (case["legacy"], cid, got, (date, x["ctype"], respin)))
        except Exception as exc:
            if not (ver[0].isdigit() and not all(p.isdigit() for p in ver.split("."))):
                fails.append("legacy %s document with id %r rejected: %s: %s" % (case["legacy"], cid, type(exc).__name__, exc))
        if not fails and case.get("rseed", 0) % 4 == 0:
            # the same legacy document read into an object with a past: one on which the load of a current-version document
            # was refused part-way (a compose id without a date; refused before any variant is filed).  (An object that
            # completed a load cannot take a second one at all - the variants of the first stay filed - so that is no case.)
            cur = {"header": {"version": "1.2", "type": "productmd.composeinfo"},
                   "payload": {"compose": {"id": "Other-1-20000101.t.4", "type": "test", "date": "20000101", "respin": 4},
                               "release": {"name": "Other", "short": "Other", "version": "1", "type": "ga", "internal": False},
                               "variants": {"Foo": {"id": "Foo", "uid": "Foo", "name": "Foo", "type": "variant", "arches": ["x86_64"], "paths": {}}}}}
            bad = json.loads(json.dumps(cur))
            bad["payload"]["compose"]["id"] = "Other-1-nodate"
            for label, first in (("after a refused load of a current-version document", bad),):
                c3 = ComposeInfo()
                try:
                    c3.loads(json.dumps(first))
                except Exception:
                    pass
                try:
                    c3.loads(json.dumps(doc))
                    got3 = (c3.compose.date, c3.compose.type, c3.compose.respin)
                    want3 = (c2.compose.date, c2.compose.type, c2.compose.respin)
                    if got3 != want3:
                        fails.append("legacy %s document with id %r read into an object %s gives %r, a fresh object gives %r"
                                     % (case["legacy"], cid, label, got3, want3))
                except Exception as exc:
                    if c2.compose.date is not None:
                        fails.append("legacy %s document with id %r read into an object %s is rejected (%s: %s) though a fresh object reads it"
                                     % (case["legacy"], cid, label, type(exc).__name__, exc))
    return fails


DECODE = [("", "production"), (".n", "nightly"), (".nightly", "nightly"), (".t", "test"), (".test", "test"), (".ci", "ci"),
          (".d", "development"), (".x", None), (".nightlyx", None), (".dd", None), (".production", None), (".tt", None),
          # the full type names that are NOT documented suffixes, and near misses of the documented ones
          (".development", None), (".dev", None), (".testing", None), (".c", None), (".cii", None), (".night", None), (".prod", None)]


def eval_decode(case):
    from productmd.composeinfo import get_date_type_respin
    cid = case["prefix"] + case["date"] + case["suffix"] + case["respin"]
    exp_type = dict(DECODE)[case["suffix"]]
    try:
        got = get_date_type_respin(cid)
        raised = None
    except ValueError as exc:
        got, raised = None, exc
    except Exception as exc:
        return ["get_date_type_respin(%r) raised %s: %s" % (cid, type(exc).__name__, exc)]
    if exp_type is None:
        if raised is None:
            return ["unknown type suffix in %r accepted: %r" % (cid, got)]
        # a legacy (pre-0.3) document whose id carries that suffix is refused, whatever the object that reads it went through
        # before: fresh, compose fields assigned by the caller, a current-version document refused part-way
        import json
        from productmd.composeinfo import ComposeInfo
        doc = json.dumps({"header": {"version": ["0.0", "0.2"][len(cid) % 2]},
                          "payload": {"compose": {"id": cid, "type": "production"},
                                      "product": {"name": "Name", "short": "N", "version": "1", "type": "ga"},
                                      "variants": {"Foo": {"id": "Foo", "uid": "Foo", "name": "Foo", "type": "variant", "arches": ["x86_64"], "paths": {}}}}})
        refused = json.dumps({"header": {"version": "1.2", "type": "productmd.composeinfo"},
                              "payload": {"compose": {"id": "Other-1-20000101.t.4", "type": "test", "date": "20000101", "respin": 4},
                                          "release": {"name": "Other", "short": "Other", "version": "1", "type": "bogus", "internal": False},
                                          "variants": {}}})
        for label in ("fresh", "compose fields assigned before", "after a current-version document that was refused part-way"):
            c = ComposeInfo()
            if label.startswith("compose fields"):
                c.compose.id, c.compose.date, c.compose.type, c.compose.respin = "Old-1-19990101.n.3", "19990101", "nightly", 3
            elif label.startswith("after"):
                try:
                    c.loads(refused)
                except Exception:
                    pass
            try:
                c.loads(doc)
                return ["legacy document whose id %r has an unknown type suffix is accepted by an object (%s): date/type/respin = %r"
                        % (cid, label, (c.compose.date, c.compose.type, c.compose.respin))]
            except (ValueError, TypeError):
                pass
            except Exception as exc:
                return ["legacy document with id %r (%s object) raised %s: %s" % (cid, label, type(exc).__name__, exc)]
        return []
    if raised is not None:
        return ["documented suffix %r in %r rejected: %s" % (case["suffix"], cid, raised)]
    exp = (case["date"], exp_type, int(case["respin"][1:]) if case["respin"] else 0)
    return [] if tuple(got) == exp else ["get_date_type_respin(%r) = %r, expected %r" % (cid, tuple(got), exp)]


def run(ctx):
    ctx.rule = ("TLC enumerates (short x version shape x release type x [base product] x compose type x respin length 1..8) with digit "
                "runs as length classes (version runs of 1-10 digits, date-like versions), checks Valid/StartsOk/ImplOk on ComposeId.tla "
                "and emits each layout; the harness draws concrete digits per seed, builds the compose on the real ComposeInfo, and "
                "compares create_compose_id, the library's id validation, get_date_type_respin and legacy (0.0/0.2) document loading "
                "with the fields used; plus decode-only suffix table incl. long spellings and unknown suffixes. "
                "non-trivial = distinct (layout, digits)")
    cases = []
    mod, files, cfg = setup("quick" if ctx.quick else "full", False, ["CONSTRAINT Emit"])
    ctx.require_ok(ctx.tlc(mod, cfg_text=cfg, extra_files=files, on_emit=cases.append))
    mod, files, cfg = setup("quick", True, [])
    r = ctx.tlc(mod, cfg_text=cfg, extra_files=files, expect_error=True, count=False)
    if r.violated != "ImplOk":
        raise core.MachineryError("Dev_LastWindow should violate ImplOk, got %s" % r.violated)
    ctx.notes["asshipped_Dev_LastWindow"] = "TLC counterexample: " + " ".join(r.trace[0][1])[:300]
    for i, c in enumerate(cases):
        c["rseed"] = ctx.seed * 1000003 + i
        c["worst"] = (i % 2 == 0)
        c["legacy"] = ["0.0", "0.2", None][i % 3]
    ctx.exhaustive = True
    ctx.evaluate(eval_case, cases, label="compose-id", chunk=500)
    dec = []
    for prefix in ("F-22-", "RHEL-7.1-updates-", "x-20200101-", ""):
        for sfx, _ in DECODE:
            for respin in ("", ".0", ".7", ".12345678"):
                dec.append({"prefix": prefix, "date": "20160622", "suffix": sfx, "respin": respin})
    ctx.evaluate(eval_decode, dec, label="decode")


def replay(info):
    return eval_decode(info["case"]) if info["kind"] == "decode" else eval_case(info["case"])
