"""re pattern text -> epsilon-free NFA over the pattern's own partition alphabet (C19)."""
import re
from re import _constants as sc
from re import _parser as sp

UNIVERSE = [chr(c) for c in range(32, 127)] + ["\n", "\t", "é"]


class NFA(object):
    def __init__(self):
        self.n = 0
        self.eps = {}
        self.cons = []

    def new(self):
        self.n += 1
        return self.n - 1

    def e(self, u, v):
        self.eps.setdefault(u, []).append(v)


def cat_pred(cat):
    return {sc.CATEGORY_DIGIT: str.isdigit, sc.CATEGORY_NOT_DIGIT: lambda c: not c.isdigit(),
            sc.CATEGORY_SPACE: str.isspace, sc.CATEGORY_NOT_SPACE: lambda c: not c.isspace(),
            sc.CATEGORY_WORD: lambda c: c.isalnum() or c == "_",
            sc.CATEGORY_NOT_WORD: lambda c: not (c.isalnum() or c == "_")}[cat]


def in_pred(items):
    neg = False
    preds = []
    for op, arg in items:
        if op == sc.NEGATE:
            neg = True
        elif op == sc.LITERAL:
            preds.append(lambda c, a=arg: ord(c) == a)
        elif op == sc.RANGE:
            preds.append(lambda c, a=arg: a[0] <= ord(c) <= a[1])
        elif op == sc.CATEGORY:
            preds.append(cat_pred(arg))
        else:
            raise NotImplementedError(op)
    return lambda c: (any(p(c) for p in preds)) != neg


def build(nfa, tree, start):
    cur = start
    for op, arg in tree:
        if op == sc.LITERAL:
            v = nfa.new()
            nfa.cons.append((cur, frozenset(c for c in UNIVERSE if ord(c) == arg), v))
            cur = v
        elif op == sc.NOT_LITERAL:
            v = nfa.new()
            nfa.cons.append((cur, frozenset(c for c in UNIVERSE if ord(c) != arg), v))
            cur = v
        elif op == sc.ANY:
            v = nfa.new()
            nfa.cons.append((cur, frozenset(c for c in UNIVERSE if c != "\n"), v))
            cur = v
        elif op == sc.IN:
            p = in_pred(arg)
            v = nfa.new()
            nfa.cons.append((cur, frozenset(c for c in UNIVERSE if p(c)), v))
            cur = v
        elif op == sc.SUBPATTERN:
            cur = build(nfa, arg[3], cur)
        elif op == sc.BRANCH:
            end = nfa.new()
            for alt in arg[1]:
                s = nfa.new()
                nfa.e(cur, s)
                e = build(nfa, alt, s)
                nfa.e(e, end)
            cur = end
        elif op in (sc.MAX_REPEAT, sc.MIN_REPEAT, getattr(sc, "POSSESSIVE_REPEAT", None)):
            lo, hi, sub = arg
            for _ in range(lo):
                cur = build(nfa, sub, cur)
            if hi == sc.MAXREPEAT:
                s = nfa.new()
                out = nfa.new()
                nfa.e(cur, s)
                nfa.e(cur, out)
                e = build(nfa, sub, s)
                nfa.e(e, s)
                nfa.e(e, out)
                cur = out
            else:
                out = nfa.new()
                nfa.e(cur, out)
                for _ in range(hi - lo):
                    s = nfa.new()
                    nfa.e(cur, s)
                    cur = build(nfa, sub, s)
                    nfa.e(cur, out)
                cur = out
        elif op == sc.AT:
            pass
        else:
            raise NotImplementedError(op)
    return cur


def compile_pattern(pat):
    nfa = NFA()
    s = nfa.new()
    end = build(nfa, sp.parse(pat), s)
    acc = nfa.new()
    nfa.e(end, acc)
    cons_from = {}
    for (u, cl, v) in nfa.cons:
        cons_from.setdefault(u, []).append((cl, v))
    interesting = set(cons_from) | {acc}

    def eps_paths(x):
        out = []

        def dfs(y, path):
            if y in interesting:
                out.append((y, tuple(path)))
            for z in nfa.eps.get(y, []):
                if z not in path:
                    dfs(z, path + [z])
        dfs(x, [x])
        return out
    classes = sorted({cl for (_, cl, _) in nfa.cons}, key=sorted)
    sig = {}
    for c in UNIVERSE:
        sig.setdefault(tuple(c in cl for cl in classes), []).append(c)
    atoms = [v[0] for v in sig.values()]
    starts = eps_paths(s)
    edges = []
    for u in cons_from:
        for (cl, v) in cons_from[u]:
            for (w, path) in eps_paths(v):
                for a in atoms:
                    if a in cl:
                        edges.append((len(edges), u, a, w))
    return dict(starts=[w for w, _ in starts], acc=acc, edges=edges, atoms=atoms, nstates=nfa.n,
                atom_members={v[0]: v for v in sig.values()})


def nfa_accepts_prefix(m, word):
    """Does some prefix of `word` reach the accepting state (re.match semantics, anchors ignored)?"""
    cur = set(m["starts"])
    by = {}
    for (i, u, a, w) in m["edges"]:
        by.setdefault((u, a), set()).add(w)
    if m["acc"] in cur:
        return True
    rep = {}
    for a, members in m["atom_members"].items():
        for ch in members:
            rep[ch] = a
    for ch in word:
        a = rep.get(ch)
        nxt = set()
        for u in cur:
            nxt |= by.get((u, a), set())
        cur = nxt
        if m["acc"] in cur:
            return True
        if not cur:
            return False
    return False
