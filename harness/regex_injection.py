"""C19, patterns that are not in the source: regular expressions the library builds from document text.

A pattern literal can be analysed (regex_nfa / RegexAmbiguity.tla); a pattern assembled at run time from a field of the
document being read cannot - the document chooses it.  This phase finds such patterns by observation and then lets the
document choose an ambiguous one:

 1. every text position of a sample document of each format (JSON string values and keys; INI section-name suffixes,
    option names and values; discinfo lines) is replaced, one at a time, by the marker  |(x+x+)+y|  and the document is
    loaded in a child process in which the functions of `re` record every (pattern, subject) whose pattern contains the
    marker unescaped.  The alternation bars make the marker a top-level alternative whatever literal text surrounds it.
 2. for every hit the recorded subject is looked up in the document; that position gets a run of x (the pump of the
    marker) instead, and the load is timed in a child process.  A load of such a document of a few hundred bytes that
    does not finish within the cap is a violation (the statement: no short input can stall a caller)."""
import json
import multiprocessing
import time

from . import core

# two spellings of the marker: as a top-level alternative (whatever literal text surrounds it in the assembled pattern is
# bypassed - but an alternative that matches the empty string, like a bare '^', then succeeds at once), and plain (the
# surrounding text stays in force, nothing is bypassed)
MARKS = ("|(x+x+)+y|", "(x+x+)+y")
MARK = MARKS[0]
CORE = "(x+x+)+y"
PUMPS = (22, 30)


# ------------------------------------------------------------------ documents and their text positions

class JsonDoc(object):
    def __init__(self, name, cls_path, text):
        self.name, self.cls_path, self.doc = name, cls_path, json.loads(text)

    def positions(self):
        out = []

        def walk(node, path):
            if isinstance(node, dict):
                for k in sorted(node):
                    if path[:1] != ["header"]:
                        out.append(("key", path + [k]))
                    walk(node[k], path + [k])
            elif isinstance(node, list):
                for i, v in enumerate(node):
                    walk(v, path + [i])
            elif isinstance(node, str) and path[:1] != ["header"]:
                out.append(("val", path))
        walk(self.doc, [])
        return out

    def get(self, pos):
        kind, path = pos
        if kind == "key":
            return path[-1]
        node = self.doc
        for p in path:
            node = node[p]
        return node

    def render(self, subst):
        """subst: {position (as json string): new text}"""
        doc = json.loads(json.dumps(self.doc))
        for key, new in sorted(subst.items(), key=lambda kv: kv[0].startswith('["val"'), reverse=True):   # values first, then keys
            kind, path = json.loads(key)
            node = doc
            for p in path[:-1]:
                node = node[p]
            if kind == "val":
                node[path[-1]] = new
            elif path[-1] in node:
                node[new] = node.pop(path[-1])
        return json.dumps(doc)


class IniDoc(object):
    def __init__(self, name, cls_path, text):
        self.name, self.cls_path = name, cls_path
        self.secs = []
        for line in text.splitlines():
            line = line.rstrip()
            if not line:
                continue
            if line.startswith("["):
                self.secs.append([line[1:-1], []])
            else:
                k, v = line.split("=", 1)
                self.secs[-1][1].append([k.strip(), v.strip()])

    def positions(self):
        out = []
        for i, (sec, opts) in enumerate(self.secs):
            if "-" in sec:
                out.append(("sec", [i]))
            if sec == "header":
                continue
            for j, (k, v) in enumerate(opts):
                out.append(("opt", [i, j]))
                out.append(("val", [i, j]))
        return out

    def get(self, pos):
        kind, path = pos
        if kind == "sec":
            return self.secs[path[0]][0].split("-", 1)[1]
        return self.secs[path[0]][1][path[1]][0 if kind == "opt" else 1]

    def render(self, subst):
        secs = json.loads(json.dumps(self.secs))
        for key, new in subst.items():
            kind, path = json.loads(key)
            if kind == "sec":
                secs[path[0]][0] = secs[path[0]][0].split("-", 1)[0] + "-" + new
            else:
                secs[path[0]][1][path[1]][0 if kind == "opt" else 1] = new
        return "".join("[%s]\n%s\n" % (s, "".join("%s = %s\n" % (k, v) for k, v in opts)) for s, opts in secs)


class LineDoc(object):
    def __init__(self, name, cls_path, text):
        self.name, self.cls_path, self.lines = name, cls_path, text.split("\n")

    def positions(self):
        return [("val", [i]) for i in range(len(self.lines))]

    def get(self, pos):
        return self.lines[pos[1][0]]

    def render(self, subst):
        lines = list(self.lines)
        for key, new in subst.items():
            lines[json.loads(key)[1][0]] = new
        return "\n".join(lines)


LEGACY_TREEINFO = """[general]
family = Fedora
version = 20
arch = x86_64
variant = Server
timestamp = 1386857206.0
packagedir = Packages
platforms = x86_64,xen
totaldiscs = 1
discnum = 1
[images-x86_64]
kernel = images/pxeboot/vmlinuz
initrd = images/pxeboot/initrd.img
[images-xen]
kernel = images/pxeboot/vmlinuz
[stage2]
mainimage = LiveOS/squashfs.img
[checksums]
images/pxeboot/vmlinuz = sha256:%s
""" % ("a" * 64)


class CallDoc(object):
    """A public entry point taking one text argument (c19.entry_points), seen as a one-position document."""

    def __init__(self, ep, sample):
        self.name, self.cls_path, self.sample = "call %s" % ep, "ep:" + ep, sample

    def positions(self):
        return [("arg", [])]

    def get(self, pos):
        return self.sample

    def render(self, subst):
        return list(subst.values())[0] if subst else self.sample


CALL_SAMPLES = {
    "Rpms.add(nevra)": "Packages/a/a-devel-12:9.20~rc1-3.armhfp.rpm", "Rpms.add(srpm_nevra)": "a-12:9.20~rc1-3.src",
    "Modules.add(uid)": "httpd:2.4:20180101:deadbeef", "Modules.parse_uid": "httpd:2.4:20180101:deadbeef",
    "parse_nvra": "Packages/a/a-devel-12:9.20~rc1-3.armhfp.rpm", "parse_release_id": "fedora-server-30.1-updates@rhel-8-eus",
    "get_date_type_respin": "Fedora-Server-30-20190101.n.2", "verify_label": "RC-1.2", "split_version": "7.10.2",
    "create_release_id(short)": "fedora-server", "create_release_id(version)": "30.1", "create_release_id(bp_short)": "rhel-base",
    "Compose.id": "Fedora-Server-30-20190101.n.2", "Compose.label": "RC-1.2", "Variant.id": "ServerOptional",
    "Image.path": "Server/x86_64/iso/boot-30.iso", "Image.volume_id": "Fedora-S-30-x86_64", "Image.subvariant": "Server-KDE",
    "TreeInfo.loads(tree/platforms)": "x86_64,xen-pv", "TreeInfo.loads(checksums value)": "sha256:" + "ab12" * 16,
    "TreeInfo.loads(legacy general/family)": "Red Hat Enterprise Linux", "TreeInfo.loads(legacy general/version)": "7.2-beta",
    "ComposeInfo.loads(compose.id)": "Fedora-Server-30-20190101.n.2", "ComposeInfo.loads(release.version)": "30.1",
    "Images.loads(path)": "Server/x86_64/iso/boot-30.iso", "DiscInfo.loads(disc numbers)": "1,2,3",
}


def documents():
    from . import samples
    docs = [IniDoc("treeinfo (current)", "productmd.treeinfo.TreeInfo", samples.treeinfo(1).dumps()),
            IniDoc("treeinfo (pre-productmd)", "productmd.treeinfo.TreeInfo", LEGACY_TREEINFO),
            JsonDoc("composeinfo", "productmd.composeinfo.ComposeInfo", samples.composeinfo(1).dumps()),
            JsonDoc("images", "productmd.images.Images", samples.images(1).dumps()),
            JsonDoc("rpms", "productmd.rpms.Rpms", samples.rpms(1).dumps()),
            JsonDoc("modules", "productmd.modules.Modules", samples.modules(1).dumps()),
            JsonDoc("extra_files", "productmd.extra_files.ExtraFiles", samples.extra_files(1).dumps()),
            LineDoc("discinfo", "productmd.discinfo.DiscInfo", samples.discinfo(1).dumps())]
    # a pre-1.0 composeinfo: children are related to their parents by UID prefix only, 'release' is called 'product'
    legacy = json.loads(samples.composeinfo(1).dumps())
    legacy["header"] = {"version": "0.3"}
    legacy["payload"]["product"] = legacy["payload"].pop("release")
    for v in legacy["payload"]["variants"].values():
        v.pop("variants", None)
        if "release" in v:
            v["product"] = v.pop("release")
    docs.append(JsonDoc("composeinfo (0.3)", "productmd.composeinfo.ComposeInfo", json.dumps(legacy)))
    # the 0.3 rpm manifest: package names as keys
    from . import rpms_adapter
    docs.append(JsonDoc("rpms 0.3", "productmd.rpms.Rpms", rpms_adapter.doc03_text(
        [{"v": "V1", "a": "bin1", "srpm": "s1", "rpm": "b1", "type": "package", "sigkey": "null", "path": "rel1"},
         {"v": "V1", "a": "src", "srpm": "s1", "rpm": "s1", "type": "source", "sigkey": "null", "path": "rel1"}],
        rpms_adapter.NAMESETS[0], rpms_adapter.ARCHSETS[0])))
    docs += [CallDoc(ep, sample) for ep, sample in sorted(CALL_SAMPLES.items())]
    return docs


# ------------------------------------------------------------------ child process: load with `re` observed

class _Proxy(object):
    """Stands in for a compiled pattern that contains the marker: records the subject of every use."""

    def __init__(self, real, hits):
        self._real, self._hits = real, hits

    def __getattr__(self, name):
        attr = getattr(self._real, name)
        if name in ("match", "search", "fullmatch", "split", "findall", "finditer", "sub", "subn"):
            def call(*a, **kw):
                subj = a[1] if name in ("sub", "subn") and len(a) > 1 else (a[0] if a else kw.get("string"))
                self._hits.append([self._real.pattern, subj if isinstance(subj, str) else None])
                return attr(*a, **kw)
            return call
        return attr


def _observe(hits):
    import re
    orig = {}

    def wrap(name):
        fn = getattr(re, name)
        orig[name] = fn

        def w(pattern, *a, **kw):
            if isinstance(pattern, str) and CORE in pattern:
                if name == "compile":
                    return _Proxy(fn(pattern, *a, **kw), hits)
                subj = a[1] if name in ("sub", "subn") and len(a) > 1 else (a[0] if a else kw.get("string"))
                hits.append([pattern, subj if isinstance(subj, str) else None])
            return fn(pattern, *a, **kw)
        setattr(re, name, w)
    for n in ("compile", "match", "search", "fullmatch", "split", "findall", "finditer", "sub", "subn"):
        wrap(n)
    return orig


_EPS = {}


def _load(cls_path, text):
    import importlib
    if cls_path.startswith("ep:"):
        if not _EPS:
            from . import c19
            _EPS.update(c19.entry_points())
        try:
            _EPS[cls_path[3:]](text)
        except BaseException:
            pass
        return
    mod, cls = cls_path.rsplit(".", 1)
    obj = getattr(importlib.import_module(mod), cls)()
    try:
        obj.loads(text)
    except BaseException:
        pass


def _child(conn, observe):
    core.import_repo()
    hits = []
    if observe:
        _observe(hits)
    while True:
        msg = conn.recv()
        if msg is None:
            return
        cls_path, text = msg
        del hits[:]
        t0 = time.perf_counter()
        _load(cls_path, text)
        conn.send([time.perf_counter() - t0, list(hits)])


class Loader(object):
    def __init__(self, observe):
        self.observe, self.proc = observe, None

    def load(self, cls_path, text, cap):
        """-> (seconds or None when killed after `cap`, hits)"""
        if self.proc is None:
            ctx = multiprocessing.get_context("fork")
            self.conn, child = ctx.Pipe()
            self.proc = ctx.Process(target=_child, args=(child, self.observe), daemon=True)
            self.proc.start()
        self.conn.send([cls_path, text])
        if self.conn.poll(cap):
            t, hits = self.conn.recv()
            return t, hits
        self.close()
        return None, []

    def close(self):
        if self.proc is not None:
            self.proc.kill()
            self.proc.join()
            self.proc = None


# ------------------------------------------------------------------ the phase

SELF = "(.+)+$"            # + a run of x: matches any text in exponentially many ways and then demands an x after its end


def _placements(value):
    """Ways of putting a marker into the text at a position: instead of all of it, or instead of one of its words (a structured
    value - N-E:V-R.A, a release or compose ID - is only taken apart, and its parts reused, when the rest of it is well-formed)."""
    import re
    out = [lambda m: m]
    words = list(re.finditer(r"[A-Za-z0-9]+", value or ""))
    if len(words) >= 2:
        for w in words[:6]:
            out.append(lambda m, a=w.start(), b=w.end(): value[:a] + m + value[b:])
    return out


def evaluate(cap=2.0, docs=None):
    """-> (violations [(case, why)], stats)"""
    obs, plain = Loader(True), Loader(False)
    viol, stats = [], {"documents": 0, "positions": 0, "patterns_built_from_document_text": [], "pump_loads": 0}
    try:
        for doc in (docs or documents()):
            stats["documents"] += 1
            positions = doc.positions()
            for pos, put, MARK in ((p_, put_, m_) for p_ in positions for put_ in _placements(doc.get(p_)) for m_ in MARKS):
                stats["positions"] += 1
                key = json.dumps(pos)
                text = doc.render({key: put(MARK)})
                t, hits = obs.load(doc.cls_path, text, cap * 5)
                if t is None:
                    viol.append(({"doc": doc.name, "cls": doc.cls_path, "text": text},
                                 "%s: loading the document with the text %r at %s did not finish within %.0f s" % (doc.name, MARK, pos, cap * 5)))
                    continue
                seen = set()
                for pattern, subject in hits:
                    if (pattern, subject) in seen:
                        continue
                    seen.add((pattern, subject))
                    stats["patterns_built_from_document_text"].append({"doc": doc.name, "position": pos, "pattern": pattern, "subject": subject})
                    if not subject:
                        continue
                    if CORE in subject:
                        # the pattern is applied to the very text it was built from: let that text be a pattern that matches
                        # itself ambiguously and can never succeed
                        for n in PUMPS:
                            text2 = doc.render({key: put(SELF + "x" * n)})
                            stats["pump_loads"] += 1
                            t2, _ = plain.load(doc.cls_path, text2, cap)
                            if t2 is None:
                                viol.append(({"doc": doc.name, "cls": doc.cls_path, "text": text2},
                                             "%s: the library builds the pattern %r from the text at %s and applies it to that same text; "
                                             "with %r there (%d bytes in all) the call did not finish within %.0f s"
                                             % (doc.name, pattern, pos, put(SELF + "x" * n), len(text2), cap)))
                                break
                        continue
                    # where does the subject come from?  give that place the pump instead
                    for pos2 in positions:
                        if pos2 == pos or subject not in doc.get(pos2):
                            continue
                        worst = None
                        for n in PUMPS:
                            text2 = doc.render({key: MARK, json.dumps(pos2): doc.get(pos2).replace(subject, "x" * n)})
                            stats["pump_loads"] += 1
                            t2, _ = plain.load(doc.cls_path, text2, cap)
                            if t2 is None:
                                worst = (n, text2)
                                break
                        if worst:
                            viol.append(({"doc": doc.name, "cls": doc.cls_path, "text": worst[1]},
                                         "%s: the library builds the pattern %r from the document text at %s and applies it to the text at %s; "
                                         "a %d-byte document choosing %r and a run of %d x there did not load within %.0f s"
                                         % (doc.name, pattern, pos, pos2, len(worst[1]), MARK, worst[0], cap)))
                            break
    finally:
        obs.close()
        plain.close()
    return viol, stats


# ------------------------------------------------------------------ documents whose reading fans out

def nested_legacy(depth):
    """A pre-productmd treeinfo in which every level lists both sections of the next one as its addons."""
    text = "[general]\nfamily = F\nversion = 1\narch = x86_64\nvariant = A0\ntimestamp = 1.0\npackagedir = P\n"
    for i in range(depth):
        for x in "AB":
            text += "[variant-%s%d]\naddons = A%d,B%d\n" % (x, i, i + 1, i + 1)
    return text


def chained_interpolation(k, levels=9):
    """A treeinfo whose [release] name refers k times to an option that refers k times to the next one ..."""
    text = "[header]\nversion = 1.2\ntype = productmd.treeinfo\n[release]\nshort = F\nversion = 1\nname = " + "%(a1)s" * k + "\n"
    for i in range(1, levels):
        text += "a%d = %s\n" % (i, ("%%(a%d)s" % (i + 1)) * k)
    text += "a%d = x\n" % levels
    return text + "[tree]\narch = x86_64\nbuild_timestamp = 1\nplatforms = x86_64\nvariants =\n"


def twin_variants(depth):
    """A composeinfo in which every level has two sections claiming the same id / UID, both listing the next level's two."""
    def entry(uid, kids):
        e = {"id": "X", "uid": uid, "name": "X", "type": "variant", "arches": ["x86_64"], "paths": {}}
        if kids:
            e["variants"] = ["a", "b"]
        return e
    variants = {"T": dict(entry("T", True), id="T", name="T")}
    uid = "T"
    for level in range(depth):
        variants[uid + "-a"] = entry(uid + "-X", level < depth - 1)
        variants[uid + "-b"] = entry(uid + "-X", level < depth - 1)
        uid += "-X"
    return json.dumps({"header": {"type": "productmd.composeinfo", "version": "1.2"},
                       "payload": {"compose": {"id": "T-1.0-20240101.0", "type": "production", "date": "20240101", "respin": 0},
                                   "release": {"name": "Test", "short": "T", "version": "1.0", "type": "ga"}, "variants": variants}})


def shared_children(depth):
    """A composeinfo whose levels are related by UID prefix only (0.3): every section is a prefix of all deeper ones."""
    variants = {}
    uid = "T"
    for level in range(depth):
        variants[uid] = {"id": "X" if level else "T", "uid": uid, "name": "X", "type": "variant", "arches": ["x86_64"], "paths": {}}
        uid += "-X"
    return json.dumps({"header": {"version": "0.3"},
                       "payload": {"compose": {"id": "T-1.0-20240101.0", "type": "production", "date": "20240101", "respin": 0},
                                   "product": {"name": "Test", "short": "T", "version": "1.0", "type": "ga"}, "variants": variants}})


def twin_tree_variants(depth):
    """The same twins in a current .treeinfo."""
    text = ("[header]\nversion = 1.2\ntype = productmd.treeinfo\n[release]\nshort = F\nversion = 1\nname = F\n"
            "[tree]\narch = x86_64\nbuild_timestamp = 1\nplatforms = x86_64\nvariants = T\n")
    text += "[variant-T]\nid = T\nuid = T\nname = T\ntype = variant\nvariants = T-a,T-b\n"
    uid = "T"
    for level in range(depth):
        for x in "ab":
            text += "[variant-%s-%s]\nid = X\nuid = %s-X\nname = X\ntype = variant\n" % (uid, x, uid)
            if level < depth - 1:
                text += "variants = %s-X-a,%s-X-b\n" % (uid, uid)
        uid += "-X"
    return text


def chain_variants(depth):
    """A composeinfo whose variants form one chain A, A-A, A-A-A, ... (every level names its one child)."""
    variants, uid = {}, "A"
    for level in range(depth):
        e = {"id": "A", "uid": uid, "name": "A", "type": "variant", "arches": ["x86_64"], "paths": {}}
        if level < depth - 1:
            e["variants"] = ["A"]
        variants[uid] = e
        uid += "-A"
    return json.dumps({"header": {"type": "productmd.composeinfo", "version": "1.2"},
                       "payload": {"compose": {"id": "T-1.0-20240101.0", "type": "production", "date": "20240101", "respin": 0},
                                   "release": {"name": "Test", "short": "T", "version": "1.0", "type": "ga"}, "variants": variants}})


def chain_tree_variants(depth):
    """The same chain in a current .treeinfo."""
    text = ("[header]\nversion = 1.2\ntype = productmd.treeinfo\n[release]\nshort = F\nversion = 1\nname = F\n"
            "[tree]\narch = x86_64\nbuild_timestamp = 1\nplatforms = x86_64\nvariants = A\n")
    uid = "A"
    for level in range(depth):
        text += "[variant-%s]\nid = A\nuid = %s\nname = A\ntype = variant\n" % (uid, uid)
        if level < depth - 1:
            text += "variants = %s-A\n" % uid
        uid += "-A"
    return text


CHEAP_FAMILIES = (("composeinfo-twin-variants", twin_variants, "productmd.composeinfo.ComposeInfo", (12, 24), (8, 12, 16, 20, 24, 30)),
                  ("composeinfo-prefix-chain", shared_children, "productmd.composeinfo.ComposeInfo", (12, 24), (8, 12, 16, 20, 24, 30)),
                  ("treeinfo-twin-variants", twin_tree_variants, "productmd.treeinfo.TreeInfo", (12, 24), (8, 12, 16, 20, 24, 30)),
                  ("composeinfo-variant-chain", chain_variants, "productmd.composeinfo.ComposeInfo", (12, 26), (8, 12, 16, 20, 24, 30, 40)),
                  ("treeinfo-variant-chain", chain_tree_variants, "productmd.treeinfo.TreeInfo", (12, 26), (8, 12, 16, 20, 24, 30, 40)))


def evaluate_fanout(cap=10.0, quick=False):
    """-> [(case, why)]: growth of the reading time of two document families with the document's length."""
    out = []
    ld = Loader(False)
    try:
        ti = "productmd.treeinfo.TreeInfo"
        for family, make, cls, params in [("legacy-nested-addons", nested_legacy, ti, (10, 17) if quick else (6, 8, 10, 12, 14, 16, 18)),
                                          ("chained-interpolation", chained_interpolation, ti, (3, 7) if quick else (2, 3, 4, 5, 6, 7))] \
                + [(f, m, c, q if quick else th) for f, m, c, q, th in CHEAP_FAMILIES]:
            prev = None
            for prm in params:
                text = make(prm)
                t, _ = ld.load(cls, text, cap)
                if t is None:
                    out.append(({"family": family, "param": prm, "bytes": len(text), "cls": cls, "text": text, "doc": family},
                                "%s.loads of a %d-byte document (%s, parameter %d) did not finish within %.0f s%s"
                                % (cls.rsplit(".", 1)[1], len(text), family, prm, cap, "" if prev is None else "; %d bytes took %.2f s" % (prev[0], prev[1]))))
                    break
                prev = (len(text), t)
    finally:
        ld.close()
    return out


def replay(case, cap=2.0):
    if case.get("family"):
        cap = 4.0
    ld = Loader(False)
    try:
        t, _ = ld.load(case["cls"], case["text"], cap)
    finally:
        ld.close()
    return [] if t is not None else ["%s: loading the recorded %d-byte document did not finish within %.0f s" % (case["doc"], len(case["text"]), cap)]
