"""ComposeAccess.tla -> real productmd.compose.Compose: replay of accessor histories (part of C20).

A case is {"names": <starting directory>, "hist": [<the `last` record of every step>], "layout": 0..2, "rot": n}.
Every step is executed on ONE real Compose object over a real directory; after each access the outcome the caller sees
(document content / RuntimeError naming the file or the location), the identity of the returned object and the caller's
latest edit are compared with what the specification says.  The expectation comes from the specification alone: the
harness never asks the library which file it would read.
"""
import gc
import os
import shutil
import tempfile

from . import c20

FILE = {("info", "cur"): "composeinfo.json", ("images", "cur"): "images.json", ("images", "leg"): "image-manifest.json",
        ("rpms", "cur"): "rpms.json", ("rpms", "leg"): "rpm-manifest.json", ("modules", "cur"): "modules.json"}
IDX = {("info", "cur"): 2, ("images", "cur"): 3, ("images", "leg"): 4, ("rpms", "cur"): 5, ("rpms", "leg"): 6, ("modules", "cur"): 7}
LAYOUTS = ("direct", "compose", "legacy")
BAD = ["this is not { json", "", "{\"header\": ", "\x00\x01\x02", "[1, 2", "{\"header\": {\"version\": \"1.2\"}, \"payload\": {}} trailing"]
import locale
if locale.getpreferredencoding(False).lower().replace("-", "") == "utf8":
    # well-formed JSON whose text is not UTF-8 (a Latin-1 letter inside a string): undecodable under a UTF-8 locale
    BAD.insert(1, b"latin1")


def init_disk(names):
    d = {}
    for (k, s), v in IDX.items():
        leg = k in ("images", "rpms")
        if names == "none":
            d[(k, s)] = 0
        elif leg and s == "leg" and names == "cur":
            d[(k, s)] = 0
        elif leg and s == "cur" and names == "leg":
            d[(k, s)] = 0
        elif names == "curbad" and s == "cur":
            d[(k, s)] = 1
        else:
            d[(k, s)] = v
    return d


def _write(md, key, v, rot):
    p = os.path.join(md, FILE[key])
    if v == 0:
        if os.path.exists(p):
            os.unlink(p)
    elif v == 1:
        b = BAD[rot % len(BAD)]
        if isinstance(b, bytes):
            with open(p, "wb") as fh:
                fh.write(c20.doc(key[0], 50).encode("utf-8").replace(b"Fedora-22", b"F\xe9dora-22"))
        else:
            with open(p, "w") as fh:
                fh.write(b)
    else:
        with open(p, "w") as fh:
            fh.write(c20.doc(key[0], v))


def _decoy(root, layout):
    """metadata appears in the other candidate locations after the object was constructed"""
    for sub in {"direct": ("compose", "1.0"), "compose": ("", "1.0"), "legacy": ("compose", "")}[layout]:
        md = os.path.join(root, sub, "metadata")
        os.makedirs(md, exist_ok=True)
        for key in FILE:
            with open(os.path.join(md, FILE[key]), "w") as fh:
                fh.write(c20.doc(key[0], 900 + IDX[key]))


def describe(case):
    out = []
    for h in case["hist"]:
        if h["a"] == "access":
            out.append(".%s" % h["k"])
        elif h["a"] == "edit":
            out.append("edit(.%s)" % h["k"])
        elif h["a"] == "file":
            out.append("%s:%s" % (FILE[(h["k"], h["s"])], {"new": "replaced", "bad": "corrupted", "gone": "removed"}[h["w"]]))
        else:
            out.append("metadata-appears-elsewhere")
    return "%s layout, starting files %s, history %s" % (LAYOUTS[case.get("layout", 0)], case["names"], " ; ".join(out))


def evaluate(case):
    import productmd.compose
    import productmd.composeinfo, productmd.images, productmd.rpms, productmd.modules  # noqa
    fails = []
    layout = LAYOUTS[case.get("layout", 0)]
    rot = case.get("rot", 0)
    tmp = tempfile.mkdtemp(prefix="verif-c20a-")
    what = describe(case)
    try:
        root = os.path.join(tmp, "Fedora-22-20150522.0")
        mdroot = os.path.join(root, {"direct": "", "compose": "compose", "legacy": "22"}[layout])
        md = os.path.join(mdroot, "metadata")
        os.makedirs(md)
        disk = init_disk(case["names"])
        if layout == "compose" and disk[("info", "cur")] == 0:
            # compose/ is only preferred when it holds a composeinfo (ComposeLayout.tla): such a start is not this layout
            layout, mdroot = "legacy", os.path.join(root, "22")
            os.rename(os.path.join(root, "compose"), mdroot)
            md = os.path.join(mdroot, "metadata")
        for key, v in disk.items():
            _write(md, key, v, rot)
        try:
            c = productmd.compose.Compose(root + ("/" if rot % 5 == 3 else ""))
        except Exception as exc:
            return ["%s: Compose(path) raised %s: %s" % (what, type(exc).__name__, exc)]
        if os.path.normpath(c.compose_path) != os.path.normpath(mdroot):
            return ["%s: compose_path resolved to %s, expected %s" % (what, c.compose_path, mdroot)]
        held = {}           # kind -> object the caller got (kept only on some rotations: a caller that keeps nothing)
        ids = {}            # kind -> id() of the object served first
        keep = rot % 2 == 0
        for n, h in enumerate(case["hist"]):
            step = "step %d" % (n + 1)
            if h["a"] == "file":
                _write(md, (h["k"], h["s"]), h["v"], rot + n)
            elif h["a"] == "decoy":
                _decoy(root, layout)
            elif h["a"] == "edit":
                try:
                    getattr(c, h["k"]).compose.date = "E%07d" % h["e"]
                except Exception as exc:
                    fails.append("%s: %s: editing through .%s raised %s: %s" % (what, step, h["k"], type(exc).__name__, exc))
                    break
                if (rot + n) % 3 == 0:
                    gc.collect()
            else:
                k = h["k"]
                try:
                    obj = getattr(c, k)
                    out, err = "doc", None
                except RuntimeError as exc:
                    obj, out, err = None, "runtime", exc
                except Exception as exc:
                    fails.append("%s: %s: .%s raised %s instead of RuntimeError or a document: %s" % (what, step, k, type(exc).__name__, exc))
                    break
                if h["out"] == "doc":
                    if out != "doc":
                        fails.append("%s: %s: .%s raised %r although %s" % (what, step, k, str(err)[:160],
                                     "it was loaded before" if h["s"] == "" else "%s holds a valid document" % FILE[(k, h["s"])]))
                        break
                    if obj.compose.respin != h["v"]:
                        fails.append("%s: %s: .%s serves document %s, expected document %s (%s)" % (
                            what, step, k, obj.compose.respin, h["v"],
                            "the one loaded before: loaded once, then reused" if h["s"] == "" else "what loading %s directly gives" % FILE[(k, h["s"])]))
                        break
                    if h["s"] != "":
                        direct = type(obj)()
                        direct.load(os.path.join(md, FILE[(k, h["s"])]))
                        if direct.dumps() != obj.dumps():
                            fails.append("%s: %s: .%s differs from loading %s directly" % (what, step, k, FILE[(k, h["s"])]))
                            break
                    exp_date = "E%07d" % h["e"] if h["e"] else "20150522"
                    if obj.compose.date != exp_date:
                        fails.append("%s: %s: .%s shows compose.date %r, the caller's latest edit through the accessor was %r "
                                     "(an edit is lost when the file is read a second time)" % (what, step, k, obj.compose.date, exp_date))
                        break
                    if k in ids and keep and held.get(k) is not obj:
                        fails.append("%s: %s: .%s returned a different object than before (not reused)" % (what, step, k))
                        break
                    ids.setdefault(k, id(obj))
                    if keep:
                        held[k] = obj
                    obj = None
                else:
                    if out == "doc":
                        fails.append("%s: %s: .%s returned document %s although %s" % (
                            what, step, k, getattr(obj.compose, "respin", "?"),
                            "no file of that kind exists" if h["out"] == "missing" else "%s is undecodable" % FILE[(k, h["s"])]))
                        break
                    msg = os.path.normpath(str(err))
                    if h["out"] == "missing":
                        if os.path.normpath(mdroot) not in msg and os.path.normpath(mdroot) not in str(err):
                            fails.append("%s: %s: RuntimeError for missing %s does not name the location: %r" % (what, step, k, str(err)))
                            break
                    else:
                        fn = os.path.join(md, FILE[(k, h["s"])])
                        if fn not in msg and fn not in str(err):
                            fails.append("%s: %s: RuntimeError for undecodable %s does not name the file: %r" % (what, step, FILE[(k, h["s"])], str(err)))
                            break
                if (rot + n) % 4 == 1:
                    gc.collect()
    finally:
        shutil.rmtree(tmp, ignore_errors=True)
    return fails


def measure_pref():
    """which of the two names wins when both exist, in the plain layout (left open by the statement)"""
    a, b = c20._both_reference("images"), c20._both_reference("rpms")
    if a is None or b is None or a != b:
        return None
    return a


def generate(ctx, core, pref):
    """histories from ComposeAccessGen.tla: exhaustive per focus pair, random deep over all kinds"""
    cases = []
    base = {"PrefCurrent": pref}

    def gen(focus, depth, simulate=None):
        out = []
        consts = dict(base, D=depth, Focus=set(focus))
        if simulate:
            cfg = core.cfg_with("ComposeAccessGen.cfg", ["CONSTRAINT EmitLast"], consts)
            ctx.tlc("ComposeAccessGen", cfg_text=cfg, constants=consts, on_emit=out.append, mode="simulate", sim_num=simulate,
                    sim_depth=depth + 1, seed=ctx.seed + 7)
        else:
            cfg = core.cfg_with("ComposeAccessGen.cfg", ["CONSTRAINT EmitLast"], consts)
            ctx.require_ok(ctx.tlc("ComposeAccessGen", cfg_text=cfg, constants=consts, on_emit=out.append, timeout=1800))
        return out
    # thorough: depth 3 for both pairs and depth 4 for the two-name kind alone (about 33 000 more histories).  Depth 4 for a pair
    # is about 190 000 histories and depth 5 for one kind 300 000: replaying those took 20 - 80 minutes on this machine and found
    # nothing the shallower tiers had not, so the thorough tier spends its time on random deep histories and recorded executions.
    cases += gen(["images", "info"], 3)
    cases += gen(["rpms", "modules"], 3)
    if not ctx.quick:
        cases += gen(["images"], 4)
    cases += gen(["info", "images", "rpms", "modules"], 12, simulate=150 if ctx.quick else 4000)
    seen, uniq = set(), []
    for c in cases:
        k = core._digest(c)
        if k not in seen:
            seen.add(k)
            uniq.append(c)
    for i, c in enumerate(uniq):
        c["layout"] = (i + ctx.seed) % 3
        c["rot"] = (i // 3 + ctx.seed) % 60
    return uniq
