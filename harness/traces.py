"""Code -> spec: record executions of the real library and validate them with TLC."""
import json
import os
import re
import subprocess
import sys
import tempfile

from . import core

HARNESS = os.path.dirname(os.path.abspath(__file__))
_CACHE = {}


def _env(trace_path):
    env = dict(os.environ)
    env.update({"PRODUCTMD_VERIF": "1", "PRODUCTMD_VERIF_TRACE": trace_path, "PYTHONDONTWRITEBYTECODE": "1",
                "PYTHONPATH": os.pathsep.join([HARNESS, core.VERIF, core.REPO]), "PYTHONHASHSEED": "0"})
    return env


def record_testsuite():
    """Run the repository's own tests, unedited, under the recorder; return {family: [trace]}."""
    if "testsuite" in _CACHE:
        return _CACHE["testsuite"]
    fd, path = tempfile.mkstemp(prefix="verif-trace-", suffix=".json")
    os.close(fd)
    try:
        p = subprocess.run([core.PY, "-m", "pytest", "-q", "-x", "-p", "no:cacheprovider", "-p", "verif_recorder", "tests/"],
                           cwd=core.REPO, env=_env(path), capture_output=True, text=True, timeout=900)
        try:
            with open(path) as fh:
                data = json.load(fh)
        except ValueError:
            raise core.MachineryError("recorder produced no trace file; pytest said:\n" + p.stdout[-2000:] + p.stderr[-2000:])
        data["_pytest_tail"] = p.stdout.strip().splitlines()[-1:] if p.stdout.strip() else []
        data["_pytest_rc"] = p.returncode
    finally:
        os.unlink(path)
    _CACHE["testsuite"] = data
    return data


def run_driver(name, seed, n):
    """Run a seeded random driver (harness/drivers.py) under the recorder in a fresh interpreter."""
    fd, path = tempfile.mkstemp(prefix="verif-trace-", suffix=".json")
    os.close(fd)
    try:
        p = subprocess.run([core.PY, "-m", "harness.drivers", name, str(seed), str(n)], cwd=core.VERIF,
                           env=_env(path), capture_output=True, text=True, timeout=900)
        if p.returncode != 0:
            raise core.MachineryError("driver %s failed:\n%s" % (name, p.stderr[-3000:]))
        with open(path) as fh:
            return json.load(fh)
    finally:
        os.unlink(path)


_RE_VERDICT = re.compile(r'^<<"(ACCEPT|REJECT)", "([^"]+)"(?:, "at", (\d+))?>>')


def validate_batch(ctx, module, cfg, traces, extra=None, invariants_note="", dfs=False, timeout=900):
    """Validate traces with TLC (Trace_*.tla).  Returns {tid: ("ACCEPT"|"REJECT", matched_prefix_len)}.
    An invariant violated on a recorded state is returned as ("INVARIANT", name, tid index)."""
    if not traces:
        return {}
    fd, path = tempfile.mkstemp(prefix="verif-batch-", suffix=".json")
    os.close(fd)
    try:
        blob = {"traces": traces}
        blob.update(extra or {})
        with open(path, "w") as fh:
            json.dump(blob, fh)
        verdicts = {}

        def on_line(line):
            m = _RE_VERDICT.match(line)
            if m:
                verdicts[m.group(2)] = (m.group(1), int(m.group(3) or 0))
        r = ctx.tlc(module, cfg, env={"TRACE_FILE": path}, workers=1, coverage=False, expect_error=True,
                    dfs=dfs, timeout=timeout, on_line=on_line)
    finally:
        os.unlink(path)
    if r.violated:
        tidx = None
        for _, lines in r.trace[-1:]:
            for ln in lines:
                m = re.match(r"^/\\ tid = (\d+)", ln)
                if m:
                    tidx = int(m.group(1))
        verdicts["__invariant__"] = ("INVARIANT", r.violated, tidx, ["%s: %s" % (a, " ".join(s)) for a, s in r.trace[-3:]])
        return verdicts
    if r.error:
        raise core.MachineryError("trace validation %s failed: %s\n%s" % (module, r.error, "\n".join(r.log[-30:])))
    missing = [t["tid"] for t in traces if t["tid"] not in verdicts]
    if missing:
        raise core.MachineryError("no verdict for traces %s\n%s" % (missing[:5], "\n".join(r.log[-30:])))
    return verdicts
