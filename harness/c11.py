"""C11 The variant forest stays consistent and every variant is findable (Forest.tla)."""
from . import core, forest_adapter as A

DEVS = [("Dev_FalsyParent", {"ArchSubset"}), ("Dev_ParentSetFirst", {"RefusedNoop", "UidAligned", "ParentMirror"}),
        ("Dev_RecurseDropsArch", {"GetVSound"}), ("Dev_LookupUidFirst", {"Findable"}),
        ("Dev_UidCollision", {"UidUnique", "Findable"}),
        ("Dev_TopKeepsParent", {"UidUnique", "UidAligned", "ParentMirror", "Findable", "GetVSound"})]


def run(ctx):
    ctx.rule = ("TLC explores every distinct forest reachable by in-scope add calls over a 12-object pool (valid, "
                "duplicate-id, foreign-arch, misaligned, dashed top-level, depth 3) and emits, per forest, a shortest "
                "history, the expected parent/children tables and the expected outcome + successor of every add; the "
                "harness replays each on the real classes, checks every transition, every UID/id lookup and every "
                "get_variants filter combination, before and after a write/read cycle. non-trivial = distinct "
                "(forest, name concretisation)")
    ctx.assumptions += ["a filed variant object is re-added only to its own container or below itself (scope of the statement)",
                        "bottom-up construction (sub-trees built on a variant outside the forest, then attached) is explored on its own 8-object pool",
                        "add()'s optional variant_id (the variant's id, its UID, another name) is explored on its own 5-object pool",
                        "get_variants: only the clauses of the statement are checked (no duplicates, UID order, arch/type "
                        "membership, no filter = everything); which filtered sub-trees recursion enters is left open"]
    import concurrent.futures
    base = open(core.os.path.join(core.SPEC_DIR, "MC_Forest.cfg")).read()

    # bottom-up construction (children added to a variant that is not in the forest yet, the sub-tree attached afterwards):
    # its own pool, scope switch on
    bottom_up = base.replace("Obj <- MCObj", "Obj <- MCObj3").replace("BottomUp = FALSE", "BottomUp = TRUE")

    # the optional variant_id of add(): every key form on a five-object pool
    keys = base.replace("Obj <- MCObj", "Obj <- MCObj4").replace('KeyForms = {"id"}', 'KeyForms = {"id", "uid", "other"}')

    def mc(job):
        dev, invs = job
        if dev == "KeyForms":
            return job, ctx.tlc("MC_Forest", cfg_text=keys, must_cover=["Next"], workers=2)
        if dev in ("Dev_KeyUnchecked", "Dev_IdUnchecked"):
            return job, ctx.tlc("MC_Forest", cfg_text=keys.replace(dev + " = FALSE", dev + " = TRUE"), expect_error=True, count=False, workers=2)
        if dev is None:
            return job, ctx.tlc("MC_Forest", "MC_Forest.cfg", must_cover=["Next"], workers=4)
        if dev == "BottomUp":
            return job, ctx.tlc("MC_Forest", cfg_text=bottom_up, must_cover=["Next"], workers=2)
        if dev == "Dev_UidSubtreeUnchecked":
            return job, ctx.tlc("MC_Forest", cfg_text=bottom_up.replace(dev + " = FALSE", dev + " = TRUE"), expect_error=True, count=False, workers=2)
        return job, ctx.tlc("MC_Forest", cfg_text=base.replace(dev + " = FALSE", dev + " = TRUE"), expect_error=True, count=False, workers=3)
    with concurrent.futures.ThreadPoolExecutor(max_workers=8) as ex:
        results = list(ex.map(mc, [(None, None), ("BottomUp", None), ("KeyForms", None)] + DEVS
                              + [("Dev_UidSubtreeUnchecked", {"UidUnique", "Findable"}), ("Dev_KeyUnchecked", {"KeyIsId", "OnceEach", "Findable"}),
                                 ("Dev_IdUnchecked", {"SiblingIds"})]))
    for (dev, invs), r in results:
        if dev in (None, "BottomUp", "KeyForms"):
            ctx.require_ok(r)
            continue
        if r.violated not in invs:
            raise core.MachineryError("deviation %s should violate one of %s, TLC says violated=%s ok=%s"
                                      % (dev, invs, r.violated, r.ok))
        ctx.notes["asshipped_" + dev] = "TLC counterexample: %s violated after %d steps" % (r.violated, len(r.trace) - 1)
    states = []
    r = ctx.tlc("ForestGen", "ForestGen.cfg", on_emit=states.append, count=False)
    ctx.require_ok(r)
    gen_base = open(core.os.path.join(core.SPEC_DIR, "ForestGen.cfg")).read()
    bu = []
    ctx.require_ok(ctx.tlc("ForestGen", cfg_text=gen_base.replace("Obj <- MCObj", "Obj <- MCObj3").replace("BottomUp = FALSE", "BottomUp = TRUE"),
                           on_emit=bu.append, count=False))
    ctx.notes["distinct_forests_bottom_up"] = len(bu)
    states += bu
    ky = []
    ctx.require_ok(ctx.tlc("ForestGen", cfg_text=gen_base.replace("Obj <- MCObj", "Obj <- MCObj4")
                           .replace('KeyForms = {"id"}', 'KeyForms = {"id", "uid", "other"}'), on_emit=ky.append, count=False))
    ctx.notes["distinct_forests_key_forms"] = len(ky)
    states += ky
    if not ctx.quick:
        cfg2 = open(core.os.path.join(core.SPEC_DIR, "ForestGen.cfg")).read().replace("Obj <- MCObj", "Obj <- MCObj2")
        more = []
        ctx.require_ok(ctx.tlc("ForestGen", cfg_text=cfg2, on_emit=more.append, count=False, timeout=1800))
        ctx.notes["distinct_forests_pool2"] = len(more)
        states += more
    nrot = 2 if ctx.quick else len(A.TOKSETS) * len(A.ARCHSETS)
    cases = []
    for i, s in enumerate(states):
        for k in range(nrot):
            c = dict(s)
            c["rot"] = (i + k + ctx.seed) % (len(A.TOKSETS) * len(A.ARCHSETS)) if ctx.quick else k
            c["quick"] = ctx.quick
            cases.append(c)
    ctx.notes["distinct_forests"] = len(states)
    ctx.notes["transitions_checked"] = sum(len(s["acts"]) for s in states) * nrot
    ctx.exhaustive = True
    ctx.evaluate(A.eval_state, cases, label="forest-state", chunk=8,
                 key=lambda c: core._digest([c["kids"], c["par"], c["rot"]]))
    ctx.traces += ctx.notes["transitions_checked"]
    validate_traces(ctx)


def _prep(data):
    trs = []
    for t in data.get("forest", []):
        evs = []
        for e in t["events"]:
            if e["op"] != "add" or e["par"] == "<unnamed>":
                break                  # an object was mutated after filing: the rest of this trace is not judged
            evs.append(e)
        if evs:
            trs.append({"tid": t["tid"], "events": evs})
    used = set(x for t in trs for e in t["events"] for x in (e["c"], e["o"], e["par"])) - set(["ROOT", "None"])
    objs = {n: a for n, a in data.get("forest_objs", {}).items() if n in used}
    missing = used - set(objs)
    if missing:
        trs = [t for t in trs if not any(x in missing for e in t["events"] for x in (e["c"], e["o"], e["par"]))]
    return trs, objs


def validate_traces(ctx):
    """code -> spec: recorded adds of the repository's tests and of a seeded random driver against Trace_Forest.tla."""
    from . import traces as T
    n_driver = 60 if ctx.quick else 1200
    for source, data, meta in (("testsuite", T.record_testsuite(), {}),
                               ("driver", T.run_driver("forest", ctx.seed, n_driver), {"seed": ctx.seed, "n": n_driver})):
        trs, objs = _prep(data)
        if not trs:
            raise core.MachineryError("no recorded forest traces from %s" % source)
        # the state of the trace spec holds one children table per object of the batch: validate in small batches
        # (own object universe each), several TLC processes side by side
        import concurrent.futures
        groups = [trs[i:i + 6] for i in range(0, len(trs), 6)]

        def one(group):
            used = set(x for t in group for e in t["events"] for x in (e["c"], e["o"], e["par"])) - set(["ROOT", "None"])
            return group, T.validate_batch(ctx, "Trace_Forest", "Trace_Forest.cfg", group, extra={"objs": {k: objs[k] for k in used}})
        verdicts = {}
        with concurrent.futures.ThreadPoolExecutor(max_workers=core.NCPU) as ex:
            results = list(ex.map(one, groups))
        bad_inv = False
        for group, v in results:
            inv = v.pop("__invariant__", None)
            if inv:
                t = group[inv[2] - 1] if inv[2] else None
                ctx.fail({"source": source, "meta": meta, "trace": t,
                          "objs": {k: objs[k] for e in (t or {"events": []})["events"] for k in (e["c"], e["o"]) if k in objs},
                          "tlc": inv[3]}, "recorded execution reaches a forest violating %s" % inv[1], "trace")
                bad_inv = True
            verdicts.update(v)
        if bad_inv:
            continue
        by = {t["tid"]: t for t in trs}
        for tid, (v, at) in verdicts.items():
            if v == "REJECT":
                t = by[tid]
                ev = t["events"][at - 1] if 0 < at <= len(t["events"]) else None
                ctx.fail({"source": source, "meta": meta, "trace": t, "rejected_at": at, "event": ev,
                          "objs": {k: objs[k] for e in t["events"] for k in (e["c"], e["o"]) if k in objs}},
                         "recorded execution is not a behaviour of Forest: event %d %s (container %s, variant %s)"
                         % (at, ev, objs.get(ev["c"]) if ev else None, objs.get(ev["o"]) if ev else None), "trace")
        ctx.notes["forest_traces_%s" % source] = len(trs)
        ctx.notes["forest_trace_events_%s" % source] = sum(len(t["events"]) for t in trs)
        ctx.traces += len(trs)
        ctx.evaluations += len(trs)
        ctx.distinct_count += len(trs)
        ctx.sample({"kind": "trace", "source": source, "events": trs[0]["events"][:3]}, limit=8)


def replay(info):
    if info["kind"] == "trace":
        ctx = core.Ctx("C11", "quick", info["case"].get("meta", {}).get("seed", 0))
        validate_traces(ctx)
        return [v[0]["why"] for v in ctx.violations]
    return A.eval_state(info["case"])
