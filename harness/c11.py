"""C11 The variant forest stays consistent and every variant is findable (Forest.tla)."""
from . import core, forest_adapter as A

DEVS = [("Dev_FalsyParent", {"ArchSubset"}), ("Dev_ParentSetFirst", {"RefusedNoop", "UidAligned", "ParentMirror"}),
        ("Dev_RecurseDropsArch", {"GetVSound"}), ("Dev_LookupUidFirst", {"Findable"})]


def run(ctx):
    ctx.rule = ("TLC explores every distinct forest reachable by in-scope add calls over a 12-object pool (valid, "
                "duplicate-id, foreign-arch, misaligned, dashed top-level, depth 3) and emits, per forest, a shortest "
                "history, the expected parent/children tables and the expected outcome + successor of every add; the "
                "harness replays each on the real classes, checks every transition, every UID/id lookup and every "
                "get_variants filter combination, before and after a write/read cycle. non-trivial = distinct "
                "(forest, name concretisation)")
    ctx.assumptions += ["a filed variant object is re-added only to its own container or below itself (scope of the statement)",
                        "get_variants: only the clauses of the statement are checked (no duplicates, UID order, arch/type "
                        "membership, no filter = everything); which filtered sub-trees recursion enters is left open"]
    r = ctx.tlc("MC_Forest", "MC_Forest.cfg", must_cover=["Next"])
    ctx.require_ok(r)
    base = open(core.os.path.join(core.SPEC_DIR, "MC_Forest.cfg")).read()
    for dev, invs in DEVS:
        r = ctx.tlc("MC_Forest", cfg_text=base.replace(dev + " = FALSE", dev + " = TRUE"), expect_error=True, count=False)
        if r.violated not in invs:
            raise core.MachineryError("deviation %s should violate one of %s, TLC says violated=%s ok=%s"
                                      % (dev, invs, r.violated, r.ok))
        ctx.notes["asshipped_" + dev] = "TLC counterexample: %s violated after %d steps" % (r.violated, len(r.trace) - 1)
    states = []
    r = ctx.tlc("ForestGen", "ForestGen.cfg", on_emit=states.append, count=False)
    ctx.require_ok(r)
    nrot = 2 if ctx.quick else len(A.TOKSETS) * len(A.ARCHSETS)
    cases = []
    for i, s in enumerate(states):
        for k in range(nrot):
            c = dict(s)
            c["rot"] = (i + k + ctx.seed) % (len(A.TOKSETS) * len(A.ARCHSETS)) if ctx.quick else k
            c["quick"] = ctx.quick
            cases.append(c)
    ctx.notes["distinct_forests"] = len(states)
    ctx.notes["transitions_checked"] = sum(len(s["acts"]) for s in states) * nrot
    ctx.exhaustive = True
    ctx.evaluate(A.eval_state, cases, label="forest-state", chunk=8,
                 key=lambda c: core._digest([c["kids"], c["par"], c["rot"]]))
    ctx.traces += ctx.notes["transitions_checked"]


def replay(info):
    return A.eval_state(info["case"])
