"""Single-field corruptions of valid objects (C06) and valid documents (C07), driven by Validation.tla.

The rule table lives in the spec; this module owns (a) the measurement of node instances on the
real sample objects, (b) the class token -> concrete value tables, (c) how a slot is reached in an
object (public attributes) and in a document (independent JSON / INI / line editing - never the
library's own reader or writer)."""
import configparser
import io
import json
import os

from . import core, samples

# ----------------------------------------------------------------- node instances (measured)


def nodes(fmt, obj):
    """-> list of (kinds, label, python object)."""
    out = []
    if fmt == "composeinfo":
        out.append((["compose"] + (["compose+label"] if obj.compose.label else []), "compose", obj.compose))
        out.append((["ci.release"], "release", obj.release))
        if obj.release.is_layered:
            out.append((["ci.base_product"], "base_product", obj.base_product))

        def walk(cont, depth):
            for k in sorted(cont.variants):
                v = cont.variants[k]
                deep = depth >= 2 and set(_top(v).arches) - set(v.parent.arches)
                out.append((["ci.variant"] + (["ci.childvariant"] if depth else []) + (["ci.grandchild"] if deep else [])
                            + ([] if v.variants else ["ci.leafvariant"]), v.uid, v))
                if v.type == "layered-product":
                    out.append((["ci.vrelease"], v.uid, v.release))
                walk(v, depth + 1)
        walk(obj.variants, 0)
    elif fmt in ("images", "rpms", "modules", "extra_files"):
        out.append((["compose"] + (["compose+label"] if obj.compose.label else []), "compose", obj.compose))
        if fmt == "images":
            seen = set()
            for v in sorted(obj.images):
                for a in sorted(obj.images[v]):
                    for img in sorted(obj.images[v][a], key=lambda i: i.path):
                        if id(img) in seen:
                            continue
                        seen.add(id(img))
                        out.append((["img.image"] + ([] if img.unified else ["img.plainimage"])
                                    + (["img.twinimage"] if _near_twin(obj, a, img) else []), "%s|%s|%s" % (v, a, img.path), img))
    elif fmt == "treeinfo":
        out.append((["ti.release"], "release", obj.release))
        if obj.release.is_layered:
            out.append((["ti.base_product"], "base_product", obj.base_product))
        out.append((["ti.tree"], "tree", obj.tree))

        def walk(cont, child):
            for k in sorted(cont.variants):
                v = cont.variants[k]
                out.append((["ti.variant"] + (["ti.childvariant"] if child else []), v.uid, v))
                walk(v, True)
        walk(obj.variants, False)
        if obj.images.images:
            out.append((["ti.images"] + (["ti.sharedimages"] if _shared_image(obj.images) else []), "images", obj.images))
        if obj.stage2.mainimage or obj.stage2.instimage:
            out.append((["ti.stage2"], "stage2", obj.stage2))
        if obj.media.discnum or obj.media.totaldiscs:
            out.append((["ti.media"], "media", obj.media))
        elif obj.media.discnum is None and obj.media.totaldiscs is None:
            out.append((["ti.nomedia"], "media", obj.media))
        if obj.checksums.checksums:
            out.append((["ti.checksums"], "checksums", obj.checksums))
    elif fmt == "discinfo":
        out.append((["di.discinfo"], "discinfo", obj))
    return out


IDENT = ("subvariant", "type", "format", "arch", "disc_number", "unified", "additional_variants")     # doc/images-1.1.rst


def _near_twin(man, arch_key, img):
    """An image filed under ANOTHER arch key that differs from img in exactly one identifying attribute (and in checksums):
    -> (attribute, the twin's value) or None."""
    for v in sorted(man.images):
        for a in sorted(man.images[v]):
            if a == arch_key:
                continue
            for other in sorted(man.images[v][a], key=lambda i: i.path):
                diff = [k for k in IDENT if getattr(other, k) != getattr(img, k)]
                if len(diff) == 1 and other.checksums != img.checksums:
                    return diff[0], getattr(other, diff[0])
    return None


ALIGNED = {"nl_aligned": "\n", "unicode_aligned": "\u00e9\uff11"}


def _rename_aligned(node, new_id):
    """Give a filed composeinfo variant another id, keeping its UID, its key in the parent's table and all UIDs below aligned."""
    table = node.parent.variants if node.parent is not None else node._metadata.variants.variants
    key = [k for k, v in table.items() if v is node][0]
    del table[key]
    node.id = new_id
    node.uid = new_id if node.parent is None else "%s-%s" % (node.parent.uid, new_id)
    table[new_id if node.parent is not None or "-" not in key else key] = node

    def below(v):
        for c in v.variants.values():
            c.uid = "%s-%s" % (v.uid, c.id)
            below(c)
    below(node)


def _top(v):
    while v.parent is not None:
        v = v.parent
    return v


def _shared_image(images, last=False):
    """(platform, name) of an image name listed under two platforms: the first (last) platform holding it, in table order."""
    plats = list(images.images)
    for name in sorted(set(n for p in plats for n in images.images[p])):
        holders = [p for p in plats if name in images.images[p]]
        if len(holders) > 1:
            return (holders[-1] if last else holders[0]), name
    return None


def validate_all(fmt, obj, order):
    """Pre-step for order-sensitive validation state: run the public validate() of every node in a given order."""
    ns = nodes(fmt, obj)
    if order == "reverse":
        ns = list(reversed(ns))
    for _, _, n in ns:
        try:
            n.validate()
        except Exception:
            pass


def measured_nodes():
    table = {}
    for fmt in samples.FORMATS:
        for shape in range(samples.NSHAPES[fmt]):
            table["%s_%d" % (fmt, shape)] = [{"kinds": set(k), "label": l} for k, l, _ in nodes(fmt, samples.build(fmt, shape))]
    return table


# ----------------------------------------------------------------- class tokens -> values

OBJ = {"true": True, "none": None, "int": 5, "empty": "", "float": 1.5, "strnum": "7", "str": "yes", "zero": 0, "list": [], "emptydict": {},
       "emptylist": [], "emptyset": set(), "tuple": ("a",), "unknown": "bogus-value", "date7": "2015052", "date9": "201505222",
       "date_dashed": "2015-05-22", "nodate": "Fedora-22", "label_ga": "GA", "label_noversion": "RC", "label_onepart": "RC-1",
       "label_unknown": "Gamma-1.0", "label_threepart": "RC-1.0.0", "label_lower": "rc-1.0", "trailingdot": "1.", "doubledot": "1..2",
       "alnum": "1a", "dash": "a-b", "space": "a b", "md5_short": "abc123", "md5_upper": "A" * 32, "md5_31": "a" * 31,
       "layered": "layered-product", "variantid": "Server", "nan": float("nan"), "bytes": b"x86_64", "md5_nl": "a" * 32 + "\n",
       "zerofloat": 0.0, "archlist": ["x86_64"], "blanks": "  \t ", "numnl": "22\n", "list_int_float": [1, 1.0], "list_int_bool": [1, True], "list_of_text": ["x", "y"], "list_of_float": [1.5],
       "md5_nonhex": "g" * 32, "set_of_int": set([5]), "set_of_none": set([None]), "set_of_blank": set([""])}
FULLWIDTH = {ord(c): 0xFF10 + int(c) for c in "0123456789"}
DOC = dict(OBJ)
DOC.update({"emptyset": [], "int_date": 20150522, "set_of_int": [5], "set_of_none": [None], "set_of_blank": [""]})
INI = {"trailingdot": "1.", "alnum": "1a", "str": "maybe", "empty": "", "zero": "0", "dash": "a-b", "unknown": "bogus-value",
       "layered": "layered-product"}


def corrupt_object(fmt, obj, node_index, field, cls):
    kinds, label, node = nodes(fmt, obj)[node_index - 1]
    if cls == "upper":
        setattr(node, field, getattr(node, field).upper())
    elif cls == "inplace_clear":
        obj.dumps()
        getattr(node, field).clear()
    elif cls == "inplace_append":
        obj.dumps()
        getattr(node, field).append("Client")
    elif cls == "nl":
        setattr(node, field, getattr(node, field) + "\n")
    elif cls == "fullwidth":
        setattr(node, field, getattr(node, field).translate(FULLWIDTH))
    elif cls in ALIGNED:
        _rename_aligned(node, node.id + ALIGNED[cls])
    elif field == "image_paths" and cls == "int":
        plat = sorted(node.images)[0]
        node.images[plat][sorted(node.images[plat])[0]] = 5
    elif field == "image_paths" and cls == "table_none":
        node.images[sorted(node.images)[0]] = None
    elif field == "image_paths" and cls in ("tables_zero", "tables_emptylist"):
        node.images = 0 if cls == "tables_zero" else []
    elif field == "paths_table":
        node.paths.os_tree = "Server/os"
    elif cls == "misaligned":
        node.uid = node.uid + "x"
    elif cls == "dashvariant":
        node.uid = node.uid.replace("-", "", 1)
    elif cls == "doubledash":
        node.uid = node.uid.replace("-", "--", 1)
    elif cls == "arch_unreferenced":
        tree = node._metadata.tree
        if tree.arch not in node.images:
            raise core.MachineryError("sample has no image table for the tree arch")
        tree.platforms.discard(tree.arch)
    elif cls == "foreign":
        node.arches = set(node.arches) | set(["s390x"])
    elif cls == "foreign_substring":
        node.arches = set([sorted(node.parent.arches)[0][:-2]])
    elif cls == "foreign_ancestor":
        extra = set(_top(node).arches) - set(node.parent.arches)
        if not extra:
            raise core.MachineryError("no architecture of the top-level ancestor is missing from the parent")
        node.arches = set(node.arches) | extra
    elif cls in ("absolute_shared", "absolute_shared_last"):
        plat, name = _shared_image(node, last=cls.endswith("_last"))
        node.images[plat][name] = "/abs/shared-name"
    elif cls == "nonempty":
        node.additional_variants = ["Client"]
    elif field == "image_paths":
        plat = sorted(node.images)[0]
        name = sorted(node.images[plat])[0]
        node.images[plat][name] = "/abs/boot.iso"
    elif field == "platforms" and cls == "unreferenced":
        node.images["bogusplat"] = {"kernel": "images/vmlinuz"}
    elif cls == "absolute" and field in ("mainimage", "instimage"):
        setattr(node, field, "/abs/install.img")
    elif cls == "absolute_alone":
        node.mainimage = None                   # valid by itself: the other image is the only one
        node.instimage = "/abs/install.img"
    elif cls == "absolute" and field == "paths":
        node.checksums["/abs/file"] = ["sha256", "0" * 64]
    elif cls == "intkey" and field == "paths":
        node.checksums[5] = ["sha256", "0" * 64]
    elif cls.startswith("unknown_as_"):
        # the unsupported format sits on an image of a type for which the library lists no formats of its own
        node.type = cls[len("unknown_as_"):]
        node.format = "bogus-value"
    elif cls == "onlyone":
        node.totaldiscs = None
    elif field.startswith("path_"):
        setattr(node.paths, field[5:], OBJ[cls])
    else:
        setattr(node, field, OBJ[cls] if not isinstance(OBJ[cls], (list, dict, set)) else type(OBJ[cls])(OBJ[cls]))


# ----------------------------------------------------------------- independent document editing

class Ini(object):
    """Case-preserving, interpolation-free INI reader/writer independent of productmd's parser."""

    def __init__(self, text):
        self.p = configparser.RawConfigParser()
        self.p.optionxform = str
        self.p.read_string(text)

    def text(self):
        out = io.StringIO()
        self.p.write(out)
        return out.getvalue()


def _find_variant_section(ini, uid):
    for s in ("variant-" + uid, "addon-" + uid):
        if ini.p.has_section(s):
            return s
    raise KeyError(uid)


def corrupt_document(fmt, text, obj, case):
    """Apply the slot corruption of `case` to the document text.  Returns new text or None (not expressible)."""
    kind, field, cls, label = case["kind"], case["field"], case["cls"], case["label"]
    if fmt == "discinfo":
        lines = text.split("\n")
        idx = {"timestamp": 0, "description": 1, "arch": 2, "disc_numbers": 3}[field]
        val = {"zero": "0", "str": "abc", "empty": "", "doc:trailingcomma": "1,2,", "doc:leadingcomma": ",1", "doc:doublecomma": "1,,2"}.get(cls)
        if field == "disc_numbers" and cls == "str":
            val = "a,b"
        if val is None:
            return None
        lines[idx] = val
        return "\n".join(lines)
    if fmt == "treeinfo":
        ini = Ini(text)
        if kind in ("ti.variant", "ti.childvariant"):
            sec = _find_variant_section(ini, label)
            if cls == "misaligned":
                # keep the UID (it names the section) and break the id it must end with
                ini.p.set(sec, "id", ini.p.get(sec, "id") + "x")
            else:
                ini.p.set(sec, field, INI[cls])
        elif kind == "ti.images" and cls == "arch_unreferenced":
            arch = ini.p.get("tree", "arch")
            ini.p.set("tree", "platforms", ",".join(p for p in ini.p.get("tree", "platforms").split(",") if p != arch))
        elif kind in ("ti.images", "ti.sharedimages"):
            if cls in ("absolute_shared", "absolute_shared_last"):
                plat, name = _shared_image(obj.images, last=cls.endswith("_last"))
                ini.p.set("images-" + plat, name, "/abs/shared-name")
            elif field == "image_paths":
                sec = [s for s in ini.p.sections() if s.startswith("images-")][0]
                ini.p.set(sec, ini.p.options(sec)[0], "/abs/boot.iso")
            else:
                ini.p.add_section("images-bogusplat")
                ini.p.set("images-bogusplat", "kernel", "images/vmlinuz")
        elif kind == "ti.stage2":
            ini.p.set("stage2", field, "/abs/install.img")
        elif kind == "ti.media":
            ini.p.set("media", field, "abc")
        elif kind == "ti.checksums" and cls.startswith("doc:bare"):
            # a bare digest whose length is none of 32/40/64; "_first": sorts before every other entry
            ini.p.set("checksums", "zzz/file" if not cls.endswith("_first") else "!first", "0" * 48)
        elif kind == "ti.checksums":
            ini.p.set("checksums", "/abs/file", "sha256:" + "0" * 64)
        else:
            sec = {"ti.release": "release", "ti.base_product": "base_product", "ti.tree": "tree"}[kind]
            v = INI[cls]
            if field == "build_timestamp" and cls == "str":
                v = "abc"
            ini.p.set(sec, field, v)
        return ini.text()
    doc = json.loads(text)
    pay = doc["payload"]
    if kind in ("compose", "compose+label"):
        node = pay["compose"]
    elif kind == "ci.release":
        node = pay["release"]
    elif kind == "ci.base_product":
        node = pay["base_product"]
    elif kind in ("ci.variant", "ci.childvariant", "ci.grandchild", "ci.leafvariant"):
        node = pay["variants"][label]
    elif kind == "ci.vrelease":
        node = pay["variants"][label]["release"]
    elif kind in ("img.image", "img.plainimage", "img.twinimage"):
        v, a, path = label.split("|")
        hits = [d for d in pay["images"][v][a] if d["path"] == path]      # this record only, not its copies in other cells
        if not hits:
            raise core.MachineryError("image %s not found in document" % label)
        node = None
        nodes_ = hits
    else:
        raise core.MachineryError("no document location for kind %s" % kind)
    targets = nodes_ if kind in ("img.image", "img.plainimage", "img.twinimage") else [node]
    for n in targets:
        if cls == "upper":
            n[field] = n[field].upper()
        elif cls == "nl":
            n[field] = n[field] + "\n"
        elif cls == "fullwidth":
            n[field] = n[field].translate(FULLWIDTH)
        elif cls in ALIGNED:
            if n.get("variants") or "-" in n["id"] or n["uid"].replace("-", "") == n["id"] != n["uid"]:
                return None          # only childless variants with an undashed UID are renamed in a document
            sfx = ALIGNED[cls]
            old_id = n["id"]
            n["id"], n["uid"] = n["id"] + sfx, n["uid"] + sfx
            for par in pay["variants"].values():              # keep the parent's child list and the table key aligned, too
                if old_id in par.get("variants", []) and label == par["uid"] + "-" + old_id:
                    par["variants"] = [c + sfx if c == old_id else c for c in par["variants"]]
            pay["variants"][label + sfx] = pay["variants"].pop(label)
        elif cls == "misaligned":
            n["uid"] = n["uid"] + "x"
        elif cls == "dashvariant":
            n["uid"] = n["uid"].replace("-", "", 1)
        elif cls == "doubledash":
            n["uid"] = n["uid"].replace("-", "--", 1)
        elif cls == "foreign":
            n["arches"] = sorted(set(n["arches"]) | set(["s390x"]))
        elif cls == "foreign_substring":
            par = [v for v in pay["variants"].values() if label == v["uid"] + "-" + n["id"]][0]
            n["arches"] = [sorted(par["arches"])[0][:-2]]
        elif cls == "foreign_ancestor":
            top = pay["variants"][[u for u in pay["variants"] if label.startswith(u + "-") and "-" not in u][0]]
            par = pay["variants"][label.rsplit("-", 1)[0]]
            n["arches"] = sorted(set(n["arches"]) | (set(top["arches"]) - set(par["arches"])))
        elif cls == "nonempty":
            n["additional_variants"] = ["Client"]
        elif cls.startswith("unknown_as_"):
            n["type"], n["format"] = cls[len("unknown_as_"):], "bogus-value"
        elif cls == "doc:collide":
            v, a, path = label.split("|")
            img = [i for i in obj.images[v][a] if i.path == path][0]
            attr, val = _near_twin(obj, a, img)
            n[attr] = val
        elif cls == "int" and field == "date":
            n[field] = 20150522
        else:
            n[field] = DOC[cls]
    return json.dumps(doc)


# ----------------------------------------------------------------- evaluators

def _sample(case):
    fmt, shape = case["sample"].rsplit("_", 1)
    return fmt, samples.build(fmt, int(shape))


def eval_write(case):
    """C06: one corrupted slot => dumps() and dump(file) raise TypeError/ValueError and return no text."""
    if case["cls"].startswith("doc:"):
        return []
    fmt, obj = _sample(case)
    if case.get("pre"):
        validate_all(fmt, obj, case["pre"])
    corrupt_object(fmt, obj, case["node"], case["field"], case["cls"])
    what = "%s %s[%s].%s := <%s>" % (case["sample"], case["kind"], case["label"], case["field"], case["cls"])
    try:
        text = obj.dumps()
    except (TypeError, ValueError):
        return []
    except Exception as exc:
        return ["%s: dumps() raised %s (%s) instead of TypeError/ValueError" % (what, type(exc).__name__, exc)]
    return ["%s: dumps() returned %d characters of text for an object that breaks a documented constraint" % (what, len(text))]


_HISTORY = [False]


def _history():
    """Once per process, before any valid object is built: OTHER objects of every class have their containers filled in place
    (lists appended to, sets and tables added to).  Nothing of that may reach an object created afterwards."""
    if _HISTORY[0]:
        return
    _HISTORY[0] = True
    try:
        from productmd.images import Image, Images
        from productmd.treeinfo import TreeInfo
        from productmd.treeinfo import Variant as TVariant
        from productmd.composeinfo import ComposeInfo, Variant
        from productmd.discinfo import DiscInfo
        img = Image(Images())
        img.unified = True
        img.additional_variants.append("Client")
        img.checksums["md5"] = "0" * 32
        t = TreeInfo()
        t.tree.platforms.add("zzplat")
        t.images.images["zzplat"] = {"kernel": "/abs"}
        t.checksums.checksums["/abs"] = ["md5", "x"]
        tv = TVariant(t)
        tv.variants["junk"] = None
        ci = ComposeInfo()
        v = Variant(ci)
        v.arches.add("zzarch")
        v.paths.os_tree["zzarch"] = "/abs"
        v.variants["junk"] = None
        ci.variants.variants["junk"] = None
        d = DiscInfo()
        if isinstance(d.disc_numbers, list):
            d.disc_numbers.append("junk")
    except Exception:
        pass


def eval_valid(case):
    """C06 converse: an object whose fields all satisfy their rules is written."""
    fmt, shape = case["sample"].rsplit("_", 1)
    _history()
    try:
        obj = samples.build(fmt, int(shape)) if "variant" not in case else build_enum(case)
        if fmt == "images":
            # one more image described by its mandatory attributes only (everything optional left at its default)
            from productmd.images import Image
            img = Image(obj)
            img.path, img.mtime, img.size, img.volume_id, img.type, img.format, img.arch = "Server/x86_64/iso/plain.iso", 1, 1, None, "dvd", "iso", "x86_64"
            img.disc_number, img.disc_count, img.checksums, img.implant_md5, img.bootable, img.subvariant = 1, 1, {"md5": "1" * 32}, None, False, "Plain"
            obj.add(sorted(obj.images)[0], "x86_64", img)
        text = obj.dumps()
        if not text.strip():
            return ["%s: valid object written as empty text" % (case,)]
    except Exception as exc:
        return ["valid object %s refused: %s: %s" % (json.dumps(case, sort_keys=True), type(exc).__name__, exc)]
    return []


def build_enum(case):
    """Valid objects using one documented enumeration value each."""
    fmt = case["sample"].rsplit("_", 1)[0]
    k, v = case["variant"]
    if fmt == "composeinfo":
        ci = samples.composeinfo(1)
        if k == "compose_type":
            samples.set_compose(ci.compose, label="RC-1.0", final=True, ctype=v)
        elif k == "release_type":
            ci.release.type = v
        elif k == "bp_type":
            ci.base_product.type = v
        elif k == "label":
            ci.compose.label = "%s-3.14" % v
        elif k == "variant_type":
            ci["Server-HA"].type = v
            if v == "layered-product":
                r = ci["Server-HA"].release
                r.name, r.short, r.version, r.type = "Sat", "SAT", "6", "ga"
        elif k == "arch":
            for uid in ("Server", "Server-HA"):
                var = ci[uid]
                var.arches.add(v)
                var.paths.os_tree[v] = "x/%s/os" % v
        return ci
    if fmt == "images":
        m = samples.images(0)
        img = sorted(m.images["Server"]["x86_64"], key=lambda i: i.path)[0]
        if k == "image_type":
            img.type = v
        elif k == "image_format":
            img.format = v
        elif k == "arch":
            from productmd.images import Images
            m2 = Images()
            samples.set_compose(m2.compose)
            m2.add("Server", v, img)
            return m2
        return m
    if fmt == "treeinfo":
        t = samples.treeinfo(1)
        if k == "no_variants":
            t = samples.treeinfo(0)
            t.variants.variants.clear()
            return t
        if k == "variant_type":
            t["Server"]["HA"].type = v
        elif k == "arch":
            t.tree.arch = v
            t.tree.platforms = set([v, "xen", "x86_64"])
        return t
    raise KeyError(fmt)


def enum_cases():
    import productmd.common as C
    import productmd.composeinfo as CI
    import productmd.images as IM
    import productmd.treeinfo as TI
    out = []
    from . import enums as E
    for v in E.COMPOSE_TYPES:
        out.append({"sample": "composeinfo_1", "variant": ["compose_type", v]})
    for v in E.RELEASE_TYPES:
        out.append({"sample": "composeinfo_1", "variant": ["release_type", v]})
        out.append({"sample": "composeinfo_1", "variant": ["bp_type", v]})
    for v in E.LABEL_NAMES:
        out.append({"sample": "composeinfo_1", "variant": ["label", v]})
    for v in E.CI_VARIANT_TYPES:
        out.append({"sample": "composeinfo_1", "variant": ["variant_type", v]})
    for v in E.RPM_ARCHES:
        out.append({"sample": "composeinfo_1", "variant": ["arch", v]})
        if v not in ("src", "nosrc"):
            out.append({"sample": "images_0", "variant": ["arch", v]})
        out.append({"sample": "treeinfo_1", "variant": ["arch", v]})
    for v in E.SUPPORTED_IMAGE_TYPES:
        out.append({"sample": "images_0", "variant": ["image_type", v]})
    for v in E.SUPPORTED_IMAGE_FORMATS:
        out.append({"sample": "images_0", "variant": ["image_format", v]})
    for v in E.TI_VARIANT_TYPES:
        out.append({"sample": "treeinfo_1", "variant": ["variant_type", v]})
    for fmt in samples.FORMATS:
        for shape in range(samples.NSHAPES[fmt]):
            out.append({"sample": "%s_%d" % (fmt, shape)})
    out.append({"sample": "treeinfo_0", "variant": ["no_variants", True]})
    return out


def eval_load(case):
    """C07: the same slot corrupted in the document => loads() raises; documented coercions may load a valid object."""
    fmt, obj = _sample(case)
    if case["load"] == "na":
        return []
    text = obj.dumps()
    bad = corrupt_document(fmt, text, obj, case)
    if bad is None:
        return []
    what = "%s document %s[%s].%s := <%s>" % (case["sample"], case["kind"], case["label"], case["field"], case["cls"])
    if bad == text:
        raise core.MachineryError("corruption left the document unchanged: " + what)
    new = type(obj)()
    try:
        new.loads(bad)
    except Exception:
        if case["load"] == "raises":
            # refused as text: it is refused as a file and as an open file object, too (the other spellings of the reader)
            import io
            import tempfile
            fd, pth = tempfile.mkstemp(prefix="verif-c07-")
            try:
                with os.fdopen(fd, "w") as fh:
                    fh.write(bad)
                for how, src in (("load(path)", lambda: pth), ("load(file object)", lambda: io.StringIO(bad))):
                    o2 = type(obj)()
                    try:
                        o2.load(src())
                        return ["%s: rejected by loads(text) but accepted by %s" % (what, how)]
                    except Exception:
                        pass
            finally:
                os.unlink(pth)
        return _reused(obj, text, bad, what) if case["load"] == "raises" else []
    if case["load"] == "raises":
        return ["%s: loads() returned an object instead of rejecting the document" % what]
    try:
        new.dumps()
    except Exception as exc:
        return ["%s: accepted by a documented coercion, but the loaded object then fails the write constraints: %s: %s"
                % (what, type(exc).__name__, exc)]
    return []


def _del(d, key, what):
    if key not in d:
        raise core.MachineryError("cannot delete %s: not in document" % what)
    del d[key]


def eval_doc(case):
    """C07 document-level corruptions: header type swap, mangled version, deleted required key/section."""
    fmt, obj = _sample(case)
    text = obj.dumps()
    kind, arg = case["kind"], case["arg"]
    what = "%s document: %s %s %s" % (case["sample"], kind, arg, case.get("ver", ""))
    # "valid_elsewhere": the sample's own release version - valid for another field called version
    mang = {"nonnumeric": "abc", "onepart": "1", "threepart": "1.2.3", "empty": "", "null": None, "float": 1.2, "trailing_x": "1.x",
            "negative": "-1.0", "valid_elsewhere": "22", "trailing_nl": "1.2\n", "fullwidth": "\uff11.\uff12"}
    if fmt == "discinfo":
        lines = text.split("\n")
        bad = "\n".join(lines[:2]) if arg == "line3" else lines[0]
    elif fmt == "treeinfo":
        ini = Ini(text)
        if kind == "swaptype":
            ini.p.set("header", "type", arg)
            ini.p.set("header", "version", case["ver"])
        elif kind == "mangle":
            if mang[arg] is None or isinstance(mang[arg], float) or arg == "trailing_nl":
                return []           # not expressible in the file syntax (values are stripped)
            ini.p.set("header", "version", mang[arg])
        else:
            if arg == "variantsection":
                sec = [s for s in ini.p.sections() if s.startswith("variant-")][0]
                ini.p.remove_section(sec)
            elif arg.startswith("variant/"):
                sec = [s for s in ini.p.sections() if s.startswith("variant-")][0]
                ini.p.remove_option(sec, arg.split("/")[1])
            elif "/" in arg:
                sec, opt = arg.split("/")
                if not ini.p.has_section(sec):
                    return []          # optional section absent in this shape (base_product, media)
                ini.p.remove_option(sec, opt)
            else:
                if not ini.p.has_section(arg):
                    return []
                ini.p.remove_section(arg)
        bad = ini.text()
    else:
        doc = json.loads(text)
        if kind == "swaptype":
            doc["header"]["type"] = arg
            doc["header"]["version"] = case["ver"]
        elif kind == "mangle":
            doc["header"]["version"] = mang[arg]
        else:
            parts = arg.split("/")
            if parts[0] == "variant":
                uid = sorted(doc["payload"]["variants"])[0]
                _del(doc["payload"]["variants"][uid], parts[1], arg)
            elif parts[0] == "vrelease":
                hits = [u for u, v in doc["payload"]["variants"].items() if "release" in v]
                if not hits:
                    return []
                _del(doc["payload"]["variants"][hits[0]]["release"], parts[1], arg)
            elif parts[0] == "image":
                v = sorted(doc["payload"]["images"])[0]
                a = sorted(doc["payload"]["images"][v])[0]
                _del(doc["payload"]["images"][v][a][0], parts[1], arg)
            else:
                d = doc
                for p in parts[:-1]:
                    if p not in d:
                        return []
                    d = d[p]
                if parts[-1] not in d:
                    return []          # optional section absent in this shape (base_product)
                del d[parts[-1]]
        bad = json.dumps(doc)
    new = type(obj)()
    try:
        new.loads(bad)
    except Exception:
        return _reused(obj, text, bad, what)
    return ["%s: loads() returned an object instead of rejecting the document" % what]


def _reused(obj, good, bad, what):
    """The same corrupted document offered to an object that has already loaded a valid one."""
    new = type(obj)()
    try:
        new.loads(good)
    except Exception:
        return []
    try:
        new.loads(bad)
    except Exception:
        if type(obj).__name__ == "TreeInfo":
            return _reused_tree(obj, good, bad, what)
        return []
    return ["%s: rejected by a fresh object but accepted by an object that had loaded a valid document before" % what]


def _reused_tree(obj, good, bad, what):
    """A TreeInfo refuses every second file that names a variant it already holds, whatever else is wrong with it: here the
    object first reads a valid tree WITHOUT variants that lists every platform either document mentions."""
    try:
        ini = Ini(good)
        for sec in list(ini.p.sections()):
            if sec.startswith("variant-") or sec.startswith("addon-"):
                ini.p.remove_section(sec)
        ini.p.set("tree", "variants", "")
        plats = set(p for p in ini.p.get("tree", "platforms").split(",") if p)
        for text in (good, bad):
            plats |= set(sec[7:] for sec in Ini(text).p.sections() if sec.startswith("images-"))
        ini.p.set("tree", "platforms", ",".join(sorted(plats)))
        if ini.p.has_section("general"):
            ini.p.remove_option("general", "variant")
            ini.p.set("general", "variants", "")
            ini.p.set("general", "platforms", ",".join(sorted(plats)))
        prelude = ini.text()
    except Exception:
        return []
    new = type(obj)()
    try:
        new.loads(prelude)
    except Exception:
        return []
    try:
        new.loads(bad)
        return ["%s: rejected by a fresh object but accepted by an object that had read another valid tree (without variants, listing "
                "more platforms) before" % what]
    except Exception:
        pass
    # ... and an object whose first file was a pre-productmd tree (no [header]; another variant, the same architecture)
    arch = Ini(good).p.get("tree", "arch")
    legacy = ("[general]\nfamily = Fedora\ntimestamp = 1432300000.12\nversion = 22\npackagedir = Packages\nrepository = .\n"
              "variant = ZzLegacy\narch = %s\nplatforms = %s\n\n[images-%s]\nkernel = images/pxeboot/vmlinuz\n\n"
              "[stage2]\nmainimage = images/install.img\n\n[checksums]\nimages/pxeboot/vmlinuz = sha256:%s\n" % (arch, arch, arch, "a" * 64))
    new = type(obj)()
    try:
        new.loads(legacy)
    except Exception:
        return []
    try:
        new.loads(bad)
    except Exception:
        return []
    return ["%s: rejected by a fresh object but accepted by an object whose first file was a pre-productmd tree (no [header])" % what]


# ----------------------------------------------------------------- C18: real invalid values through dump(path)

def write_cases(quick=True):
    """Slot corruptions for C18: subset of the C06 table, flagged nested when only a section writer detects them."""
    out = []
    table = measured_nodes()
    picks = [("composeinfo_1", "compose", "date", "date7"), ("composeinfo_1", "ci.release", "version", "alnum"),
             ("composeinfo_1", "ci.variant", "type", "unknown"), ("composeinfo_1", "ci.childvariant", "arches", "foreign"),
             ("composeinfo_1", "ci.vrelease", "type", "unknown"), ("composeinfo_1", "ci.base_product", "version", "empty"),
             ("images_1", "img.image", "size", "zero"), ("images_1", "img.image", "implant_md5", "md5_upper"),
             ("images_1", "compose", "respin", "float"), ("rpms_0", "compose", "type", "unknown"),
             ("modules_0", "compose", "id", "nodate"), ("extra_files_1", "compose", "date", "none"),
             ("treeinfo_1", "ti.tree", "arch", "empty"), ("treeinfo_1", "ti.variant", "type", "unknown"),
             ("treeinfo_1", "ti.images", "image_paths", "absolute"), ("treeinfo_1", "ti.media", "discnum", "str"),
             ("treeinfo_1", "ti.stage2", "mainimage", "absolute"), ("treeinfo_2", "ti.base_product", "version", "alnum"),
             ("discinfo_0", "di.discinfo", "arch", "empty"), ("discinfo_0", "di.discinfo", "description", "bytes"),
             ("discinfo_1", "di.discinfo", "arch", "bytes"), ("treeinfo_1", "ti.tree", "build_timestamp", "nan"),
             ("treeinfo_0", "ti.tree", "build_timestamp", "nan")]
    for sample, kind, field, cls in picks:
        for i, n in enumerate(table[sample]):
            if kind in n["kinds"]:
                out.append({"sample": sample, "node": i + 1, "label": n["label"], "kind": kind, "field": field, "cls": cls,
                            "nested": not sample.startswith("discinfo")})
    return out


def eval_dump_path(case, disk0, tmp):
    fmt, obj = _sample(case)
    good = obj.dumps()
    corrupt_object(fmt, obj, case["node"], case["field"], case["cls"])
    path = os.path.join(tmp, "real_" + case["sample"])
    if os.path.exists(path):
        os.unlink(path)
    old = good + "\n# previous good copy\n"
    if disk0 == "Old":
        with open(path, "w") as fh:
            fh.write(old)
    what = "%s %s[%s].%s := <%s>" % (case["sample"], case["kind"], case["label"], case["field"], case["cls"])
    import pathlib
    fails = []
    if (case.get("node", 0) + len(case["cls"])) % 2:
        # the caller looked at the text first: dumps() of the invalid object is refused, then comes the dump to the path
        try:
            obj.dumps()
        except Exception:
            pass
    for form, dest in (("a path string", path), ("a pathlib.Path", pathlib.Path(path))):
        try:
            obj.dump(dest)
            return ["%s: dump(%s) wrote an invalid object" % (what, form)]
        except (TypeError, ValueError):
            pass
        except Exception as exc:
            if form == "a path string":
                return ["%s: dump(path) raised %s" % (what, type(exc).__name__)]
            # whether path-like destinations are supported at all is not the claim; what is on disk afterwards is
        now = open(path).read() if os.path.exists(path) else None
        if disk0 == "Old" and now != old:
            return ["%s: rejected dump to %s %s the previous file" % (what, form, "deleted" if now is None else "replaced (now %d bytes)" % len(now))]
        if disk0 == "Absent" and now is not None:
            return ["%s: rejected dump to %s left a new %d-byte file behind" % (what, form, len(now))]
    return fails
