def write_cases(quick=True):
    return []
def eval_dump_path(c, disk0, tmp):
    return []
