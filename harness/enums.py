"""Documented enumerations (frozen from the pinned commit 6f48ec8, where the tables in the source ARE the documentation:
doc/*.rst refers to them through autodata).  The checks take the documented value sets from here and never from the
working tree, so that a value that drops out of (or slips into) a table there is seen."""
COMPOSE_TYPES = ['test', 'ci', 'nightly', 'production', 'development']
RELEASE_TYPES = ['fast', 'ga', 'updates', 'updates-testing', 'eus', 'aus', 'els', 'tus', 'e4s']
LABEL_NAMES = ['EA', 'DevelPhaseExit', 'InternalAlpha', 'Alpha', 'InternalSnapshot', 'Beta', 'Snapshot', 'RC', 'Update', 'SecurityFix']
CI_VARIANT_TYPES = ['variant', 'optional', 'addon', 'layered-product']
TI_VARIANT_TYPES = ['variant', 'optional', 'addon']
RPM_ARCHES = ['aarch64', 'alpha', 'alphaev4', 'alphaev45', 'alphaev5', 'alphaev56', 'alphaev6', 'alphaev67', 'alphaev68', 'alphaev7', 'alphapca56',
 'amd64', 'arm64', 'armhfp', 'armv5tejl', 'armv5tel', 'armv5tl', 'armv6hl', 'armv6l', 'armv7hl', 'armv7hnl', 'armv7l', 'armv8hl', 'armv8l',
 'athlon', 'geode', 'i386', 'i486', 'i586', 'i686', 'ia32e', 'ia64', 'loongarch64', 'mips', 'mips64', 'mips64el', 'mipsel', 'ppc', 'ppc64',
 'ppc64iseries', 'ppc64le', 'ppc64p7', 'ppc64pseries', 'riscv128', 'riscv32', 'riscv64', 's390', 's390x', 'sh3', 'sh4', 'sh4a', 'sparc',
 'sparc64', 'sparc64v', 'sparcv8', 'sparcv9', 'sparcv9v', 'x86_64', 'src', 'nosrc', 'noarch']
IMAGE_TYPE_FORMAT_MAPPING = {'appx': ['appx'],
 'boot': ['iso'],
 'cd': ['iso'],
 'docker': ['tar.gz', 'tar.xz'],
 'dvd': ['iso'],
 'dvd-debuginfo': ['iso'],
 'dvd-ostree': ['iso'],
 'dvd-ostree-osbuild': ['iso'],
 'ec2': [],
 'fex': ['erofs.xz', 'erofs.gz', 'erofs', 'squashfs.xz', 'squashfs.gz', 'squashfs'],
 'kvm': [],
 'live': [],
 'live-osbuild': ['iso'],
 'liveimg-squashfs': ['liveimg.squashfs'],
 'netinst': ['iso'],
 'ociarchive': ['ociarchive'],
 'p2v': [],
 'qcow': ['qcow'],
 'qcow2': ['qcow2'],
 'raw': ['raw'],
 'raw-xz': ['raw.xz'],
 'rescue': [],
 'rhevm-ova': ['rhevm.ova'],
 'tar-gz': ['tar.gz'],
 'vagrant-hyperv': ['vagrant-hyperv.box'],
 'vagrant-libvirt': ['vagrant-libvirt.box'],
 'vagrant-virtualbox': ['vagrant-virtualbox.box'],
 'vagrant-vmware-fusion': ['vagrant-vmware-fusion.box'],
 'vdi': ['vdi'],
 'vhd-compressed': ['vhd.gz', 'vhd.xz'],
 'vmdk': ['vmdk'],
 'vpc': ['vhd'],
 'vsphere-ova': ['vsphere.ova']}
SUPPORTED_IMAGE_TYPES = sorted(IMAGE_TYPE_FORMAT_MAPPING)
SUPPORTED_IMAGE_FORMATS = sorted(set(f for fs in IMAGE_TYPE_FORMAT_MAPPING.values() for f in fs))
