"""Seeded random drivers: exercise the real library with larger key pools than TLC enumerates.
Run as `python -m harness.drivers <name> <seed> <n>` with the recorder on PYTHONPATH."""
import json
import random
import sys

import verif_recorder  # noqa: F401  (installs the wrappers)


def drive_images(rng, n):
    from productmd.images import Images, Image
    from . import images_adapter as A
    idents = [dict(A.ident_fields("I1", 0)) for _ in range(4)]
    idents[1]["subvariant"] = "KDE"
    idents[2]["disc_number"] = 2
    idents[3]["type"] = "live"
    sums = [{"sha256": c * 64} for c in "abc"]
    variants = ["Server", "Client", "Server-optional"]
    arches = ["x86_64", "i386", "ppc64le", "noarch", "src", "nosrc", "bogus"]

    def fields(i):
        f = A.image_fields("img%d" % i, "I1", "c1", 0)
        f.update(idents[i % 4])
        f["checksums"] = dict(sums[(i // 4) % 3])
        return f

    for t in range(n):
        m = Images()
        A.set_compose(m)
        pool = [A.make_image(m, fields(i)) for i in range(12)]
        for step in range(rng.randint(3, 25)):
            x = rng.random()
            try:
                if x < 0.70:
                    m.add(rng.choice(variants), rng.choice(arches[:4] if rng.random() < 0.8 else arches), rng.choice(pool))
                elif x < 0.76:
                    m.header.version = rng.choice(["1.0", "1.1", "1.2"])
                elif x < 0.88:
                    m.dumps()
                else:
                    # a document built independently of the object: collisions, src cells, old versions
                    doc = {}
                    for _ in range(rng.randint(1, 5)):
                        v = rng.choice(variants)
                        a = rng.choice(["x86_64", "i386", "src"] if rng.random() < 0.9 else arches)
                        doc.setdefault(v, {}).setdefault(a, []).append(A.image_dict(fields(rng.randrange(12))))
                    ver = rng.choice(["1.0", "1.1", "1.2"])
                    text = json.dumps({"header": {"version": ver, "type": "productmd.images"},
                                       "payload": {"compose": dict(A.COMPOSE_DOC), "images": doc}})
                    m2 = Images()
                    m2.loads(text)
                    m = m2
            except (ValueError, TypeError):
                pass


DRIVERS = {"images": drive_images}

if __name__ == "__main__":
    name, seed, n = sys.argv[1], int(sys.argv[2]), int(sys.argv[3])
    DRIVERS[name](random.Random(seed * 7919 + 13), n)
