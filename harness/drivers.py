"""Seeded random drivers: exercise the real library with larger key pools than TLC enumerates.
Run as `python -m harness.drivers <name> <seed> <n>` with the recorder on PYTHONPATH."""
import json
import random
import sys

import verif_recorder  # noqa: F401  (installs the wrappers)


def drive_images(rng, n):
    from productmd.images import Images, Image
    from . import images_adapter as A
    idents = [dict(A.ident_fields("I1", 0)) for _ in range(4)]
    idents[1]["subvariant"] = "KDE"
    idents[2]["disc_number"] = 2
    idents[3]["type"] = "live"
    sums = [{"sha256": c * 64} for c in "abc"]
    variants = ["Server", "Client", "Server-optional"]
    arches = ["x86_64", "i386", "ppc64le", "noarch", "src", "nosrc", "bogus"]

    def fields(i):
        f = A.image_fields("img%d" % i, "I1", "c1", 0)
        f.update(idents[i % 4])
        f["checksums"] = dict(sums[(i // 4) % 3])
        return f

    for t in range(n):
        m = Images()
        A.set_compose(m)
        pool = [A.make_image(m, fields(i)) for i in range(12)]
        for step in range(rng.randint(3, 25)):
            x = rng.random()
            try:
                if x < 0.70:
                    m.add(rng.choice(variants), rng.choice(arches[:4] if rng.random() < 0.8 else arches), rng.choice(pool))
                elif x < 0.76:
                    m.header.version = rng.choice(["1.0", "1.1", "1.2"])
                elif x < 0.88:
                    m.dumps()
                else:
                    # a document built independently of the object: collisions, src cells, old versions
                    doc = {}
                    for _ in range(rng.randint(1, 5)):
                        v = rng.choice(variants)
                        a = rng.choice(["x86_64", "i386", "src"] if rng.random() < 0.9 else arches)
                        doc.setdefault(v, {}).setdefault(a, []).append(A.image_dict(fields(rng.randrange(12))))
                    ver = rng.choice(["1.0", "1.1", "1.2"])
                    text = json.dumps({"header": {"version": ver, "type": "productmd.images"},
                                       "payload": {"compose": dict(A.COMPOSE_DOC), "images": doc}})
                    m2 = Images()
                    m2.loads(text)
                    m = m2
            except Exception:
                pass            # whatever the library raises is in the recorded outcome; the trace specification judges it


def drive_forest(rng, n):
    """Random forests over a larger pool than TLC enumerates: 6 ids, depth <= 3, valid and invalid adds, write/read cycles."""
    from .forest_adapter import new_ci
    from productmd.composeinfo import Variant, ComposeInfo
    ids = ["Server", "Client", "optional", "HA", "Tools", "A1"]
    arches = ["x86_64", "ppc64le", "s390x"]
    types = ["variant", "optional", "addon", "layered-product"]
    for t in range(n):
        ci = new_ci()
        filed = []

        def mk(parent):
            v = Variant(ci)
            v.id = rng.choice(ids)
            good_uid = v.id if parent is None else "%s-%s" % (parent.uid, v.id)
            r = rng.random()
            v.uid = good_uid if r < 0.8 else (good_uid + "x" if r < 0.9 else rng.choice(ids))
            v.name = "n " + v.uid
            v.type = rng.choice(types)
            pa = sorted(parent.arches) if parent is not None else arches
            k = rng.randint(1, len(pa))
            v.arches = set(rng.sample(pa, k)) if rng.random() < 0.85 else set(rng.sample(arches, rng.randint(1, 3)))
            if v.type == "layered-product":
                v.release.name, v.release.short, v.release.version, v.release.type = "L", "L", "1", "ga"
            return v
        for step in range(rng.randint(2, 14)):
            cands = [None] + [v for v in filed if v.uid.count("-") < 2]
            parent = rng.choice(cands)
            if filed and rng.random() < 0.12:
                v = rng.choice(filed)          # re-add a filed variant to its own container / below itself
                cont = ci.variants if v.parent is None else v.parent
                if rng.random() < 0.5:
                    below = [w for w in filed if w is not v and w.uid.startswith(v.uid + "-")]
                    cont = rng.choice(below) if below else cont
            else:
                v = mk(parent)
                cont = ci.variants if parent is None else parent
            try:
                cont.add(v)
                if v not in filed:
                    filed.append(v)
            except Exception:
                pass
        if rng.random() < 0.5:
            try:
                c2 = ComposeInfo()
                c2.loads(ci.dumps())
            except Exception:
                pass            # whatever the library raises is in the recorded outcome; the trace specification judges it


def drive_rpms(rng, n):
    """Random Rpms histories over larger pools than TLC enumerates: valid and invalid adds in every name spelling,
    deleting variants, writing and reading back into the same or a new object."""
    from productmd.rpms import Rpms
    names = ["bash", "glibc-common", "java-1.8.0-openjdk", "lib3ds", "389-ds-base", "a", "x+y_z"]
    evrs = ["0:4.3-1.fc22", "1:2.3-4.el7", "12:9.20~rc1-3", "0:1^git2-0.1", "7:0-0"]
    barches = ["x86_64", "noarch", "i686", "armhfp", "s390x"]
    tree_arches = ["x86_64", "ppc64le", "aarch64", "noarch", "src", "nosrc", "bogus", "X86_64", ""]
    variants = ["Server", "Client", "Server-optional", "a"]
    paths = ["Server/x86_64/os/Packages/b/pkg.rpm", "Packages/p.rpm", "p", "/abs/pkg.rpm", ""]
    sigs = [None, "f5282ee4", "F5282EE4", "AbCd0123"]
    cats = ["binary", "debug", "source", "package", ""]
    for t in range(n):
        m = Rpms()
        m.compose.id, m.compose.type, m.compose.date, m.compose.respin = "Fedora-22-20150522.0", "production", "20150522", 0
        for step in range(rng.randint(3, 30)):
            x = rng.random()
            try:
                if x < 0.78:
                    name, evr = rng.choice(names), rng.choice(evrs)
                    src = "%s-%s.%s" % (name, evr, "src" if rng.random() < 0.85 else "nosrc")
                    r = rng.random()
                    if r < 0.55:
                        sub = rng.choice(["", "-devel", "-debuginfo", "-libs"])
                        nevra, cat, srpm = "%s%s-%s.%s" % (name, sub, evr, rng.choice(barches)), ("debug" if sub == "-debuginfo" else "binary"), src
                    elif r < 0.8:
                        nevra, cat, srpm = src, "source", None
                    else:               # deliberately inconsistent
                        nevra = rng.choice([src, "%s-%s.x86_64" % (name, evr), "%s-%s.x86_64" % (name, evr.split(":")[1]), "foo:bar", "nodash"])
                        cat, srpm = rng.choice(cats), rng.choice([None, src, "junk"])
                    spell = rng.random()
                    if spell < 0.15:
                        nevra += ".rpm"
                    elif spell < 0.3:
                        nevra = "Packages/%s/%s" % (name[0], nevra)
                    elif spell < 0.4:
                        nevra = "/mnt/koji/%s.rpm" % nevra
                    if srpm and rng.random() < 0.15:
                        srpm += ".rpm"
                    arch = rng.choice(tree_arches[:4] if rng.random() < 0.8 else tree_arches)
                    m.add(rng.choice(variants), arch, nevra, rng.choice(paths[:3] if rng.random() < 0.85 else paths), rng.choice(sigs),
                          cat if rng.random() < 0.9 else rng.choice(cats), srpm)
                elif x < 0.86:
                    del m[rng.choice(variants)]
                elif x < 0.93:
                    m.loads(m.dumps())
                else:
                    m2 = Rpms()
                    m2.loads(m.dumps())
                    m = m2
            except Exception:
                pass            # whatever the library raises is in the recorded outcome; the trace specification judges it


def drive_builders(rng, n):
    """Random Modules / ExtraFiles histories over larger pools than TLC enumerates: every UID spelling, valid and invalid
    arguments, repeated adds, several categories per module, partial dumps with bases that are, are not, or only textually
    prefix the stored paths."""
    import io
    from productmd.modules import Modules
    from productmd.extra_files import ExtraFiles
    names, streams = ["httpd", "postgresql", "perl-DBI", "a", "389-ds"], ["2.4", "9.6", "rolling", "f30", "1"]
    versions, contexts = ["20180816142114", "1", "0"], ["6c81f848", "deadbeef", "x"]
    arches = ["x86_64", "ppc64le", "aarch64", "noarch", "src", "nosrc", "bogus", "X86_64", ""]
    variants = ["Server", "Client", "Server-optional", "a", ""]
    mpaths = ["Server/x86_64/os/repodata/m.yaml.gz", "repodata/m.yaml", "m", "/abs/m.yaml", ""]
    cats = ["binary", "debug", "source", "package", ""]
    rpms = ["httpd-0:2.4.6-1.x86_64", "httpd-debuginfo-0:2.4.6-1.x86_64", "httpd-0:2.4.6-1.src", "a-1:1-1.noarch"]
    files = ["Server/x86_64/os/GPL", "Server/x86_64/os/EULA", "Server/x86_64/os/docs/README", "Server/x86_64/osx/X", "GPL", "a/b//c", "/abs/GPL", ""]
    bases = ["Server/x86_64/os", "Server/x86_64/os/", "Server/x86_64", "Server/x86_64/o", "", "a", "a/b", "elsewhere", "GPL"]
    for t in range(n):
        m, x = Modules(), ExtraFiles()
        kept = None
        for step in range(rng.randint(3, 25)):
            r = rng.random()
            try:
                if r < 0.5:
                    parts = [rng.choice(names), rng.choice(streams)]
                    k = rng.random()
                    if k < 0.6:
                        parts += [rng.choice(versions), rng.choice(contexts)]
                    elif k < 0.8:
                        parts += [rng.choice(versions)]
                    uid = ":".join(parts)
                    k = rng.random()
                    if k < 0.08:
                        uid = rng.choice(["nostream", "a::b", ":a:b", "a:b:c:d:e", "a:b:"])
                    elif k < 0.2:
                        uid = "modules/" + uid
                    rl = rng.sample(rpms, rng.randint(0, 3))
                    k = rng.random()
                    rl = tuple(rl) if k < 0.2 else ("httpd" if k < 0.25 else rl)
                    if kept and rng.random() < 0.3:
                        kept.append("late-0:1-1.noarch")      # the caller goes on using a list it passed earlier: no business of the manifest
                    if isinstance(rl, list):
                        kept = rl
                    m.add(rng.choice(variants[:4] if rng.random() < 0.9 else variants), rng.choice(arches[:6] if rng.random() < 0.85 else arches),
                          uid, "module-tag" if rng.random() < 0.93 else "", rng.choice(mpaths[:3] if rng.random() < 0.85 else mpaths),
                          rng.choice(cats[:3] if rng.random() < 0.85 else cats), rl)
                elif r < 0.85:
                    cks = {"sha256": "%064x" % rng.getrandbits(64)}
                    if rng.random() < 0.4:
                        cks["md5"] = "%032x" % rng.getrandbits(64)
                    x.add(rng.choice(variants[:4] if rng.random() < 0.9 else variants), rng.choice(arches[:6] if rng.random() < 0.85 else arches),
                          rng.choice(files[:6] if rng.random() < 0.85 else files), rng.choice([0, 1, 18092, 2 ** 40]),
                          cks if rng.random() < 0.93 else ["sha256"])
                else:
                    x.dump_for_tree(io.StringIO(), rng.choice(variants[:4]), rng.choice(arches[:4]), rng.choice(bases))
            except Exception:
                pass            # whatever the library raises is in the recorded outcome; the trace specification judges it


DRIVERS = {"images": drive_images, "forest": drive_forest, "rpms": drive_rpms, "builders": drive_builders}

if __name__ == "__main__":
    name, seed, n = sys.argv[1], int(sys.argv[2]), int(sys.argv[3])
    DRIVERS[name](random.Random(seed * 7919 + 13), n)
