"""C14 Release IDs round-trip; validators accept exactly the documented names (ReleaseId.tla)."""
from . import core

SHORTS = ["a", "rhel", "my-prod", "a-1", "x-y-z", "fast", "ga"]       # short names that are type names, too
VERSIONS = ["1", "7.1", "10.0.3", "rawhide", "fast", "eus", "20150522", "Rawhide", "ELN.1", "rawhide ", " pre", "r%sc%%d%",
            "07", "7.00", "1.02.3"]          # numeric versions are text: leading zeros stay   # free-form: blanks at either end are part of the text
REPS = [{"l": "a", "U": "A", "d": "1", "-": "-", ".": ".", "@": "@", "o": "_"},
        # "other" is everything else: a line feed (which '.' and '$' of a pattern treat specially) ...
        {"l": "z", "U": "Q", "d": "0", "-": "-", ".": ".", "@": "@", "o": "\n"},
        {"l": "m", "U": "Z", "d": "9", "-": "-", ".": ".", "@": "@", "o": "/"},
        # ... and letters / digits outside ASCII (which isalpha(), islower(), \d and \w take for letters and digits)
        {"l": "q", "U": "R", "d": "5", "-": "-", ".": ".", "@": "@", "o": "\u00e9"},
        {"l": "b", "U": "B", "d": "2", "-": "-", ".": ".", "@": "@", "o": "\uff11"},
        {"l": "c", "U": "C", "d": "3", "-": "-", ".": ".", "@": "@", "o": " "}]


def chars(s):
    return list(s)


def setup(mode, n, directives):
    """-> (module, extra_files, cfg_text): RELEASE_TYPES etc. go into a generated wrapper module."""
    from . import enums as C
    mod, files, lines = core.gen_module("ReleaseId", {"KnownTypes": [chars(t) for t in C.RELEASE_TYPES],
                                                      "Shorts": set(tuple(chars(s)) for s in SHORTS),
                                                      "Versions": set(tuple(chars(v)) for v in VERSIONS)})
    cfg = core.cfg_with("ReleaseId.cfg", directives, {"Mode": mode, "N": n}) + "\n".join(lines) + "\n"
    return mod, files, cfg


def eval_word(case):
    import productmd.common as C
    fails = []
    for rep in REPS[:case.get("nrep", 2)]:
        w = "".join(rep[c] for c in case["w"])
        for pred, exp, name in ((C.is_valid_release_short, case["short"], "short"), (C.is_valid_release_version, case["version"], "version"),
                                (C.is_valid_release_type, case["short"], "type")):
            try:
                got = pred(w)
            except Exception as exc:
                fails.append("is_valid_release_%s(%r) raised %s" % (name, w, exc))
                continue
            if bool(got) != exp:
                fails.append("is_valid_release_%s(%r) = %s, documented grammar says %s" % (name, w, got, exp))
        for args, exp, what in (((w, "1", "ga"), case["short"], "short"), (("a", w, "ga"), case["version"], "version"),
                                (("a", "1", w), case["short"], "type"),
                                (("a", "1", "ga", w, "1", "ga"), case["short"] or w == "", "base-product short"),
                                (("a", "1", "ga", "b", w, "ga"), case["version"], "base-product version"),
                                (("a", "1", "ga", "b", "1", w), case["short"], "base-product type")):
            try:
                rid = C.create_release_id(*args)
                ok = True
            except ValueError:
                ok = False
            except Exception as exc:
                fails.append("create_release_id%r raised %s: %s" % (args, type(exc).__name__, exc))
                continue
            if ok != exp:
                fails.append("create_release_id%r %s although the %s predicate says %s" % (args, "accepts" if ok else "refuses", what, exp))
        if fails:
            break
    return fails


def eval_id(case):
    import productmd.common as C
    x = case["x"]
    args = [x["short"], x["version"], x["type"]]
    exp = {"short": x["short"], "version": x["version"], "type": x["type"]}
    if x["bp"]:
        args += [x["bp_short"], x["bp_version"], x["bp_type"]]
        exp.update({"bp_short": x["bp_short"], "bp_version": x["bp_version"], "bp_type": x["bp_type"]})
    try:
        rid = C.create_release_id(*args)
    except Exception as exc:
        return ["create_release_id%r raised %s: %s" % (tuple(args), type(exc).__name__, exc)]
    fails = []
    if rid != case["id"]:
        fails.append("create_release_id%r = %r, documented format gives %r" % (tuple(args), rid, case["id"]))
    try:
        got = C.parse_release_id(rid)
    except Exception as exc:
        return fails + ["parse_release_id(%r) raised %s: %s (created from %r)" % (rid, type(exc).__name__, exc, tuple(args))]
    if got != exp:
        fails.append("parse_release_id(create_release_id%r = %r) = %s" % (tuple(args), rid, got))
    if x["bp"]:
        # the same process then parses the release part alone: the result must not depend on what was parsed before
        main = rid.split("@")[0]
        exp1 = {"short": x["short"], "version": x["version"], "type": x["type"]}
        try:
            got1 = C.parse_release_id(main)
        except Exception as exc:
            return fails + ["parse_release_id(%r) raised %s after parsing %r" % (main, exc, rid)]
        if got1 != exp1 and not ("-" in x["short"] and x["type"] == "ga"):
            fails.append("parse_release_id(%r) = %s when called after parse_release_id(%r)" % (main, got1, rid))
    return fails


def run(ctx):
    from . import enums as C
    ctx.rule = ("predicates: every word of length <= 5/6 over the 7 character classes of the quantifier, labelled by the documented "
                "grammar in ReleaseId.tla, against the three real predicates and create_release_id (2/3 representatives per class); "
                "round trip: 6 shorts (3 dashed) x 7 versions (numeric, dotted, free-form, equal to a type name) x every known type "
                "x (no base product | 75 base products). non-trivial = distinct word / id tuple")
    ctx.assumptions += ["the nine known release types are the documented table (harness/enums.py), handed to the spec as a constant"]
    words = []
    n = 5 if ctx.quick else 6
    mod, files, cfg = setup("words", n, ["CONSTRAINT Emit"])
    ctx.require_ok(ctx.tlc(mod, cfg_text=cfg, extra_files=files, on_emit=words.append, constants={"Mode": "words", "N": n}))
    for w in words:
        w["nrep"] = 4 if ctx.quick else 6
    ids = []
    mode = "ids1" if ctx.quick else "ids"
    mod, files, cfg = setup(mode, 0, ["CONSTRAINT Emit", "INVARIANT ImplPrediction"])
    ctx.require_ok(ctx.tlc(mod, cfg_text=cfg, extra_files=files, on_emit=ids.append, constants={"Mode": mode}))
    if ctx.quick:
        # base products: a sample of the product (thorough enumerates all of it)
        import random
        rng = random.Random(ctx.seed)
        bps = [(s, v, t) for s in SHORTS[:4] + ["ga"] for v in VERSIONS[:4] + [x for x in VERSIONS if "%" in x or x[0] == "0"] for t in C.RELEASE_TYPES]
        extra = []
        for c in ids:
            for b in rng.sample(bps, 3):
                x = dict(c["x"])
                x.update({"bp": True, "bp_short": b[0], "bp_version": b[1], "bp_type": b[2]})
                bid = "%s-%s" % (b[0], b[1]) + ("" if b[2] == "ga" else "-" + b[2])
                extra.append({"x": x, "id": c["id"] + "@" + bid, "impl_ok": None})
        ids += extra
    # design-level refutation: the ID format is not injective for dashed shorts (own config, expected counterexample)
    mod, files, cfg = setup("inj", 0, ["INVARIANT Injective"])
    r = ctx.tlc(mod, cfg_text=cfg, extra_files=files, expect_error=True, count=False)
    if r.violated != "Injective":
        raise core.MachineryError("expected TLC to refute Injective on the dashed-short domain, got %s" % r.violated)
    ctx.notes["design_refutation"] = "Create is not injective on the stated domain: " + " ".join(r.trace[0][1])[:400]
    ctx.exhaustive = True
    ctx.evaluate(eval_word, words, label="word", chunk=2000)
    ctx.evaluate(eval_id, ids, label="id", chunk=2000)


def replay(info):
    return eval_word(info["case"]) if info["kind"] == "word" else eval_id(info["case"])
