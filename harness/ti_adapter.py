"""Binding between TreeInfoDoc.tla emissions and the real TreeInfo / DiscInfo classes (C04, C17, C05, C08)."""
import configparser
import io
import json
import zlib

KINDS7 = ["packages", "repository", "source_packages", "source_repository", "debug_packages", "debug_repository", "identity"]
TEXT = [  # value classes of the quantifier (single-line, no leading/trailing blanks)
    {"relname": "Fedora", "relshort": "F", "relver": "22", "bpname": "Red Hat Enterprise Linux", "bpshort": "RHEL", "bpver": "7", "vname": "Pretty %s"},
    {"relname": "My  Prodüct; v=2: #beta [x]", "relshort": "MY;P", "relver": "rawhide", "bpname": "b = c", "bpshort": "B:1", "bpver": "10.0.3",
     "vname": "Ünï %s # ; = :"},
    {"relname": "UPPER lower", "relshort": "Up", "relver": "7.1", "bpname": "\"quoted\"", "bpshort": "'q'", "bpver": "snapshot", "vname": "[%s]"},
    # short name equal to the name (Fedora / Fedora), for the release and for the base product
    {"relname": "Fedora", "relshort": "Fedora", "relver": "40", "bpname": "CentOS", "bpshort": "CentOS", "bpver": "9", "vname": "%s"},
    # a name that ends with the text of its version
    {"relname": "Project 2020", "relshort": "P", "relver": "20", "bpname": "Stream Rawhide", "bpshort": "S", "bpver": "Rawhide", "vname": "%s 20"},
]
PCT = {"relname": "100%% pure %(arch)s", "relshort": "P%", "relver": "22", "bpname": "b%", "bpshort": "B", "bpver": "7", "vname": "%s %%"}
IDS = [{"A": "Server", "B": "Client", "S": "Server", "o": "optional", "T": "Tools", "h": "HighAvailability", "g": "Extras"},
       {"A": "a", "B": "B9", "S": "Z", "o": "optional", "T": "t", "h": "H", "g": "0"},
       # a top-level variant and a child below another one share their id (HA next to Server-HA): UIDs stay distinct
       {"A": "Server", "B": "HA", "S": "S", "o": "optional", "T": "T", "h": "HA", "g": "HA"},
       # ... and the child's UID sorts BEFORE the top-level variant of that id (Base-Server < Server)
       {"A": "Base", "B": "Server", "S": "S", "o": "optional", "T": "T", "h": "Server", "g": "Server"},
       # names ending in numbers of different lengths: "alphabetically first" is plain text order (Layer10 < Layer9)
       {"A": "Layer9", "B": "Layer10", "S": "Layer", "o": "optional", "T": "2", "h": "H10", "g": "H9"}]
ARCHS = [("x86_64", "xen", "lpae"), ("ppc64le", "p8", "b"), ("aarch64", "X", "y"), ("i386", "xen-pv", "xen"), ("armhfp", "omap", "tegra"),
         ("ppc", "ppc64", "ppc64le"), ("nosrc", "a", "b")]                      # the tree arch is a substring of its other platforms   # a platform name may contain dashes
IMG = {"boot": "images/boot.iso", "kernel": "images/pxeboot/vmlinuz", "xenkernel": "images/pxeboot/vmlinuz-xen", "initrd": "images/Initrd.IMG",
       "stage2": "LiveOS/squashfs.img", "inst": "images/install.img"}


class Conc(object):
    def __init__(self, rot, pct=False):
        self.rot = rot
        self.text = dict(PCT if pct else TEXT[rot % len(TEXT)])
        self.ids = IDS[(rot // 3) % len(IDS)]
        self.binarch, self.p1, self.p2 = ARCHS[(rot // 2) % len(ARCHS)]
        self.kind = {"k1": KINDS7[(rot * 3) % 7], "k2": KINDS7[(rot * 3 + 1) % 7], "k3": KINDS7[(rot * 3 + 2) % 7]}

    def uid(self, u):
        if u == "S-T":
            return "%s-%s" % (self.ids["S"], self.ids["T"])
        return "-".join(self.ids[t] for t in u.split("-"))

    def vid(self, u):
        if u == "S-T":
            return self.ids["S"] + self.ids["T"]
        return self.ids[u.split("-")[-1]]

    def path(self, u, k):
        # paths are free text, written and shown verbatim: legal spellings that are not normalised rotate in
        base = "%s/%s dir" % (self.uid(u), self.kind.get(k, k))
        if self.rot % 7 == 5 and k in ("packages", "repository"):
            return ""               # the blank path: the top directory itself (what "packagedir =" meant before productmd)
        if self.rot % 7 == 3 and k in ("packages", "repository", "source_packages", "source_repository"):
            return "."              # the documented spelling of the same place (doc/treeinfo-1.x.rst: "repository = .")
        return [base, base + "/", "./" + base, base.replace("/", "//", 1), "x/../" + base][self.rot % 5]


MEDIA = [(2, 3), (1, 1), (0, 0), (12, 12)]
# float time stamps (value, its text in [tree], its integer part in [general]): also ones Python prints in exponent notation
FLOATS = [(1432300000.75, "1432300000.75", "1432300000"), (1e16, "1e+16", "10000000000000000"), (1.2345678901234568e+17, "1.2345678901234568e+17", "123456789012345680")]


def ini_parse(text):
    cp = configparser.RawConfigParser()
    cp.optionxform = str
    cp.read_string(text)
    return {s: dict(cp.items(s)) for s in cp.sections()}


def build(obj, conc, foreign_owner=False):
    """foreign_owner: the Variant objects are constructed against ANOTHER TreeInfo (of the other arch kind) and then
    added to this one - e.g. compose variants built once and reused for the binary and the source tree."""
    from productmd.treeinfo import TreeInfo, Variant
    sec = obj["sec"]
    t = TreeInfo()
    owner = t
    if foreign_owner:
        owner = TreeInfo()
        owner.tree.arch = "src" if sec["arch"] == "bin" else conc.binarch
    tx = conc.text
    t.release.name, t.release.short, t.release.version = tx["relname"], tx["relshort"], tx["relver"]
    if sec["layered"]:
        t.release.is_layered = True
        t.base_product.name, t.base_product.short, t.base_product.version = tx["bpname"], tx["bpshort"], tx["bpver"]
    arch = conc.binarch if sec["arch"] == "bin" else "src"
    t.tree.arch = arch
    t.tree.build_timestamp = {"int": 1432300000, "float": FLOATS[(conc.rot // 3) % len(FLOATS)][0], "neg": -86400 if conc.rot % 2 else -1}[sec["ts"]]
    pl = {"p1": conc.p1, "p2": conc.p2}
    # the writer always lists the tree arch among the platforms; only image tables need it listed explicitly
    t.tree.platforms = set(pl[p] for p in sec["plats"]) | (set([arch]) if sec["imgs"] != "none" else set())

    def mk(u, vtype):
        v = Variant(owner)
        v.id, v.uid, v.name, v.type = conc.vid(u), conc.uid(u), tx["vname"] % conc.uid(u), vtype
        return v
    for u in sorted(obj["tops"]):
        v = mk(u, "optional" if u == "S-o" else "variant")
        for k in obj["paths"][u]:
            setattr(v.paths, conc.kind[k], conc.path(u, k))
        for k in obj["pkgs"][u]:
            setattr(v.paths, k, conc.path(u, k))
        if obj["keyby"] == "uid":
            t.variants.add(v, variant_id=v.uid)
        else:
            t.variants.add(v)
        kt = obj["kidtype"][u]
        if kt == "pair":
            # two children of different kinds: the optional variant is attached first, the addon second
            o = mk(u + "-o", "optional")
            o.paths.packages = conc.path(u + "-o", "packages")
            v.add(o)
            kt = "addon"
        if kt != "none":
            c = mk(u + "-h", kt)
            c.paths.packages = conc.path(u + "-h", "packages")
            v.add(c)
            if obj["kid2"][u]:
                g = mk(u + "-h-g", "addon")
                g.paths.repository = conc.path(u + "-h-g", "repository")
                c.add(g)
    if sec["imgs"] != "none":
        t.images.images[arch] = {"boot.iso": IMG["boot"], "Kernel": IMG["kernel"]}
        if sec["imgs"] == "two":
            t.images.images[conc.p1] = {"kernel": IMG["xenkernel"], "initrd.IMG": IMG["initrd"]}
        if sec["imgs"] == "emptyp1":
            t.images.images[conc.p1] = {}
    if sec["stage2"] != "none":
        t.stage2.mainimage = IMG["stage2"]
        if sec["stage2"] == "both":
            t.stage2.instimage = IMG["inst"]
    if sec["media"]:
        t.media.discnum, t.media.totaldiscs = MEDIA[conc.rot % len(MEDIA)]
    if sec["cks"]:
        t.checksums.add(IMG["boot"], "sha256", "a" * 64)
        t.checksums.add("Repo/repomd.XML", "md5", "b" * 32)
        if conc.rot % 3 == 1:
            # entries an older file brought along verbatim: legal spellings that are not normalised
            t.checksums.checksums["./images//efiboot.img"] = ["sha1", "c" * 40]
            t.checksums.checksums["EFI/BOOT/../grub.cfg"] = ["sha256", "d" * 64]
    return t


def render(x, conc, obj):
    sec = obj["sec"]
    arch = conc.binarch if sec["arch"] == "bin" else "src"

    def tok(s):
        if s == "$arch":
            return arch
        if s in ("p1", "p2"):
            return {"p1": conc.p1, "p2": conc.p2}[s]
        if s.startswith("$path:"):
            _, u, k = s.split(":")
            return conc.path(u, k)
        if s.startswith("$name:"):
            return conc.text["vname"] % conc.uid(s[6:])
        if s.startswith("$img:"):
            return IMG[s[5:]]
        if s.startswith("$cks:"):
            return {"sha256": "sha256:" + "a" * 64, "md5": "md5:" + "b" * 32}[s[5:]]
        if s == "$current":
            import productmd.common
            return ".".join(str(i) for i in productmd.common.VERSION)
        if s == "$ts":
            return {"int": "1432300000", "float": FLOATS[(conc.rot // 3) % len(FLOATS)][1], "neg": "-86400" if conc.rot % 2 else "-1"}[sec["ts"]]
        if s in ("$discnum", "$totaldiscs"):
            return str(MEDIA[conc.rot % len(MEDIA)][s == "$totaldiscs"])
        if s == "$tsint":
            if sec["ts"] == "float":
                return FLOATS[(conc.rot // 3) % len(FLOATS)][2]
            return ("-86400" if conc.rot % 2 else "-1") if sec["ts"] == "neg" else "1432300000"
        if s == "$relname $relver":
            return "%s %s" % (conc.text["relname"], conc.text["relver"])
        if s.startswith("$"):
            return conc.text[s[1:]]
        return s
    if isinstance(x, dict):
        if set(x) == {"csv"}:
            return ",".join(sorted(keyname(v, conc, tok) for v in x["csv"]))
        if set(x) == {"first"}:
            return min(keyname(v, conc, tok) for v in x["first"])
        out = {}
        for k, v in x.items():
            out[secname(k, conc, tok)] = render(v, conc, obj)
        return out
    if isinstance(x, list):
        return {} if x == [] else [render(v, conc, obj) for v in x]
    if isinstance(x, str):
        r = tok(x)
        if r == x and not x.startswith("$"):
            return keyname(x, conc, tok)
        return r
    return x


def keyname(v, conc, tok):
    """ids / uids / platform tokens appearing as values or list members."""
    if v in ("A", "B", "S-o", "S-T") or (isinstance(v, str) and v.split("-")[0] in ("A", "B", "S") and all(t in conc.ids for t in v.split("-"))):
        return conc.uid(v)
    if v in ("o", "h", "g"):
        return conc.ids[v]
    if v == "ST":
        return conc.vid("S-T")
    return tok(v)


def secname(k, conc, tok):
    for pre in ("variant-", "addon-"):
        if k.startswith(pre):
            return pre + conc.uid(k[len(pre):])
    if k.startswith("images-"):
        return "images-" + tok(k[7:])
    if k.startswith("$img:"):
        return tok(k)
    if k in conc.kind:
        return conc.kind[k]
    return k


def contains(exp, got, path=""):
    for k, v in exp.items():
        if k not in got:
            return "%s/%s missing" % (path, k)
        if isinstance(v, dict):
            r = contains(v, got[k], path + "/" + k)
            if r:
                return r
        elif got[k] != v:
            return "%s/%s: expected %r got %r" % (path, k, v, got[k])
    return None


def main_arg(obj, conc):
    if obj["main"] == "default":
        return None
    return conc.uid(obj["main"]) if obj["keyby"] == "uid" else conc.vid(obj["main"])


def general_expect(obj, conc):
    """packagedir / repository of [general] as the C17 statement defines them."""
    keys = {(conc.uid(t) if obj["keyby"] == "uid" else conc.vid(t)): t for t in obj["tops"]}
    mk = main_arg(obj, conc) or min(keys)
    t = keys[mk]
    have = set(obj["pkgs"][t]) | set(conc.kind[k] for k in obj["paths"][t])
    src = obj["sec"]["arch"] == "src"
    out = {}
    for opt, a, b in (("packagedir", "packages", "source_packages"), ("repository", "repository", "source_repository")):
        if a in have:
            out[opt] = conc.path(t, a) if a in obj["pkgs"][t] else conc.path(t, [k for k in obj["paths"][t] if conc.kind[k] == a][0])
        elif src and b in have:
            out[opt] = conc.path(t, b) if b in obj["pkgs"][t] else conc.path(t, [k for k in obj["paths"][t] if conc.kind[k] == b][0])
        else:
            out[opt] = None
    return out


def check_general(what, case, obj, conc, got):
    fails = []
    exp = render(case["doc"], conc, obj)
    g = got.get("general")
    if g is None:
        return ["%s: no [general] section written" % what]
    eg = dict(exp["general"])
    keys = {(conc.uid(t) if obj["keyby"] == "uid" else conc.vid(t)): t for t in obj["tops"]}
    eg["variant"] = main_arg(obj, conc) or min(keys)
    eg.update({k: v for k, v in general_expect(obj, conc).items()})
    for k, v in eg.items():
        if v is None:
            if k in g:
                fails.append("%s: [general] %s = %r although the main variant has no such path" % (what, k, g[k]))
        elif g.get(k) != v:
            fails.append("%s: [general] %s = %r, authoritative sections say %r" % (what, k, g.get(k), v))
    if g.get("family") != got.get("release", {}).get("name") or g.get("version") != got.get("release", {}).get("version"):
        fails.append("%s: [general] family/version do not mirror [release]" % what)
    if g.get("arch") != got.get("tree", {}).get("arch") or g.get("platforms") != got.get("tree", {}).get("platforms"):
        fails.append("%s: [general] arch/platforms do not mirror [tree]" % what)
    return fails


def evaluate(case):
    from productmd.treeinfo import TreeInfo
    conc = Conc(case.get("rot", 0), case.get("pct", False))
    obj = case["obj"]
    focus = case.get("focus", "C04")
    what = "tree %s rot=%d%s" % (json.dumps({k: obj[k] for k in ("tops", "kidtype", "kid2", "keyby", "paths", "pkgs", "sec", "main")}, sort_keys=True),
                                conc.rot, " pct" if case.get("pct") else "")
    mv = main_arg(obj, conc)
    try:
        t = build(obj, conc, foreign_owner=bool(case.get("foreign_owner")))
        f = io.StringIO()
        t.dump(f, main_variant=mv)
        text = f.getvalue()
    except Exception as exc:
        return ["%s: valid tree refused: %s: %s" % (what, type(exc).__name__, exc)] if focus == "C04" else []
    got = ini_parse(text)
    exp = render(case["doc"], conc, obj)
    fails = []
    if focus == "C17":
        fails = check_general(what, case, obj, conc, got)
        # the same object written again with every other choice of main variant (and none): [general] follows the call
        for other in ["default"] + sorted(obj["tops"]):
            if other == obj["main"] or fails:
                continue
            o2 = dict(obj, main=other)
            try:
                f = io.StringIO()
                t.dump(f, main_variant=main_arg(o2, conc))
            except Exception as exc:
                fails.append("%s: second dump with main variant %r raised %s: %s" % (what, other, type(exc).__name__, exc))
                continue
            c2 = dict(case, obj=o2)
            fails += check_general("%s then dumped again with main=%s" % (what, other), c2, o2, conc, ini_parse(f.getvalue()))
        if not fails:
            # the same through ONE real path: the file at the destination follows the latest call (the main variant is an argument
            # of the call, not part of the tree), whether it is given by keyword or by position
            import os
            import shutil
            import tempfile
            d = tempfile.mkdtemp(prefix="verif-c17-")
            try:
                pth = os.path.join(d, ".treeinfo")
                t.dump(pth, main_variant=mv)
                fails += check_general("%s written to a path" % what, case, obj, conc, ini_parse(open(pth).read()))
                for n_o, other in enumerate(["default"] + sorted(obj["tops"])):
                    if other == obj["main"] or fails:
                        continue
                    o2 = dict(obj, main=other)
                    arg = main_arg(o2, conc)
                    try:
                        if (conc.rot + n_o) % 2:
                            t.dump(pth, arg)
                        else:
                            t.dump(pth, main_variant=arg)
                    except Exception as exc:
                        fails.append("%s: dump to the same path with main variant %r raised %s: %s" % (what, other, type(exc).__name__, exc))
                        continue
                    fails += check_general("%s then dumped to the same path with main=%s (%s)" % (what, other, "by position" if (conc.rot + n_o) % 2 else "by keyword"),
                                           dict(case, obj=o2), o2, conc, ini_parse(open(pth).read()))
            finally:
                shutil.rmtree(d, ignore_errors=True)
        return fails[:5]
    exp_ng = {k: v for k, v in exp.items() if k != "general"}
    why = contains(exp_ng, got)
    if why:
        fails.append("%s: written file differs from the documented layout: %s" % (what, why))
    extra = [s for s in got if s not in exp and not s.startswith("general")]
    if extra:
        fails.append("%s: unexpected sections written: %s" % (what, extra))
    t2 = TreeInfo()
    try:
        t2.loads(text)
    except Exception as exc:
        return fails + ["%s: written file cannot be read back: %s: %s" % (what, type(exc).__name__, exc)]
    fails += ["%s: %s" % (what, x) for x in compare_trees(t, t2)]
    try:
        f2 = io.StringIO()
        t2.dump(f2, main_variant=mv)
        if f2.getvalue() != text:
            a, b = ini_parse(text), ini_parse(f2.getvalue())
            diff = [(s, o, a.get(s, {}).get(o), b.get(s, {}).get(o)) for s in sorted(set(a) | set(b))
                    for o in sorted(set(a.get(s, {})) | set(b.get(s, {}))) if a.get(s, {}).get(o) != b.get(s, {}).get(o)]
            where = sorted(set("%s/%s" % (x[0], x[1]) for x in diff))
            fails.append("%s: writing the re-read tree does not reproduce the file byte for byte; differs in <%s>: %s"
                         % (what, ",".join(where), diff[:3]))
    except Exception as exc:
        fails.append("%s: re-read tree cannot be written: %s: %s" % (what, type(exc).__name__, exc))
    if not fails and zlib.crc32(text.encode("utf-8", "replace")) % 2 == 0:
        # the same file through real paths: fresh, over a longer previous file, into an open file object
        from . import core
        fails += core.file_cycle(t, text, what, ".treeinfo", dump_kw={"main_variant": mv})
    if not fails and len(obj["tops"]) > 1 and obj["main"] == "default":
        # the object is written once with an explicit main variant (the last one); a default dump afterwards is the first file again
        try:
            t.dump(io.StringIO(), main_variant=main_arg(dict(obj, main=sorted(obj["tops"])[-1]), conc))
            again = io.StringIO()
            t.dump(again)
            if again.getvalue() != text:
                fails.append("%s: after one dump with an explicit main variant, a plain dump of the same object differs from its first plain dump" % what)
        except Exception as exc:
            fails.append("%s: dump with an explicit main variant, then a plain dump: %s: %s" % (what, type(exc).__name__, exc))
    if not fails:
        # the object that was just written, and the re-read one, get one more platform with an image table - added IN PLACE to
        # the public set and table - and are written again: the file must say so and must be readable
        for label, tt in (("written", t), ("re-read", t2)):
            try:
                tt.tree.platforms.add("zzplat")
                tt.images.images["zzplat"] = {"kernel": "images/zz/vmlinuz"}
                f3 = io.StringIO()
                tt.dump(f3, main_variant=mv)
                g3 = ini_parse(f3.getvalue())
                for sec_, opt in (("tree", "platforms"), ("general", "platforms")):
                    if "zzplat" not in g3.get(sec_, {}).get(opt, "").split(","):
                        fails.append("%s: a platform added in place to the %s object after a dump is missing from [%s] %s = %r of the next dump"
                                     % (what, label, sec_, opt, g3.get(sec_, {}).get(opt)))
                if "images-zzplat" not in g3:
                    fails.append("%s: an image table added to the %s object after a dump is missing from the next dump" % (what, label))
                t5 = TreeInfo()
                t5.loads(f3.getvalue())
            except Exception as exc:
                fails.append("%s: %s object edited in place (one more platform with images) and written again: %s: %s"
                             % (what, label, type(exc).__name__, exc))
            if fails:
                break
    return fails[:6]


def flat_variants(t):
    out = {}

    def walk(cont, parent):
        for k, v in cont.variants.items():
            out[v.uid] = (v, parent, k)
            walk(v, v.uid)
    walk(t.variants, None)
    return out


def compare_trees(a, b):
    fails = []
    for sec, attrs in (("release", ("name", "short", "version", "is_layered")), ("tree", ("arch", "build_timestamp", "platforms")),
                       ("stage2", ("mainimage", "instimage")), ("media", ("discnum", "totaldiscs"))):
        for at in attrs:
            x, y = getattr(getattr(a, sec), at, "<missing>"), getattr(getattr(b, sec), at, "<missing>")
            if at == "build_timestamp":
                x = int(x)
            if at == "platforms":
                x = set(x) | set([a.tree.arch])
            if x != y:
                fails.append("%s.%s: wrote %r, read %r" % (sec, at, x, y))
    if a.release.is_layered:
        for at in ("name", "short", "version"):
            if getattr(a.base_product, at) != getattr(b.base_product, at):
                fails.append("base_product.%s: wrote %r, read %r" % (at, getattr(a.base_product, at), getattr(b.base_product, at)))
    va, vb = flat_variants(a), flat_variants(b)
    if sorted(va) != sorted(vb):
        fails.append("variants: wrote %s, read %s" % (sorted(va), sorted(vb)))
    for uid in va:
        if uid not in vb:
            continue
        (x, px, kx), (y, py, ky) = va[uid], vb[uid]
        for at in ("id", "uid", "name", "type"):
            if getattr(x, at) != getattr(y, at):
                fails.append("variant %s.%s: wrote %r, read %r" % (uid, at, getattr(x, at), getattr(y, at)))
        if px != py:
            fails.append("variant %s parent: wrote %r, read %r" % (uid, px, py))
        for k in KINDS7:
            if getattr(x.paths, k, "<missing>") != getattr(y.paths, k, "<missing>"):
                fails.append("variant %s paths.%s: wrote %r, read %r" % (uid, k, getattr(x.paths, k, None), getattr(y.paths, k, "<missing>")))
    if a.images.images != b.images.images:
        fails.append("image tables: wrote %r, read %r" % (a.images.images, b.images.images))
    ca = {k: tuple(v) for k, v in a.checksums.checksums.items()}
    cb = {k: tuple(v) for k, v in b.checksums.checksums.items()}
    if ca != cb:
        fails.append("checksums: wrote %r, read %r" % (ca, cb))
    return fails


# ------------------------------------------------------------------ discinfo

TS = {"intfloat": 1432300000.0, "fraction": 1386856788.124593, "huge": 1e22, "negative": -1.5, "tiny": 1e-07}
DESC = {"plain": "Fedora 22", "innerquote": "Fedora \"22\" it's", "blanks": "Red  Hat   Enterprise Linux 7.1", "unicode": "Fédora ünï 22",
        # a quote at one end only is not "wrapped in quotes"; characters some text APIs take for line ends are not line ends of the file syntax
        "endquote": "Fedora \"21\"", "startquote": "'Twas Fedora 21", "separators": "Fedora 20\x0cServer\x1c\x85 \u2028x",
        # a quote at either end, but not a pair: nothing wraps the text
        "mixedquotes": "\"Fedora\" 20 'Heisenbug'",
        # characters that begin a comment or a section in OTHER file syntaxes: a .discinfo is four plain lines
        "hash": "#1 Fedora 22", "semicolon": "; Fedora [22]"}
DISCS = {"ALL": ["ALL"], "one": [1], "three": [1, 2, 3], "unsorted": [3, 1, 12]}


def eval_disc(case):
    from productmd.discinfo import DiscInfo
    from . import enums as C
    d = case["disc"]
    rot = case.get("rot", 0)
    di = DiscInfo()
    di.timestamp, di.description, di.disc_numbers = TS[d["ts"]], DESC[d["desc"]], list(DISCS[d["discs"]])
    di.arch = C.RPM_ARCHES[rot % len(C.RPM_ARCHES)]
    what = "discinfo %s" % json.dumps(d, sort_keys=True)
    try:
        text = di.dumps()
    except Exception as exc:
        return ["%s: valid discinfo refused: %s: %s" % (what, type(exc).__name__, exc)]
    lines = text.split("\n")
    fails = []
    if len(lines) != 4 or float(lines[0]) != di.timestamp or lines[1] != di.description or lines[2] != di.arch:
        fails.append("%s: written lines %r" % (what, lines))
    expd = "ALL" if di.disc_numbers == ["ALL"] else ",".join(str(i) for i in di.disc_numbers)
    if len(lines) == 4 and lines[3] != expd:
        fails.append("%s: disc numbers line %r, expected %r" % (what, lines[3], expd))
    d2 = DiscInfo()
    try:
        d2.loads(text)
    except Exception as exc:
        return fails + ["%s: written file cannot be read back: %s: %s" % (what, type(exc).__name__, exc)]
    for at in ("timestamp", "description", "arch", "disc_numbers"):
        if getattr(d2, at) != getattr(di, at):
            fails.append("%s: %s wrote %r, read %r" % (what, at, getattr(di, at), getattr(d2, at)))
    if d2.dumps() != text:
        fails.append("%s: re-written file differs" % what)
    if not fails:
        from . import core

        def reload(src):
            o = DiscInfo()
            o.load(src)
            return o.dumps()
        fails += core.file_cycle(di, text, what, ".discinfo", reload=reload)
    # a loaded object is edited in place (its disc number list is its own) and written; a later load elsewhere is unaffected
    if not fails:
        try:
            d3 = DiscInfo()
            d3.loads(text)
            del d3.disc_numbers[:]
            d3.disc_numbers.extend([4, 2])
            if d3.dumps().split("\n")[3:] != ["4,2"]:
                fails.append("%s: loaded, disc numbers edited in place to [4, 2], written as %r" % (what, d3.dumps().split("\n")[3:]))
            d4 = DiscInfo()
            d4.loads(text)
            if d4.disc_numbers != di.disc_numbers:
                fails.append("%s: after another object's disc numbers were edited in place, loading the same file gives %r" % (what, d4.disc_numbers))
        except Exception as exc:
            fails.append("%s: loaded, disc numbers edited in place to [4, 2], then written / loaded again: %s: %s" % (what, type(exc).__name__, exc))
    # the same object then reads ANOTHER file: nothing of the first may survive
    for other_discs, other_desc in ((["ALL"], "Other"), ([7, 8], "Other")):
        o = DiscInfo()
        o.timestamp, o.description, o.arch, o.disc_numbers = 1500000000.5, other_desc, di.arch, list(other_discs)
        try:
            t2 = o.dumps()
        except Exception as exc:
            fails.append("%s: afterwards a fresh valid discinfo (%r) is refused: %s: %s" % (what, other_discs, type(exc).__name__, exc))
            break
        for tx in (t2, "\n".join(t2.split("\n")[:3])):          # also without the optional fourth line (= ALL)
            if tx != t2 and other_discs != ["ALL"]:
                continue
            fresh = DiscInfo()
            fresh.loads(tx)
            d2.loads(tx)
            if (d2.timestamp, d2.description, d2.arch, d2.disc_numbers) != (fresh.timestamp, fresh.description, fresh.arch, fresh.disc_numbers):
                fails.append("%s: object reused to read another file keeps state of the first: %r vs fresh %r"
                             % (what, (d2.timestamp, d2.description, d2.arch, d2.disc_numbers),
                                (fresh.timestamp, fresh.description, fresh.arch, fresh.disc_numbers)))
    return fails


def eval_legacy_view(case):
    """C17: a pre-productmd reader given only the compatibility sections sees the same tree.
    The [general] section (plus images/stage2/checksums, which keep their legacy names) of the real output is fed to the real
    legacy (0.0) reader; hack-free names only (rot % 3 == 0 uses plain text values)."""
    from productmd.treeinfo import TreeInfo
    conc = Conc(case.get("rot", 0))
    obj = case["obj"]
    what = "tree %s rot=%d" % (json.dumps({k: obj[k] for k in ("tops", "kidtype", "keyby", "paths", "pkgs", "sec", "main")}, sort_keys=True), conc.rot)
    mv = main_arg(obj, conc)
    try:
        t = build(obj, conc)
        f = io.StringIO()
        t.dump(f, main_variant=mv)
    except Exception:
        return []
    if "-" in (mv or min(conc.uid(u) for u in obj["tops"])):
        return []         # a dashed main variant is outside what the heuristic pre-productmd reader can represent
    secs = ini_parse(f.getvalue())
    keep = {s: o for s, o in secs.items() if s == "general" or s.startswith("images-") or s in ("stage2", "checksums")}
    text = ""
    for s in sorted(keep):
        text += "[%s]\n" % s
        for o, v in sorted(keep[s].items()):
            if o.startswith(";"):
                continue
            text += "%s = %s\n" % (o, v)
    old = TreeInfo()
    try:
        old.loads(text)
    except Exception as exc:
        return ["%s: the compatibility sections alone are rejected by the legacy reader: %s: %s" % (what, type(exc).__name__, exc)]
    fails = []
    if old.tree.arch != t.tree.arch:
        fails.append("%s: legacy view arch %r, tree arch %r" % (what, old.tree.arch, t.tree.arch))
    if not (set(t.tree.platforms) | set([t.tree.arch])) <= set(old.tree.platforms) | set([old.tree.arch]) and False:
        fails.append("%s: legacy view platforms %r" % (what, old.tree.platforms))
    if old.tree.build_timestamp != int(t.tree.build_timestamp):
        fails.append("%s: legacy view timestamp %r, tree %r" % (what, old.tree.build_timestamp, t.tree.build_timestamp))
    if not t.release.name.startswith(old.release.name) and old.release.name != t.release.name:
        fails.append("%s: legacy view family %r, release name %r" % (what, old.release.name, t.release.name))
    if old.release.version != t.release.version:
        fails.append("%s: legacy view version %r, release version %r" % (what, old.release.version, t.release.version))
    exp_main = mv or min(conc.uid(u) for u in obj["tops"])
    if sorted(old.variants.variants) != [exp_main]:
        fails.append("%s: legacy view main variant %r, expected %r" % (what, sorted(old.variants.variants), exp_main))
    if old.images.images != t.images.images:
        fails.append("%s: legacy view image tables differ" % what)
    return fails
