"""C12 Manifest builders file each entry exactly where the arguments say."""
from . import core, rpms_adapter as R, builders_adapter as B


def rpms_cases(ctx, focus):
    cases = []

    def gen(mode, depth, wide=False, simulate=None):
        out = []
        consts = {"Mode": mode, "D": depth, "Wide": wide}
        if simulate:
            cfg = core.cfg_with("RpmsGen.cfg", ["CONSTRAINT EmitLast"], consts)
            ctx.tlc("RpmsGen", cfg_text=cfg, constants=consts, on_emit=out.append, mode="simulate", sim_num=simulate,
                    sim_depth=depth + 1, seed=ctx.seed + 1)
        else:
            cfg = core.cfg_with("RpmsGen.cfg", ["CONSTRAINT Emit"], consts)
            ctx.require_ok(ctx.tlc("RpmsGen", cfg_text=cfg, constants=consts, on_emit=out.append, timeout=1200))
        return out
    if focus in ("C12", "C03"):
        cases += gen("edit", 4 if ctx.quick else 5)
    if focus == "C12":
        cases += gen("matrix", 1, wide=not ctx.quick)
        cases += gen("hist", 2 if ctx.quick else 3)
        cases += gen("hist", 7, simulate=60 if ctx.quick else 1500)
    elif focus == "C03":
        cases += gen("hist", 2 if ctx.quick else 3)
        cases += gen("hist", 7, simulate=60 if ctx.quick else 1500)
    elif focus == "C10":
        cases += gen("load03", 2)
        cases += [c for c in gen("matrix", 1) if c["hist"] and c["hist"][0]["a"] not in ("bin1", "bin2")
                  and c["hist"][0]["path"] == "rel1" and c["hist"][0]["form"] == "canon"]
    seen, uniq = set(), []
    for c in cases:
        k = core._digest(c["hist"])
        if k not in seen:
            seen.add(k)
            uniq.append(c)
    n = len(R.NAMESETS) * len(R.ARCHSETS)
    for i, c in enumerate(uniq):
        c["rot"] = (i + ctx.seed) % n
        c["focus"] = focus
    return uniq


def run(ctx):
    ctx.rule = ("Rpms.add: full argument-class matrix (arch x rpm x name form x path x sigkey x category x srpm x srpm form) "
                "in one call, all histories of valid/near-valid adds to depth 2/3, random depth-7 behaviours from tlc "
                "-simulate; Modules.add / ExtraFiles.add / dump_for_tree likewise from BuildersGen.tla; every behaviour "
                "replayed on the real classes comparing exception class and the whole mapping after each call; recorded Rpms executions "
                "(repository tests + seeded random driver: name spellings, deletions, reloads) validated by TLC against Trace_Rpms.tla; "
                "recorded Modules.add / ExtraFiles.add / dump_for_tree executions (tests + driver: every UID spelling, tuples, caller-kept "
                "lists, bases that only textually prefix) against Trace_Builders.tla with the four action properties. "
                "non-trivial = distinct history")
    ctx.assumptions += ["argument classes are represented by 2 name tables x 3 arch tables, rotated"]
    cases = rpms_cases(ctx, "C12")
    ctx.exhaustive = True
    ctx.evaluate(R.replay, cases, label="rpms-history", key=lambda c: core._digest([c["hist"], c["rot"]]))
    B.run_builders(ctx, "C12")
    # code -> spec: recorded executions (the repository's tests, a seeded random driver with larger pools) against Trace_Rpms.tla
    from . import rpms_traces
    rpms_traces.validate(ctx)
    # ... and the Modules / ExtraFiles executions against Trace_Builders.tla (full snapshots: linear search)
    from . import builders_traces
    builders_traces.validate(ctx)


def replay(info):
    if info["kind"] == "rpms-history":
        return R.replay(info["case"])
    if info["kind"] == "rpms-trace":
        from . import rpms_traces
        return rpms_traces.replay(info)
    if info["kind"] == "builders-trace":
        from . import builders_traces
        return builders_traces.replay(info)
    return B.replay(info)
