"""C09/C10 code -> spec: recorded Images traces validated against Trace_Images.tla."""
import json

from . import core, traces as T


def _prep(trs):
    out = []
    for t in trs:
        evs = []
        for e in t["events"]:
            evs.append(e)
            if e["op"] == "load" and e["out"] != "ok":
                break           # a rejected load leaves no usable object
        out.append({"tid": t["tid"], "events": evs})
    return out


def _arches():
    from . import enums
    return list(enums.RPM_ARCHES)


def validate(ctx, sources=None):
    n_driver = 150 if ctx.quick else 1500
    batches = [("testsuite", T.record_testsuite().get("images", []), {})]
    batches.append(("driver", T.run_driver("images", ctx.seed, n_driver).get("images", []), {"seed": ctx.seed, "n": n_driver}))
    total = 0
    for source, trs, meta in batches:
        trs = _prep(trs)
        if not trs:
            raise core.MachineryError("no recorded Images traces from %s" % source)
        verdicts = T.validate_batch(ctx, "Trace_Images", "Trace_Images.cfg", trs, extra={"arches": _arches()})
        by_tid = {t["tid"]: t for t in trs}
        inv = verdicts.pop("__invariant__", None)
        if inv:
            t = trs[inv[2] - 1] if inv[2] else None
            ctx.fail({"source": source, "meta": meta, "trace": t, "tlc": inv[3]},
                     "recorded execution reaches a state violating %s" % inv[1], "trace")
            continue
        for tid, (v, at) in verdicts.items():
            total += 1
            if v == "REJECT":
                t = by_tid[tid]
                nxt = t["events"][at - 1] if 0 < at <= len(t["events"]) else None
                ctx.fail({"source": source, "meta": meta, "trace": t, "rejected_at": at, "event": nxt},
                         "recorded execution is not a behaviour of ImagesManifest: event %d %s"
                         % (at, json.dumps(nxt)[:400]), "trace")
        ctx.sample({"kind": "trace", "source": source, "trace": trs[0]["events"][:4]}, limit=8)
        ctx.notes["traces_%s" % source] = len(trs)
        ctx.notes["trace_events_%s" % source] = sum(len(t["events"]) for t in trs)
    ctx.traces += total
    ctx.evaluations += total
    ctx.distinct_count += total


def replay(info):
    """Re-record from the same source and re-validate."""
    ctx = core.Ctx(info["property"], "quick", info["case"].get("meta", {}).get("seed", 0))
    src = info["case"]["source"]
    if src == "testsuite":
        trs = T.record_testsuite().get("images", [])
    else:
        m = info["case"]["meta"]
        trs = T.run_driver("images", m["seed"], m["n"]).get("images", [])
    trs = _prep(trs)
    verdicts = T.validate_batch(ctx, "Trace_Images", "Trace_Images.cfg", trs, extra={"arches": _arches()})
    fails = []
    inv = verdicts.pop("__invariant__", None)
    if inv:
        fails.append("recorded execution reaches a state violating %s" % inv[1])
    for tid, (v, at) in verdicts.items():
        if v == "REJECT":
            fails.append("trace %s rejected at event %d" % (tid, at))
    return fails
