"""Core of the verification harness: TLC runner, evidence, findings, replay files.

Everything here is technique plumbing; the property logic lives in harness/cNN.py
and the specifications in spec/*.tla.
"""
import collections
import hashlib
import json
import multiprocessing
import os
import re
import shutil
import subprocess
import sys
import tempfile
import time

VERIF = os.path.dirname(os.path.dirname(os.path.abspath(__file__)))
REPO = os.environ.get("VERIF_REPO", "/repo")
SPEC_DIR = os.path.join(VERIF, "spec")
OUT = os.environ.get("VERIF_OUT", VERIF)      # evidence/ and replays/ (redirected by ./selftest)
PY = sys.executable
NCPU = min(16, os.cpu_count() or 4)


class MachineryError(Exception):
    """The verification machinery itself failed (exit 2, never a VIOLATION)."""


# --------------------------------------------------------------------------- TLC

class TLCResult(object):
    def __init__(self):
        self.generated = 0      # states generated (= transitions taken + initial)
        self.distinct = 0
        self.diameter = 0
        self.ok = False         # finished without error
        self.violated = None    # name of violated invariant / property
        self.error = None       # other error text
        self.trace = []         # error trace: list of (action label, state text)
        self.coverage = {}      # action name -> (distinct, taken)
        self.emitted = 0
        self.log = []
        self.wall = 0.0
        self.module = None
        self.cfg = None
        self.constants = None

    def summary(self):
        return {"module": self.module, "config": self.cfg, "generated": self.generated,
                "distinct": self.distinct, "diameter": self.diameter, "ok": self.ok,
                "violated": self.violated, "emitted": self.emitted,
                "coverage": {k: list(v) for k, v in sorted(self.coverage.items())},
                "wall_s": round(self.wall, 2), "constants": self.constants}


_RE_STATS = re.compile(r"^(\d+) states generated, (\d+) distinct states found")
_RE_DEPTH = re.compile(r"^The depth of the complete state graph search is (\d+)")
_RE_COV = re.compile(r"^<([\w!]+) line \d+, col \d+ to line \d+, col \d+ of module (\w+)(?: \([\d ]+\))?>: (\d+):(\d+)")
_RE_COV_INIT = re.compile(r"^<(\w+) line \d+, col \d+ to line \d+, col \d+ of module (\w+)>: (\d+)$")
_RE_INV = re.compile(r"^Error: Invariant (\S+) is violated")
_RE_PROP = re.compile(r"^Error: Action property (\S+) is violated|^Error: Temporal properties were violated")
_RE_STATE = re.compile(r"^State (\d+): <(.*)>$")


def render_cfg(base_lines, constants):
    """cfg text: base directives + literal CONSTANTS."""
    out = list(base_lines)
    if constants:
        out.append("CONSTANTS")
        for k, v in constants.items():
            out.append(" %s = %s" % (k, tla_value(v)))
    return "\n".join(out) + "\n"


def cfg_with(base, directives=(), constants=None):
    """cfg text from spec/<base> + extra directive lines (placed first) + extra literal constants."""
    with open(os.path.join(SPEC_DIR, base)) as fh:
        text = fh.read().rstrip("\n")
    if "CONSTANTS" not in text:
        text += "\nCONSTANTS"
    out = "\n".join(directives) + "\n" + text + "\n"
    for k, v in (constants or {}).items():
        out += " %s = %s\n" % (k, tla_value(v))
    return out


def gen_module(base, defs):
    """Generated wrapper module carrying literal constants that a cfg file cannot express (tuples,
    functions): returns (module name, {file: text}, cfg constant lines)."""
    name = "Gen_" + base
    body = ["---- MODULE %s ----" % name, "EXTENDS %s" % base]
    lines = []
    for k, v in defs.items():
        body.append("GenConst_%s == %s" % (k, tla_value(v)))
        lines.append(" %s <- GenConst_%s" % (k, k))
    body.append("====")
    return name, {name + ".tla": "\n".join(body) + "\n"}, lines


def tla_value(v):
    """Python value -> TLA+ literal (cfg-safe subset: ints, bools, strings, sets, tuples)."""
    if isinstance(v, bool):
        return "TRUE" if v else "FALSE"
    if isinstance(v, int):
        return str(v)
    if isinstance(v, str):
        return '"%s"' % v.replace("\\", "\\\\").replace('"', '\\"')
    if isinstance(v, (set, frozenset)):
        return "{" + ", ".join(sorted(tla_value(x) for x in v)) + "}"
    if isinstance(v, (list, tuple)):
        return "<<" + ", ".join(tla_value(x) for x in v) + ">>"
    if isinstance(v, dict):
        if not v:
            return "<<>>"
        return "(" + " @@ ".join("%s :> %s" % (tla_value(k), tla_value(x)) for k, x in v.items()) + ")"
    if isinstance(v, ModelValue):
        return v.name
    raise TypeError(v)


class ModelValue(object):
    def __init__(self, name):
        self.name = name


def run_tlc(module, cfg=None, cfg_text=None, mode="check", workers=None, sim_num=None, sim_depth=None,
            env=None, timeout=600, coverage=True, on_emit=None, extra_files=None, seed=None,
            constants=None, dfs=False, expect_error=False, emit_prefix='"@@', on_line=None):
    """Run TLC on spec/<module>.tla with a config; stream-parse its output.

    cfg: name of a file in spec/ ; cfg_text: literal config (overrides cfg).
    on_emit(obj): called for every `PrintT("@@" \\o ToJson(..))` line.
    extra_files: {name: text} generated modules / data files placed next to the spec copy.
    """
    res = TLCResult()
    res.module, res.cfg, res.constants = module, (cfg or "<generated>"), constants
    work = tempfile.mkdtemp(prefix="verif-tlc-")
    try:
        for f in os.listdir(SPEC_DIR):
            if f.endswith(".tla") or f.endswith(".json"):
                os.symlink(os.path.join(SPEC_DIR, f), os.path.join(work, f))
        for name, text in (extra_files or {}).items():
            p = os.path.join(work, name)
            if os.path.islink(p):
                os.unlink(p)
            with open(p, "w") as fh:
                fh.write(text)
        if cfg_text is None:
            with open(os.path.join(SPEC_DIR, cfg)) as fh:
                cfg_text = fh.read()
            if constants:
                cfg_text = render_cfg(cfg_text.splitlines(), constants)
        cfg_path = os.path.join(work, "run.cfg")
        with open(cfg_path, "w") as fh:
            fh.write(cfg_text)
        if workers is None:
            workers = 1 if on_emit else NCPU
        os.makedirs(os.path.join(work, "jtmp"))
        cmd = ["java", "-XX:+UseParallelGC", "-Xmx6g", "-Djava.io.tmpdir=" + os.path.join(work, "jtmp")]
        if dfs:
            cmd.append("-Dtlc2.tool.queue.IStateQueue=StateDeque")
        cmd += ["-cp", "/opt/veriftools/tla/tla2tools.jar:/opt/veriftools/tla/CommunityModules-deps.jar",
                "tlc2.TLC", "-workers", str(workers), "-metadir", os.path.join(work, "meta"),
                "-noGenerateSpecTE", "-config", cfg_path]
        if mode == "simulate":
            spec = "num=%d" % sim_num
            cmd += ["-simulate", spec, "-depth", str(sim_depth)]
            if seed is not None:
                cmd += ["-seed", str(seed)]
        elif coverage:
            cmd += ["-coverage", "1"]
        cmd.append(module + ".tla")
        penv = dict(os.environ)
        penv.update(env or {})
        t0 = time.time()
        proc = subprocess.Popen(cmd, cwd=work, env=penv, stdout=subprocess.PIPE, stderr=subprocess.STDOUT,
                                text=True, bufsize=1 << 16)
        deadline = t0 + timeout
        cur_state = None
        in_trace = False
        try:
            for line in proc.stdout:
                if line.startswith(emit_prefix):
                    res.emitted += 1
                    if on_emit is not None:
                        try:
                            on_emit(json.loads(json.loads(line)[2:]))
                        except ValueError:
                            raise MachineryError("garbled emission line from TLC: %r" % line[:200])
                    continue
                line = line.rstrip("\n")
                if on_line is not None:
                    on_line(line)
                if len(res.log) < 4000:
                    res.log.append(line)
                m = _RE_STATS.match(line)
                if m:
                    res.generated, res.distinct = int(m.group(1)), int(m.group(2))
                    continue
                m = _RE_DEPTH.match(line)
                if m:
                    res.diameter = int(m.group(1))
                    continue
                m = _RE_COV.match(line)
                if m and not line.startswith("  "):
                    name = m.group(1)
                    d, t = int(m.group(3)), int(m.group(4))
                    od, ot = res.coverage.get(name, (0, 0))
                    res.coverage[name] = (od + d, ot + t)
                    continue
                m = _RE_INV.match(line)
                if m:
                    res.violated = m.group(1)
                    in_trace = True
                    if "by the initial state" in line:
                        cur_state = ["Initial predicate", []]
                        res.trace.append(cur_state)
                    continue
                m = _RE_PROP.match(line)
                if m:
                    res.violated = m.group(1) or "temporal"
                    in_trace = True
                    continue
                if line.startswith("Model checking completed. No error has been found."):
                    res.ok = True
                    continue
                if line.startswith("Error:") and res.violated is None and res.error is None:
                    res.error = line
                    in_trace = True
                    continue
                m = _RE_STATE.match(line)
                if m and in_trace:
                    cur_state = [m.group(2), []]
                    res.trace.append(cur_state)
                    continue
                if in_trace and cur_state is not None:
                    if line.strip() == "":
                        cur_state = None
                    else:
                        cur_state[1].append(line)
                if time.time() > deadline:
                    raise MachineryError("TLC timeout after %ds on %s" % (timeout, module))
            proc.wait(timeout=max(1, deadline - time.time()))
        finally:
            if proc.poll() is None:
                proc.kill()
                proc.wait()
        res.wall = time.time() - t0
        if mode == "simulate" and res.violated is None and res.error is None:
            res.ok = True
        if not res.ok and res.violated is None and res.error is None:
            res.error = "TLC ended without verdict (rc=%s)" % proc.returncode
        if not expect_error and (res.error is not None):
            raise MachineryError("TLC error on %s: %s\n%s" % (module, res.error, "\n".join(res.log[-40:])))
        return res
    finally:
        shutil.rmtree(work, ignore_errors=True)


# --------------------------------------------------------------------------- parallel evaluation

_EVAL_FN = None


def _eval_chunk(chunk):
    out = []
    for case in chunk:
        try:
            fails = _EVAL_FN(case)
        except MachineryError:
            raise
        except Exception as exc:  # evaluator bug: machinery error, not a verdict
            import traceback
            raise MachineryError("evaluator crashed on case %s: %s\n%s"
                                 % (json.dumps(case, default=str)[:500], exc, traceback.format_exc()))
        if fails:
            out.append((case, fails))
    return len(chunk), out


def pmap_eval(fn, cases, chunk=200, procs=None):
    """Evaluate fn(case) -> list of failure strings (empty = ok) over all cases in parallel.
    Returns (n_evaluated, [(case, fails)])."""
    global _EVAL_FN
    _EVAL_FN = fn
    cases = list(cases)
    chunks = [cases[i:i + chunk] for i in range(0, len(cases), chunk)]
    n, bad = 0, []
    procs = procs or NCPU
    if len(chunks) <= 1 or procs == 1:
        for c in chunks:
            k, o = _eval_chunk(c)
            n += k
            bad.extend(o)
        return n, bad
    ctx = multiprocessing.get_context("fork")
    with ctx.Pool(procs) as pool:
        for k, o in pool.imap_unordered(_eval_chunk, chunks):
            n += k
            bad.extend(o)
    return n, bad


# --------------------------------------------------------------------------- findings

def load_findings():
    path = os.path.join(VERIF, "known_findings.json")
    with open(path) as fh:
        return json.load(fh)["findings"]


# --------------------------------------------------------------------------- check context

class Ctx(object):
    def __init__(self, prop, tier, seed, level="model_checking"):
        self.prop, self.tier, self.seed, self.level = prop, tier, seed, level
        self.t0 = time.time()
        self.tlc_runs = []
        self.states = 0
        self.transitions = 0
        self.traces = 0          # behaviours replayed into / recorded from the implementation
        self.evaluations = 0
        self.distinct = set()
        self.distinct_count = 0
        self.samples = []
        self.violations = []     # (case, why, replay path)
        self.known_hits = collections.Counter()
        self.known_example = {}
        self.notes = {}
        self.assumptions = []
        self.rule = ""
        self.exhaustive = False
        self.model_drift = []
        self.quick = (tier == "quick")
        from . import findings as F
        self._sig = F.SIGNATURES
        self._known = [f for f in load_findings() if f["property"] == prop and f["status"] == "known"]

    # -- TLC
    def tlc(self, module, cfg=None, **kw):
        must_cover = kw.pop("must_cover", None)
        count = kw.pop("count", True)
        r = run_tlc(module, cfg, **kw)
        self.tlc_runs.append(r.summary())
        if count:
            self.states += r.distinct
            self.transitions += max(r.generated - 1, 0) if kw.get("mode") != "simulate" else r.generated
        if must_cover:
            for a in must_cover:
                if r.coverage.get(a, (0, 0))[1] == 0:
                    raise MachineryError("vacuity: action %s of %s never taken (coverage %s)"
                                         % (a, module, r.coverage))
        return r

    def require_ok(self, r):
        if not r.ok:
            raise MachineryError("reference model %s/%s failed: violated=%s error=%s\n%s"
                                 % (r.module, r.cfg, r.violated, r.error,
                                    "\n".join("%s\n  %s" % (a, "\n  ".join(s)) for a, s in r.trace[-6:])))
        return r

    def require_violated(self, r, inv):
        """As-shipped deviation config: the counterexample is non-vacuity evidence."""
        if r.violated != inv:
            raise MachineryError("deviation config %s/%s should violate %s, got violated=%s ok=%s"
                                 % (r.module, r.cfg, inv, r.violated, r.ok))
        return r

    # -- cases
    def sample(self, case, limit=4):
        if len(self.samples) < limit:
            self.samples.append(case)

    def evaluate(self, fn, cases, label=None, traces=True, key=None, chunk=200, procs=None):
        """Run evaluator over cases in parallel; route failures through fail()."""
        cases = list(cases)
        for c in cases[:2]:
            self.sample(c if label is None else {"kind": label, "case": c}, limit=6)
        n, bad = pmap_eval(fn, cases, chunk=chunk, procs=procs)
        self.evaluations += n
        if traces:
            self.traces += n
        for c in cases:
            self.distinct.add(key(c) if key else _digest(c))
        for case, fails in bad:
            for why in fails:
                self.fail(case, why, label)
        return n, bad

    def fail(self, case, why, label=None):
        info = {"property": self.prop, "kind": label, "case": case, "why": why}
        for f in self._known:
            pred = self._sig.get(f["signature"]["kind"])
            if pred is None:
                raise MachineryError("unknown signature kind %s" % f["signature"]["kind"])
            try:
                hit = pred(info, f["signature"])
            except Exception:
                hit = False
            if hit:
                self.known_hits[f["id"]] += 1
                self.known_example.setdefault(f["id"], info)
                return
        path = self.write_replay(info) if len(self.violations) < 25 else self.violations[-1][1]
        self.violations.append((info, path))

    def write_replay(self, info):
        d = os.path.join(OUT, "replays", self.prop)
        os.makedirs(d, exist_ok=True)
        blob = json.dumps(info, sort_keys=True, default=str)
        path = os.path.join(d, hashlib.sha1(blob.encode()).hexdigest()[:16] + ".json")
        with open(path, "w") as fh:
            json.dump(info, fh, indent=1, sort_keys=True, default=str)
        return path

    # -- finish
    def finish(self):
        wall = time.time() - self.t0
        dn = len(self.distinct) + self.distinct_count
        cov = {
            "states": self.states, "transitions": self.transitions,
            "traces_validated_against_impl": self.traces,
            "evaluations": self.evaluations, "distinct_nontrivial": dn,
            "rule": self.rule, "samples": self.samples[:8] or ["(no case generated)"],
            "exhaustive": bool(self.exhaustive),
            "tlc": self.tlc_runs,
            "known_findings_hit": dict(self.known_hits),
            "model_drift": self.model_drift[:5],
            "notes": self.notes,
            "repo_head": _git_head(),
        }
        ev = {"property_id": self.prop, "tier": self.tier, "seed": self.seed, "level": self.level,
              "coverage": cov, "assumptions": self.assumptions, "wall_s": round(wall, 2),
              "violations": len(self.violations)}
        edir = os.path.join(OUT, "evidence", "growth") if self.prop.startswith("G") else os.path.join(OUT, "evidence")
        os.makedirs(edir, exist_ok=True)
        with open(os.path.join(edir, self.prop + ".json"), "w") as fh:
            json.dump(ev, fh, indent=1, sort_keys=True, default=str)
        for fid, n in sorted(self.known_hits.items()):
            f = [x for x in self._known if x["id"] == fid][0]
            print("KNOWN-FINDING: property=%s %s %s (%d cases this run)" % (self.prop, fid, f["what"], n))
        seen = set()
        for info, path in self.violations:
            if len(seen) < 12:
                print("VIOLATION property=%s replay=%s" % (self.prop, path))
                print("   why: %s" % (info["why"][:300],))
            seen.add(path)
        if self.violations:
            with open(os.path.join(OUT, "replays", self.prop, "_all.txt"), "w") as fh:
                for info, path in self.violations[:20000]:
                    fh.write(info["why"].replace("\n", " ")[:600] + "\n")
        if len(self.violations) > 12:
            print("   ... %d violating cases in total" % len(self.violations))
        print("%s %s: states=%d transitions=%d impl_traces=%d evaluations=%d distinct=%d violations=%d known=%s wall=%.1fs"
              % (self.prop, self.tier, self.states, self.transitions, self.traces, self.evaluations, dn,
                 len(self.violations), dict(self.known_hits), wall))
        return 1 if self.violations else 0


def _digest(c):
    return hashlib.sha1(json.dumps(c, sort_keys=True, default=str).encode()).hexdigest()


def _git_head():
    try:
        h = subprocess.run(["git", "-C", REPO, "rev-parse", "--short", "HEAD"], capture_output=True, text=True).stdout.strip()
        d = subprocess.run(["git", "-C", REPO, "status", "--porcelain", "--untracked-files=no"], capture_output=True, text=True).stdout.strip()
        return h + ("+dirty" if d else "")
    except Exception:
        return "unknown"


def import_repo():
    """Make `import productmd` resolve to the working tree under test."""
    if REPO not in sys.path:
        sys.path.insert(0, REPO)
    sys.dont_write_bytecode = True
    import productmd  # noqa
    p = os.path.dirname(os.path.abspath(productmd.__file__))
    if not p.startswith(os.path.abspath(REPO)):
        raise MachineryError("productmd imported from %s, not from %s" % (p, REPO))
    return productmd


def canonical_json(d):
    return json.dumps(d, indent=4, sort_keys=True, separators=(",", ": "))


def dict_cycle(obj, text, what):
    """The same cycle through the dict spelling of the API (JSON formats): deserialize(parsed document) - twice from ONE parsed
    document, which stays what the caller parsed - and serialize(dict): into an empty dict and over a dict that already holds
    the previous document (what a caller does who updates a parsed file in place)."""
    import copy
    fails = []
    cls = type(obj)
    doc = json.loads(text)
    snap = copy.deepcopy(doc)
    for n in ("first", "second"):
        o = cls()
        try:
            o.deserialize(doc)
            back = o.dumps()
        except Exception as exc:
            fails.append("%s: %s deserialize() of one parsed document: %s: %s" % (what, n, type(exc).__name__, exc))
            break
        if doc != snap:
            fails.append("%s: deserialize() changed the caller's parsed document" % what)
            break
        if back != text:
            fails.append("%s: %s deserialize() of one parsed document is re-written differently from the file" % (what, n))
            break
    for how, out in (("an empty dict", {}), ("a dict holding the previous document", copy.deepcopy(snap))):
        try:
            obj.serialize(out)
        except Exception as exc:
            fails.append("%s: serialize() into %s: %s: %s" % (what, how, type(exc).__name__, exc))
            continue
        try:
            t = canonical_json(out)
        except Exception as exc:
            fails.append("%s: serialize() into %s left something json cannot write: %s" % (what, how, exc))
            continue
        if t != text:
            fails.append("%s: serialize() into %s gives a document that differs from dumps()" % (what, how))
    return fails


def file_cycle(obj, text, what, name="manifest.json", dump_kw=None, reload=None):
    """The write/read cycle through real files: dump(path) onto a fresh path, onto a path that already holds a LONGER file
    (the new file must replace it, not overlay it), and into an open file object; each time the bytes on disk must equal
    dumps() and, when `reload` is given (a callable path -> text of the re-read object), reading the file back reproduces it."""
    import shutil
    import tempfile
    fails = []
    kw = dump_kw or {}
    d = tempfile.mkdtemp(prefix="verif-file-")
    try:
        p = os.path.join(d, name)
        for step in ("fresh path", "path holding a longer file", "open file object"):
            if step == "path holding a longer file":
                with open(p, "w") as fh:
                    fh.write(text + "\n" + text[: max(40, len(text) // 3)] + "\n# trailing remainder of the previous, longer file\n")
            try:
                if step == "open file object":
                    with open(p, "w") as fh:
                        obj.dump(fh, **kw)
                else:
                    obj.dump(p, **kw)
            except Exception as exc:
                fails.append("%s: dump to %s raised %s: %s" % (what, step, type(exc).__name__, exc))
                continue
            with open(p) as fh:
                on_disk = fh.read()
            if on_disk != text:
                fails.append("%s: dump to %s left %d bytes on disk that differ from dumps() (%d bytes)" % (what, step, len(on_disk), len(text)))
                continue
            if reload is not None:
                try:
                    back = reload(p)
                except Exception as exc:
                    fails.append("%s: file written to %s cannot be read back: %s: %s" % (what, step, type(exc).__name__, exc))
                    continue
                if back != text:
                    fails.append("%s: file written to %s reads back differently" % (what, step))
        if reload is not None and not fails and text.lstrip().startswith("{"):
            # JSON read from file objects that yield bytes (a file opened "rb", an archive member, an in-memory buffer)
            import io
            for how, mk in (("a file opened in binary mode", lambda: open(p, "rb")), ("io.BytesIO", lambda: io.BytesIO(text.encode("utf-8")))):
                try:
                    with mk() as fh:
                        back = reload(fh)
                    if back != text:
                        fails.append("%s: read from %s: reads back differently" % (what, how))
                except Exception as exc:
                    fails.append("%s: read from %s: %s: %s" % (what, how, type(exc).__name__, exc))
        if reload is not None and not fails:
            # written and read through ONE open file object (load() finds the beginning itself, as it does for a path)
            try:
                with open(p, "w+") as fh:
                    obj.dump(fh, **kw)
                    back = reload(fh)
                if back != text:
                    fails.append("%s: written and read back through the same open file object: reads back differently" % what)
            except Exception as exc:
                fails.append("%s: written and read back through the same open file object: %s: %s" % (what, type(exc).__name__, exc))
    finally:
        shutil.rmtree(d, ignore_errors=True)
    return fails
