"""C01 Composeinfo survives a write/read cycle unchanged (ComposeInfoDoc.tla)."""
from . import core, ci_adapter as A


def gen(ctx, slices=("forest", "arches", "paths", "sections")):
    cases = []
    for sl in slices:
        out = []
        consts = {"Slice": sl, "MaxNodes": 4 if (ctx.quick or ctx.prop != "C01") else 6}
        r = ctx.tlc("ComposeInfoDoc", cfg_text=core.cfg_with("ComposeInfoDoc.cfg", [], consts), on_emit=out.append,
                    constants=consts, timeout=1800)
        ctx.require_ok(r)
        for c in out:
            c["slice"] = sl
        cases += out
    return cases


def run(ctx):
    ctx.rule = ("TLC enumerates compose descriptions from ComposeInfoDoc.tla in four slices (forest shape x variant types incl. "
                "layered-product and a dashed top-level UID; shape x arch sets; path tables incl. empty and foreign-arch values over 3 "
                "rotating categories of the 14; sections: 9 release types x layered x internal x base-product type x 5 compose types x "
                "respin classes x 10 labels/none x final) together with the documented document; each is built through the public API, "
                "written, compared with the spec's document by an independent JSON reader, read back and compared field by field with "
                "the input (documented normalisations applied), and re-written byte for byte. non-trivial = distinct (description, concretisation)")
    cases = gen(ctx)
    nrot = 1 if ctx.quick else 6
    allc = []
    for i, c in enumerate(cases):
        for k in range(nrot):
            d = dict(c)
            d["rot"] = (i + ctx.seed + k * 5) % 18
            d["viafile"] = (i % 97 == 0 and k == 0)
            d["uptype"] = (i % 4 == 1)
            allc.append(d)
    ctx.exhaustive = True
    ctx.evaluate(A.evaluate, allc, label="compose", chunk=100, key=lambda c: core._digest([c["obj"], c["rot"]]))


def replay(info):
    return A.evaluate(info["case"])
