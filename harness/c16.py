"""C16 Checksums recorded in metadata are the true digests of the right files (ChunkedDigest.tla, Checksums.tla)."""
import builtins
import hashlib
import json
import os
import shutil
import tempfile

from . import core, samples, traces as T


# ------------------------------------------------------------------ (a) chunked read loop: code -> spec

class _File(object):
    def __init__(self, fo, log):
        self.fo, self.log = fo, log

    def read(self, n=-1):
        data = self.fo.read(n)
        self.log.append({"op": "read", "req": n, "got": len(data)})
        return data

    def __enter__(self):
        return self

    def __exit__(self, *a):
        self.fo.close()

    def __getattr__(self, k):
        return getattr(self.fo, k)


class _Hash(object):
    def __init__(self, h, log):
        self.h, self.log = h, log

    def update(self, data):
        self.log.append({"op": "update", "n": len(data)})
        return self.h.update(data)

    def __getattr__(self, k):
        return getattr(self.h, k)


def record_compute(path, alg):
    """Run the real compute_checksum with open()/hashlib.new() observed."""
    import productmd.treeinfo as TI
    log = []
    real_open, real_new = builtins.open, hashlib.new

    def vopen(p, mode="r", *a, **kw):
        fo = real_open(p, mode, *a, **kw)
        return _File(fo, log) if p == path else fo

    def vnew(name, *a, **kw):
        return _Hash(real_new(name, *a, **kw), log)
    builtins.open, hashlib.new = vopen, vnew
    try:
        digest = TI.compute_checksum(path, alg)
    finally:
        builtins.open, hashlib.new = real_open, real_new
    return digest, log


def chunk_part(ctx, tmp):
    ctx.require_ok(ctx.tlc("ChunkedDigest", "ChunkedDigest.cfg", must_cover=["Read", "Update"]))
    K = 1 << 20
    sizes = [0, 1, K - 1, K, K + 1, 2 * K, 3 * K + 5]
    main_algs = ["md5", "sha1", "sha256", "sha512"]
    algs = sorted(hashlib.algorithms_available)         # every algorithm hashlib offers by name (quick: two sizes for the rarer ones)
    files = {}
    for n in sizes:
        p = os.path.join(tmp, "blob%d" % n)
        with open(p, "wb") as fh:
            block = bytes(bytearray((i * 131 + n) % 251 for i in range(4099)))
            fh.write((block * (n // len(block) + 1))[:n])
        files[n] = p
    trs = []
    for alg in algs:
        try:
            hashlib.new(alg).hexdigest()
        except TypeError:
            continue                       # extendable-output functions need a length: no digest exists, out of claim
        except ValueError:
            continue
        for n, p in files.items():
            if ctx.quick and alg not in main_algs and n not in (1, K + 1):
                continue
            try:
                digest, log = record_compute(p, alg)
            except Exception as exc:
                ctx.fail({"alg": alg, "size": n}, "compute_checksum(%d bytes, %s) raised %s: %s" % (n, alg, type(exc).__name__, exc), "digest")
                continue
            with open(p, "rb") as fh:
                want = hashlib.new(alg, fh.read()).hexdigest()
            if digest != want:
                ctx.fail({"alg": alg, "size": n, "got": digest, "want": want},
                         "compute_checksum of a %d-byte file with %s = %s, standard digest is %s" % (n, alg, digest, want), "digest")
            chunk = log[0]["req"] if log and log[0]["op"] == "read" else 0
            if any(e["op"] == "read" and e["req"] < 1 for e in log):
                # read() without a size: one chunk = rest of file; the model's request size is then "unbounded"
                log = [dict(e, req=(1 << 30)) if e["op"] == "read" and e["req"] < 1 else e for e in log]
            trs.append({"tid": "%s-%d" % (alg, n), "size": n, "chunk": chunk, "events": log})
            ctx.evaluations += 1
            ctx.distinct.add("digest-%s-%d" % (alg, n))
    # the same path hashed again after its content changed (no stale digest), and a second algorithm on the same path
    import productmd.treeinfo as TI
    p = os.path.join(tmp, "changing")
    for content in (b"first content", b"second, longer content " * 1000, b""):
        with open(p, "wb") as fh:
            fh.write(content)
        for alg in ("sha256", "md5", "sha256"):
            got = TI.compute_checksum(p, alg)
            if got != hashlib.new(alg, content).hexdigest():
                ctx.fail({"content_len": len(content), "alg": alg}, "compute_checksum of a file whose content changed between calls returns %s "
                         "(stale), standard %s digest of the current %d bytes differs" % (got, alg, len(content)), "digest")
        if content == b"first content":
            keep = samples.treeinfo(0)
        keep.checksums.add("changing", "sha256", root_dir=tmp)        # the SAME object refreshes the SAME path and type
        if tuple(keep.checksums.checksums.get("changing", ())) != ("sha256", hashlib.sha256(content).hexdigest()):
            ctx.fail({"content_len": len(content)}, "Checksums.add for a path already recorded does not record the digest of the file's "
                     "current content: %r" % (keep.checksums.checksums,), "digest")
        t = samples.treeinfo(0)
        t.checksums.add("changing", "sha256", root_dir=tmp)
        t.checksums.add("./changing", "md5", root_dir=tmp)       # same normalised path added again with another type: last wins
        if tuple(t.checksums.checksums.get("changing", ())) != ("md5", hashlib.md5(content).hexdigest()):
            ctx.fail({"content_len": len(content)}, "Checksums.add twice for one normalised path: recorded %r" % (t.checksums.checksums,), "digest")
        ctx.evaluations += 4
    # content replaced by other content of the SAME size with the modification time put back (a restored backup, a clamped
    # mtime, two writes within one clock tick): the digest is that of what is in the file now
    for alg in ("sha256", "md5"):
        with open(p, "wb") as fh:
            fh.write(b"A" * 4096)
        TI.compute_checksum(p, alg)
        st = os.stat(p)
        with open(p, "wb") as fh:
            fh.write(b"B" * 4096)
        os.utime(p, ns=(st.st_atime_ns, st.st_mtime_ns))
        got = TI.compute_checksum(p, alg)
        if got != hashlib.new(alg, b"B" * 4096).hexdigest():
            ctx.fail({"alg": alg, "same_size_same_mtime": True}, "compute_checksum of a file rewritten with other content of the same size and "
                     "the same modification time returns %s, not the %s digest of the current content" % (got, alg), "digest")
        t = samples.treeinfo(0)
        t.checksums.add("changing", alg, root_dir=tmp)
        if tuple(t.checksums.checksums.get("changing", ())) != (alg, hashlib.new(alg, b"B" * 4096).hexdigest()):
            ctx.fail({"alg": alg, "same_size_same_mtime": True}, "Checksums.add records %r for the rewritten file" % (t.checksums.checksums,), "digest")
        ctx.evaluations += 2
    verdicts = T.validate_batch(ctx, "Trace_Chunked", "Trace_Chunked.cfg", trs)
    inv = verdicts.pop("__invariant__", None)
    if inv:
        ctx.fail({"trace": trs[inv[2] - 1] if inv[2] else None}, "read loop reaches a state violating %s" % inv[1], "chunk-trace")
    for t in trs:
        v = verdicts.get(t["tid"])
        if v and v[0] == "REJECT":
            ctx.fail({"trace": {"tid": t["tid"], "size": t["size"], "chunk": t["chunk"], "events": t["events"][:12]}},
                     "read loop of compute_checksum drops, repeats or reorders file content: not a behaviour of ChunkedDigest at event %d "
                     "(%d-byte file, %s)" % (v[1], t["size"], t["tid"]), "chunk-trace")
    ctx.traces += len(trs)
    ctx.sample({"kind": "chunk-trace", "trace": {"tid": trs[0]["tid"], "size": trs[0]["size"], "events": trs[0]["events"][:6]}})
    ctx.notes["chunk_size_observed"] = sorted(set(t["chunk"] for t in trs))
    ctx.notes["algorithms"] = len(set(t["tid"].rsplit("-", 1)[0] for t in trs))


# ------------------------------------------------------------------ (b) Checksums.add

def eval_path(case):
    t = samples.treeinfo(0)
    root = case["root"]
    rel = "/".join(case["p"])
    s = ("/" if case["abs"] else "") + rel + "/f"
    norm = [c for c in case["norm"] if c != "."] + ["f"]
    fails = []
    inside = ".." not in norm and "n" not in norm
    try:
        if inside:
            t.checksums.add(s, "sha256", root_dir=root)
        else:
            t.checksums.add(s, "sha256", checksum_value="e" * 64)
        refused = False
    except ValueError:
        refused = True
    except Exception as exc:
        return ["Checksums.add(%r) raised %s: %s" % (s, type(exc).__name__, exc)]
    if s.startswith("/"):
        return [] if refused else ["absolute path %r accepted by Checksums.add (recorded %s)" % (s, list(t.checksums.checksums))]
    if refused:
        return ["relative path %r refused by Checksums.add" % s]
    key = "/".join(norm)
    # another tree of the same process that never read a file and never recorded anything: its table is its own
    other = samples.treeinfo(0)
    if other.checksums.checksums:
        return ["Checksums.add(%r) on one tree shows in another tree of the same process: %s" % (s, dict(other.checksums.checksums))]
    try:
        other.checksums.add(s.lstrip("/") if not inside else "elsewhere/f", "md5", checksum_value="0" * 32)
    except Exception:
        pass
    if list(t.checksums.checksums) != [key]:
        fails.append("Checksums.add(%r) recorded under %r, normalised path is %r" % (s, list(t.checksums.checksums), key))
        return fails
    typ, val = t.checksums.checksums[key]
    if inside:
        with open(os.path.join(root, *norm), "rb") as fh:
            want = hashlib.sha256(fh.read()).hexdigest()
        if (typ, val) != ("sha256", want):
            fails.append("Checksums.add(%r): recorded %s:%s, the file at the normalised path has sha256 %s" % (s, typ, val, want))
    elif (typ, val) != ("sha256", "e" * 64):
        fails.append("Checksums.add(%r, value given): recorded %s:%s" % (s, typ, val))
    if fails:
        return fails
    # a computation that fails (no such file; no such algorithm) records nothing and replaces nothing
    before = {k: tuple(v) for k, v in t.checksums.checksums.items()}
    for label, args in (("a file that does not exist", (s, "sha256", None, os.path.join(root, "no-such-dir"))),
                        ("a new path whose file does not exist", (rel + "/absent-file", "sha256", None, root)),
                        ("an algorithm hashlib does not know", (s, "no-such-algorithm", None, root))):
        try:
            t.checksums.add(*args)
            fails.append("Checksums.add(%r, %r) of %s returned instead of raising" % (args[0], args[1], label))
        except Exception:
            pass
        now = {k: tuple(v) for k, v in t.checksums.checksums.items()}
        if now != before:
            fails.append("Checksums.add(%r, %r) of %s failed and changed the table: %s -> %s" % (args[0], args[1], label, before, now))
            break
    return fails


# ------------------------------------------------------------------ (c) [checksums] section

LEN = {"bare32": 32, "bare40": 40, "bare64": 64, "bare48": 48, "bare0": 0, "bare31": 31, "bare33": 33, "bare41": 41, "bare65": 65}


LEGACY = """[general]
family = Older
version = 6
arch = x86_64
variant = Legacy
timestamp = 1386857206.0
packagedir = Packages
[images-x86_64]
kernel = images/pxeboot/vmlinuz
[checksums]
images/pxeboot/vmlinuz = sha256:%s
""" % ("9" * 64)


NOCKS = """[header]
version = 1.2
type = productmd.treeinfo
[release]
name = Other
short = O
version = 1
[tree]
arch = x86_64
build_timestamp = 1386857206
platforms = x86_64
variants = Zed
[variant-Zed]
id = Zed
uid = Zed
name = Zed
type = variant
packages = Packages
repository = .
"""


def eval_section(case):
    from . import corruptions as K
    from productmd.treeinfo import TreeInfo
    base = samples.treeinfo(0).dumps()
    ini = K.Ini(base)
    if ini.p.has_section("checksums"):
        return ["a tree whose checksum table was never touched is written with a [checksums] section: %s" % dict(ini.p.items("checksums"))]
    ini.p.add_section("checksums")
    exp = {}
    for i, kind in enumerate(case["sec"]):
        path = "images/p%d.img" % (i + 1)
        digit = "abcdef"[i]
        if kind.startswith("typed_"):
            alg = kind[6:]
            val = digit * (64 if alg == "sha256" else 32)
            ini.p.set("checksums", path, "%s:%s" % (alg, val))
        elif kind == "multicolon":
            val = None
            ini.p.set("checksums", path, "sha256:%s:%s" % (digit * 8, digit * 8))
        else:
            val = digit * LEN[kind]
            ini.p.set("checksums", path, val)
        exp[path] = (case["types"][i], val)
    text = ini.text()
    t = TreeInfo()
    try:
        t.loads(text)
        loaded = True
    except Exception as exc:
        loaded, err = False, exc
    what = "[checksums] %s" % case["sec"]
    if case["rejected"]:
        return [] if not loaded else ["%s: document loaded although an entry is neither 'type:value' nor a 32/40/64-digit digest: %s"
                                      % (what, {k: tuple(v) for k, v in t.checksums.checksums.items()})]
    if not loaded:
        return ["%s: valid section rejected: %s: %s" % (what, type(err).__name__, err)]
    got = {k: tuple(v) for k, v in t.checksums.checksums.items()}
    if got != exp:
        return ["%s: loaded %s, each path's own entry says %s" % (what, got, exp)]
    t2 = TreeInfo()
    t2.loads(t.dumps())
    got2 = {k: tuple(v) for k, v in t2.checksums.checksums.items()}
    if got2 != exp:
        return ["%s: after a write/read cycle %s, expected %s" % (what, got2, exp)]
    # an absolute path among the entries: refused, by a fresh object and by one that read a pre-productmd file before
    ini.p.set("checksums", "/mnt/tree/os/images/boot.iso", "sha256:" + "0" * 64)
    bad = ini.text()
    for label, first in (("a fresh object", None), ("an object that read a pre-productmd treeinfo before", LEGACY)):
        tr = TreeInfo()
        if first:
            tr.loads(first)
        try:
            tr.loads(bad)
            return ["%s plus an absolute path: loaded by %s: %s" % (what, label, {k: tuple(v) for k, v in tr.checksums.checksums.items()})]
        except ValueError:
            pass
        except Exception as exc:
            return ["%s plus an absolute path: %s raised %s: %s" % (what, label, type(exc).__name__, exc)]
    # several spellings of one file with values of their own: the table is keyed by the path as the file spells it
    ini2 = K.Ini(text)
    exp2 = dict(exp)
    for j, sp in enumerate(("images/sub/../p1.img", "./images/p1.img", "images//p1.img")):
        ini2.p.set("checksums", sp, "sha256:" + "%x" % (j + 1) * 64)
        exp2[sp] = ("sha256", "%x" % (j + 1) * 64)
    ta = TreeInfo()
    try:
        ta.loads(ini2.text())
        tb = TreeInfo()
        tb.loads(ta.dumps())
    except Exception as exc:
        return ["%s plus three spellings of images/p1.img: write/read cycle raised %s: %s" % (what, type(exc).__name__, exc)]
    for label, tt in (("loaded", ta), ("after a write/read cycle", tb)):
        gota = {k: tuple(v) for k, v in tt.checksums.checksums.items()}
        if gota != exp2:
            return ["%s plus three spellings of images/p1.img with digests of their own: %s %s, the file says %s" % (what, label, gota, exp2)]
        if hasattr(type(tt.checksums), "__getitem__"):
            # looked up one by one under the spelling of the file
            for k_, v_ in exp2.items():
                try:
                    one = tuple(tt.checksums[k_])
                except Exception as exc:
                    return ["%s plus three spellings: %s, checksums[%r] raised %s: %s" % (what, label, k_, type(exc).__name__, exc)]
                if one != v_:
                    return ["%s plus three spellings: %s, checksums[%r] gives %s, the file says %s" % (what, label, k_, one, v_)]
    # the same file read by an object that read ANOTHER file before: every path maps to what THIS file says
    tr = TreeInfo()
    tr.loads(LEGACY)
    tr.loads(text)
    gotr = {k: tuple(v) for k, v in tr.checksums.checksums.items()}
    if gotr != exp:
        return ["%s: read by an object that read another treeinfo before: %s, this file says %s" % (what, gotr, exp)]
    # ... and the other way round: the object that read THIS file reads one that has no [checksums] section at all
    tr = TreeInfo()
    tr.loads(text)
    tr.loads(NOCKS)
    gotr = {k: tuple(v) for k, v in tr.checksums.checksums.items()}
    if gotr:
        return ["%s: the object then read a treeinfo without a [checksums] section and still carries %s" % (what, gotr)]
    # entries recorded by add() in an order that is not the alphabetical one (what a directory walk gives), then written: every
    # path keeps ITS digest and algorithm in the file
    tw = samples.treeinfo(0)
    expw = {}
    for j, (pth, alg, n) in enumerate((("z/last.img", "sha256", 64), ("a/first.img", "md5", 32), ("m/mid.img", "sha1", 40), ("b/second.img", "sha256", 64))):
        tw.checksums.add(pth, alg, "%x" % (j + 1) * n)
        expw[pth] = (alg, "%x" % (j + 1) * n)
    try:
        tw2 = TreeInfo()
        tw2.loads(tw.dumps())
    except Exception as exc:
        return ["%s: tree with four added checksums: write/read cycle raised %s: %s" % (what, type(exc).__name__, exc)]
    gotw = {k: tuple(v) for k, v in tw2.checksums.checksums.items() if k in expw}
    if gotw != expw:
        return ["checksums added in the order z, a, m, b and written: the file says %s, added were %s" % (gotw, expw)]
    # a pre-productmd file (no [header]) whose RELATIVE checksum keys contain '/os/': only absolute paths are cut back to the tree
    leg = LEGACY + "ppc64/os/images/boot.iso = sha256:%s\nimages/boot.iso = sha256:%s\n" % ("7" * 64, "8" * 64)
    tl = TreeInfo()
    try:
        tl.loads(leg)
    except Exception as exc:
        return ["pre-productmd treeinfo with a relative key containing /os/: %s: %s" % (type(exc).__name__, exc)]
    gotl = {k: tuple(v) for k, v in tl.checksums.checksums.items()}
    expl = {"images/pxeboot/vmlinuz": ("sha256", "9" * 64), "ppc64/os/images/boot.iso": ("sha256", "7" * 64), "images/boot.iso": ("sha256", "8" * 64)}
    if gotl != expl:
        return ["pre-productmd treeinfo with the relative key ppc64/os/images/boot.iso next to images/boot.iso: loaded %s, the file says %s" % (gotl, expl)]
    # removing a child variant is no business of the checksum table (siblings whose repository paths share a textual prefix)
    from productmd.treeinfo import Variant
    tv = TreeInfo()
    tv.loads(text)
    top = tv.variants.variants[sorted(tv.variants.variants)[0]]
    for vid, repo in (("HA", "addons/HA"), ("HAExtras", "addons/HAExtras")):
        c = Variant(tv)
        c.id, c.uid, c.name, c.type = vid, "%s-%s" % (top.uid, vid), vid, "addon"
        c.paths.repository = c.paths.packages = repo
        top.add(c)
        tv.checksums.add(repo + "/repodata/repomd.xml", "sha256", "%x" % len(vid) * 64)
    before = {k: tuple(v) for k, v in tv.checksums.checksums.items()}
    try:
        del top["HA"]
    except Exception as exc:
        return ["%s: del variant['HA'] raised %s: %s" % (what, type(exc).__name__, exc)]
    now = {k: tuple(v) for k, v in tv.checksums.checksums.items()}
    before.pop("addons/HA/repodata/repomd.xml")          # the removed variant's own repository index goes with it (documented in the code)
    if now != before:
        return ["%s: removing the child variant HA changed the checksum table beyond its own repomd.xml: lost %s"
                % (what, sorted(set(before) - set(now)))]
    return []


# ------------------------------------------------------------------ (d) Image.add_checksum

def eval_addchecksum(case):
    from productmd.images import Images, Image
    img = Image(Images())
    img.checksums = {}
    vals = {"v1": "a" * 32, "v2": "b" * 32, "": ""}
    for i, ev in enumerate(case["hist"]):
        before = dict(img.checksums)
        try:
            # algorithm names are given as callers spell them: lower case, or capitals in one rotation of three
            out = img.add_checksum("/root", ev["t"].upper() if case.get("rot", 0) % 3 == 1 else ev["t"], vals[ev["v"]])
            out = {v: k for k, v in vals.items()}.get(out, "?%r" % (out,))
        except ValueError:
            out = "ValueError"
        except Exception as exc:
            out = type(exc).__name__
        if out != ev["out"]:
            return ["add_checksum history %s step %d: model returns %r, code %r" % (json.dumps(case["hist"]), i, ev["out"], out)]
        for t, v in before.items():
            if img.checksums.get(t) != v:
                return ["add_checksum history %s step %d: recorded %s checksum %r replaced by %r"
                        % (json.dumps(case["hist"]), i, t, v, img.checksums.get(t))]
    exp = {(t.upper() if case.get("rot", 0) % 3 == 1 else t): vals[v] for t, v in (case["cs"].items() if isinstance(case["cs"], dict) else [])}
    if img.checksums != exp:
        return ["add_checksum history %s: checksums %s, model %s" % (json.dumps(case["hist"]), img.checksums, exp)]
    return []


def gen(ctx, mode, d=0):
    out = []
    ctx.require_ok(ctx.tlc("Checksums", cfg_text=core.cfg_with("Checksums.cfg", [], {"Mode": mode, "D": d}), on_emit=out.append,
                           constants={"Mode": mode, "D": d}))
    return out


def run(ctx):
    ctx.rule = ("(a) the real compute_checksum runs on files of size {0,1,K-1,K,K+1,2K,3K+5} (K observed = 1 MiB) for 4/all fixed-length hashlib "
                "algorithms with read()/update() recorded: digest == hashlib on the whole content and every trace validated by TLC against "
                "ChunkedDigest.tla; (b) every path of <= 4 components over {x,y,.,..,//} relative and absolute from Checksums.tla through the "
                "real Checksums.add against real files; (c) every [checksums] section of <= 3 entries over 8 entry kinds loaded by the real "
                "reader; (d) every add_checksum history of length <= 4/5. non-trivial = distinct case")
    tmp = tempfile.mkdtemp(prefix="verif-c16-")
    try:
        chunk_part(ctx, tmp)
        root = os.path.join(tmp, "root")
        import itertools
        for n in range(0, 5):
            for comps in itertools.product("xy", repeat=n):
                d = os.path.join(root, *comps)
                os.makedirs(d, exist_ok=True)
                with open(os.path.join(d, "f"), "w") as fh:
                    fh.write("content of %s" % "/".join(comps))
        paths = gen(ctx, "paths")
        for c in paths:
            c["root"] = root
        ctx.exhaustive = True
        ctx.evaluate(eval_path, paths, label="checksums.add", chunk=100)
    finally:
        shutil.rmtree(tmp, ignore_errors=True)
    ctx.evaluate(eval_section, gen(ctx, "sections"), label="section", chunk=40)
    hists = gen(ctx, "addchecksum", 4 if ctx.quick else 5)
    for i, c in enumerate(hists):
        c["rot"] = i + ctx.seed
    ctx.evaluate(eval_addchecksum, hists, label="add_checksum", chunk=300)


def replay(info):
    k = info["kind"]
    if k == "section":
        return eval_section(info["case"])
    if k == "add_checksum":
        return eval_addchecksum(info["case"])
    if k == "checksums.add":
        tmp = tempfile.mkdtemp(prefix="verif-c16-")
        try:
            c = dict(info["case"])
            c["root"] = tmp
            norm = [x for x in c["norm"] if x != "."]
            if ".." not in norm:
                os.makedirs(os.path.join(tmp, *norm), exist_ok=True)
                open(os.path.join(tmp, *(norm + ["f"])), "w").write("x")
            return eval_path(c)
        finally:
            shutil.rmtree(tmp, ignore_errors=True)
    ctx = core.Ctx("C16", "quick", 0)
    tmp = tempfile.mkdtemp(prefix="verif-c16-")
    try:
        chunk_part(ctx, tmp)
    finally:
        shutil.rmtree(tmp, ignore_errors=True)
    return [v[0]["why"] for v in ctx.violations]
