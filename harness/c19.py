"""C19 Validation and parsing time grows polynomially with input length (RegexAmbiguity.tla)."""
import ast
import glob
import json
import multiprocessing
import os
import subprocess
import sys
import tempfile
import time

from . import core, regex_nfa

RE_FUNCS = {"compile", "match", "search", "split", "fullmatch", "sub", "findall", "finditer"}
CAP = 2.0          # seconds a single call on a short input may take
SHORT = 48         # "a few dozen characters"


# ------------------------------------------------------------------ pattern extraction (binding)

def ast_patterns():
    """Literal pattern arguments in productmd/*.py (re.<func>(...) and _assert_matches_re lists)."""
    found = {}
    for path in sorted(glob.glob(os.path.join(core.REPO, "productmd", "*.py"))):
        tree = ast.parse(open(path).read())
        rel = os.path.relpath(path, core.REPO)

        def lit(node):
            if isinstance(node, ast.Constant) and isinstance(node.value, str):
                return node.value
            if isinstance(node, ast.BinOp) and isinstance(node.op, ast.Mod) and isinstance(node.left, ast.Constant) \
                    and isinstance(node.left.value, str):
                return node.left.value.replace("%s", "X")
            return None
        for node in ast.walk(tree):
            if not isinstance(node, ast.Call):
                continue
            f = node.func
            if isinstance(f, ast.Attribute) and f.attr in RE_FUNCS and isinstance(f.value, ast.Name) and f.value.id == "re" and node.args:
                p = lit(node.args[0])
                if p is not None:
                    found.setdefault(p, set()).add("%s:%d" % (rel, node.lineno))
            if isinstance(f, ast.Attribute) and f.attr == "_assert_matches_re" and len(node.args) >= 2 \
                    and isinstance(node.args[1], (ast.List, ast.Tuple)):
                for el in node.args[1].elts:
                    p = lit(el)
                    if p is not None:
                        found.setdefault(p, set()).add("%s:%d" % (rel, node.lineno))
    return found


COLLECT_PLUGIN = r'''
import atexit, json, os, re, sys
_seen = {}
def _wrap(name):
    orig = getattr(re, name)
    def w(pattern, *a, **kw):
        try:
            f = sys._getframe(1)
            fn = f.f_code.co_filename
            if os.sep + "productmd" + os.sep in fn and isinstance(pattern, str):
                _seen.setdefault(pattern, set()).add("%s:%d" % (os.path.basename(fn), f.f_lineno))
        except Exception:
            pass
        return orig(pattern, *a, **kw)
    setattr(re, name, w)
for _n in ("compile", "match", "search", "split", "fullmatch", "sub", "findall"):
    _wrap(_n)
def _flush():
    import productmd.common, productmd.composeinfo, productmd.images, productmd.rpms, productmd.modules, productmd.treeinfo, productmd.discinfo, productmd.extra_files, productmd.compose
    for mod in list(sys.modules.values()):
        if getattr(mod, "__name__", "").startswith("productmd"):
            for k, v in vars(mod).items():
                if isinstance(v, re.Pattern):
                    _seen.setdefault(v.pattern, set()).add("%s.%s" % (mod.__name__, k))
                if isinstance(v, (list, tuple)):
                    for x in v:
                        if isinstance(x, re.Pattern):
                            _seen.setdefault(x.pattern, set()).add("%s.%s[]" % (mod.__name__, k))
    json.dump({k: sorted(v) for k, v in _seen.items()}, open(os.environ["VERIF_RE_OUT"], "w"))
atexit.register(_flush)
'''


def runtime_patterns():
    """Patterns productmd hands to `re` while the repository's own tests run (plus module-level compiled ones)."""
    d = tempfile.mkdtemp(prefix="verif-re-")
    try:
        with open(os.path.join(d, "verif_recollect.py"), "w") as fh:
            fh.write(COLLECT_PLUGIN)
        out = os.path.join(d, "out.json")
        env = dict(os.environ)
        env.update({"PYTHONPATH": os.pathsep.join([d, core.REPO]), "VERIF_RE_OUT": out, "PYTHONDONTWRITEBYTECODE": "1"})
        env.pop("PRODUCTMD_VERIF", None)
        subprocess.run([core.PY, "-m", "pytest", "-q", "-p", "no:cacheprovider", "-p", "verif_recollect", "tests/"],
                       cwd=core.REPO, env=env, capture_output=True, text=True, timeout=900)
        with open(out) as fh:
            return json.load(fh)
    except (IOError, ValueError) as exc:
        raise core.MachineryError("runtime pattern collection failed: %s" % exc)
    finally:
        import shutil
        shutil.rmtree(d, ignore_errors=True)


# ------------------------------------------------------------------ entry points (public validators / parsers)

def entry_points():
    import productmd.common as C
    import productmd.composeinfo as CI
    import productmd.images as IM
    import productmd.modules as MO
    import productmd.treeinfo as TI
    from . import forest_adapter

    def compose_field(field):
        def f(s):
            ci = forest_adapter.new_ci()
            setattr(ci.compose, field, s)
            ci.compose.validate()
        return f

    def release_field(field):
        def f(s):
            ci = forest_adapter.new_ci()
            setattr(ci.release, field, s)
            ci.release.validate()
        return f

    def variant_id(s):
        v = CI.Variant(forest_adapter.new_ci())
        v.id = v.uid = s
        v.name = "n"
        v.type = "variant"
        v.arches = set(["x86_64"])
        v.validate()

    def header_version(s):
        h = C.Header(None, "productmd.x")
        h.version = s
        h.version_tuple

    def implant(s):
        from . import images_adapter as A
        m = IM.Images()
        img = A.make_image(m, A.image_fields("i", "I1", "c1", 0))
        img.implant_md5 = s
        img.validate()

    def ti_version(s):
        t = TI.TreeInfo()
        t.release.name = "n"
        t.release.short = "n"
        t.release.version = s
        t.release.validate()

    def ci_loads(field):
        def f(s):
            ci = forest_adapter.new_ci()
            v = forest_adapter.make_variant(ci, {"id": "A", "uid": ["A"], "type": "variant", "arches": ["x"]},
                                            forest_adapter.TOKSETS[0], forest_adapter.ARCHSETS[0])
            ci.variants.add(v)
            doc = json.loads(ci.dumps())
            sec, key = field
            doc["payload"][sec][key] = s
            CI.ComposeInfo().loads(json.dumps(doc))
        return f

    def ti_legacy(field):
        def f(s):
            if "\n" in s or s.strip() != s or not s:
                s = s.replace("\n", "") .strip() or "x"
            vals = {"family": "Fedora", "version": "20", "arch": "x86_64", "variant": "Server", "timestamp": "1386857206.0",
                    "packagedir": "Packages", "repository": "."}
            vals[field] = s.replace("%", "")
            text = "[general]\n" + "".join("%s = %s\n" % kv for kv in sorted(vals.items()))
            TI.TreeInfo().loads(text)
        return f

    def ti_current(section, option):
        def f(s):
            s = s.replace("\n", "").replace("%", "").strip() or "x"
            from . import corruptions, samples
            ini = corruptions.Ini(samples.treeinfo(1).dumps())
            ini.p.set(section, option, s)
            TI.TreeInfo().loads(ini.text())
        return f

    def ti_media(which):
        def f(s):
            s = s.replace("\n", "").replace("%", "").strip() or "1"
            from . import corruptions, samples
            ini = corruptions.Ini(samples.treeinfo(1).dumps())
            if not ini.p.has_section("media"):
                ini.p.add_section("media")
            ini.p.set("media", "discnum", s if which != "totaldiscs" else "1")
            ini.p.set("media", "totaldiscs", s)
            TI.TreeInfo().loads(ini.text())
        return f

    def img_loads(field):
        def f(s):
            from . import samples
            doc = json.loads(samples.images(0).dumps())
            doc["payload"]["images"]["Server"]["x86_64"][0][field] = s
            IM.Images().loads(json.dumps(doc))
        return f

    def di_loads(line):
        def f(s):
            import productmd.discinfo
            lines = ["1386856788.124593", "Fedora 20", "x86_64", "ALL"]
            lines[line] = s.replace("\n", "")
            productmd.discinfo.DiscInfo().loads("\n".join(lines))
        return f

    def image_field(field):
        def f(s):
            from . import images_adapter as A
            m = IM.Images()
            img = A.make_image(m, A.image_fields("i", "I1", "c1", 0))
            setattr(img, field, s)
            img.validate()
        return f

    def ti_legacy_path(where):
        def f(s):
            s = "".join(ch for ch in s if ch not in "=:\n\r%").strip().lstrip("#;[") or "x"
            text = ("[general]\nfamily = Fedora\nversion = 20\narch = x86_64\nvariant = Server\ntimestamp = 1386857206.0\npackagedir = Packages\n")
            if where == "checksums":
                text += "[checksums]\n%s = sha256:%s\n" % (s, "a" * 64)
            elif where == "images":
                text += "[images-x86_64]\nkernel = %s\n" % s
            else:
                text += "[stage2]\nmainimage = %s\n" % s
            TI.TreeInfo().loads(text)
        return f

    def di_field(field):
        def f(s):
            import productmd.discinfo
            d = productmd.discinfo.DiscInfo()
            d.timestamp, d.description, d.arch, d.disc_numbers = 1386856788.5, "Fedora 20", "x86_64", [1]
            if field == "disc item":
                d.disc_numbers = [1, s]
            else:
                setattr(d, field, s)
            d.validate()
        return f

    def ti_variant_field(field):
        def f(s):
            t = TI.TreeInfo()
            v = TI.Variant(t)
            v.id, v.uid, v.name, v.type = "Server", "Server", "Server", "variant"
            setattr(v, field, s)
            if field == "id":
                v.uid = s
            v.validate()
        return f

    def ci_variant_field(field):
        def f(s):
            v = CI.Variant(forest_adapter.new_ci())
            v.id = v.uid = "Server"
            v.name, v.type, v.arches = "n", "variant", set(["x86_64"])
            if field == "arch item":
                v.arches = set(["x86_64", s])
            elif field == "path value":
                v.paths.os_tree["x86_64"] = s
                v.paths.validate()
            else:
                setattr(v, field, s)
            v.validate()
        return f

    def rpms_add(which):
        def f(s):
            import productmd.rpms
            m = productmd.rpms.Rpms()
            if which == "nevra":
                m.add("V", "x86_64", s, "p/x.rpm", None, "binary", "srcpkg-0:1-1.src")
            else:
                m.add("V", "x86_64", "pkg-0:1-1.x86_64", "p/x.rpm", None, "binary", s)
        return f

    def rpms_sigkey(s):
        import productmd.rpms
        productmd.rpms.Rpms().add("V", "x86_64", "pkg-0:1-1.x86_64", "p/x.rpm", s, "binary", "srcpkg-0:1-1.src")

    def location(kind):
        # a location given as TEXT (path or URL; the worker's urlopen answers every URL with an error at once)
        def f(s):
            import productmd.compose
            import productmd.composeinfo
            import productmd.treeinfo
            if kind == "load":
                productmd.composeinfo.ComposeInfo().load(s)
            elif kind == "treeinfo":
                productmd.treeinfo.TreeInfo().load(s)
            else:
                productmd.compose.Compose(s).info
        return f

    eps = {
        "Rpms.add(sigkey)": rpms_sigkey,
        "ComposeInfo.load(location)": location("load"), "TreeInfo.load(location)": location("treeinfo"), "Compose(location).info": location("compose"),
        "Image.volume_id": image_field("volume_id"), "Image.subvariant": image_field("subvariant"), "Image.path": image_field("path"),
        "Image.type": image_field("type"), "Image.arch": image_field("arch"),
        "Rpms.add(nevra)": rpms_add("nevra"), "Rpms.add(srpm_nevra)": rpms_add("srpm"),
        "TreeInfo.loads(legacy checksums path)": ti_legacy_path("checksums"), "TreeInfo.loads(legacy images path)": ti_legacy_path("images"),
        "TreeInfo.loads(legacy stage2 path)": ti_legacy_path("stage2"),
        "DiscInfo.disc_numbers item": di_field("disc item"), "DiscInfo.description": di_field("description"), "DiscInfo.arch": di_field("arch"),
        "treeinfo.Variant.id": ti_variant_field("id"), "treeinfo.Variant.name": ti_variant_field("name"), "treeinfo.Variant.type": ti_variant_field("type"),
        "Variant.name": ci_variant_field("name"), "Variant.type": ci_variant_field("type"), "Variant.arches item": ci_variant_field("arch item"),
        "VariantPaths value": ci_variant_field("path value"),
        "TreeInfo.loads(legacy general/version)": ti_legacy("version"),
        "TreeInfo.loads(legacy general/family)": ti_legacy("family"),
        "TreeInfo.loads(legacy general/variant)": ti_legacy("variant"),
        "TreeInfo.loads(legacy general/timestamp)": ti_legacy("timestamp"),
        "TreeInfo.loads(legacy general/repository)": ti_legacy("repository"),
        "TreeInfo.loads(legacy general/packagedir)": ti_legacy("packagedir"),
        "TreeInfo.loads(media/discnum of totaldiscs)": ti_media("both"), "TreeInfo.loads(media/totaldiscs)": ti_media("totaldiscs"),
        "TreeInfo.loads(release/version)": ti_current("release", "version"),
        "TreeInfo.loads(header/version)": ti_current("header", "version"),
        "TreeInfo.loads(tree/platforms)": ti_current("tree", "platforms"),
        "TreeInfo.loads(checksums value)": ti_current("checksums", "images/boot.iso"),
        "Images.loads(implant_md5)": img_loads("implant_md5"),
        "Images.loads(path)": img_loads("path"),
        "DiscInfo.loads(timestamp)": di_loads(0),
        "DiscInfo.loads(disc numbers)": di_loads(3),
        "Modules.add(uid)": lambda s: MO.Modules().add("V", "x86_64", s, "tag", "p/m.yaml", "binary", []),
        "is_valid_release_short": C.is_valid_release_short,
        "is_valid_release_version": C.is_valid_release_version,
        "is_valid_release_type": C.is_valid_release_type,
        "create_release_id(short)": lambda s: C.create_release_id(s, "1", "ga"),
        "create_release_id(version)": lambda s: C.create_release_id("a", s, "ga"),
        "create_release_id(type)": lambda s: C.create_release_id("a", "1", s),
        "create_release_id(bp_short)": lambda s: C.create_release_id("a", "1", "ga", s, "1", "ga"),
        "parse_release_id": C.parse_release_id,
        "parse_nvra": C.parse_nvra,
        "split_version": C.split_version,
        "Modules.parse_uid": MO.Modules.parse_uid,
        "verify_label": CI.verify_label,
        "get_date_type_respin": CI.get_date_type_respin,
        "Compose.id": compose_field("id"),
        "Compose.date": compose_field("date"),
        "Compose.label": compose_field("label"),
        "Release.version": release_field("version"),
        "Release.short": release_field("short"),
        "Variant.id": variant_id,
        "Header.version": header_version,
        "Image.implant_md5": implant,
        "treeinfo.Release.version": ti_version,
        "ComposeInfo.loads(release.version)": ci_loads(("release", "version")),
        "ComposeInfo.loads(compose.id)": ci_loads(("compose", "id")),
        "ComposeInfo.loads(compose.label)": ci_loads(("compose", "label")),
        "ComposeInfo.loads(release.type)": ci_loads(("release", "type")),
    }
    return eps


def _worker(conn):
    core.import_repo()
    try:
        # no network: every URL is answered with an error at once (what matters is the time spent BEFORE anything is fetched)
        import productmd.common
        import urllib.error

        def _no_net(url, *a, **kw):
            raise urllib.error.URLError("no network in the sandbox")
        productmd.common.six.moves.urllib.request.urlopen = _no_net
        os.chdir("/")            # relative location texts are only ever read
    except Exception:
        pass
    eps = entry_points()
    while True:
        msg = conn.recv()
        if msg is None:
            return
        out = []
        for name, s in msg:
            t0 = time.perf_counter()
            try:
                eps[name](s)
            except Exception:
                pass
            out.append(time.perf_counter() - t0)
        conn.send(out)


class Timer(object):
    """Times calls in a child process that is killed when a call stalls."""

    def __init__(self):
        self.proc = None
        self.stalls = []

    def _start(self):
        ctx = multiprocessing.get_context("fork")
        self.conn, child = ctx.Pipe()
        self.proc = ctx.Process(target=_worker, args=(child,), daemon=True)
        self.proc.start()

    def _kill(self):
        if self.proc is not None:
            self.proc.kill()
            self.proc.join()
            self.proc = None

    def run(self, calls, cap, max_stalls=None):
        """-> list of times (cap + 1 for a stalled call; None for calls skipped after max_stalls stalls)."""
        if self.proc is None:
            self._start()
        self.conn.send(calls)
        if self.conn.poll(cap + 0.02 * len(calls) + 1):
            return self.conn.recv()
        self._kill()
        if len(calls) == 1:
            return [cap + 1.0]
        res, stalls = [], 0
        for c in calls:
            if max_stalls is not None and stalls >= max_stalls:
                res.append(None)
                continue
            t = self.run([c], cap)[0]
            stalls += t > cap
            res.append(t)
        return res

    def close(self):
        if self.proc is not None:
            try:
                self.conn.send(None)
            except Exception:
                pass
            self._kill()


# ------------------------------------------------------------------ the check

def tlc_eda(ctx, models):
    """Run RegexAmbiguity over all NFAs; returns {pattern index: (pivot, word)} for patterns with EDA."""
    found = {}
    active = dict(models)
    while active:
        out, piv = {}, set()
        for pid, m in active.items():
            for (i, u, a, w) in m["edges"]:
                out.setdefault((pid, u), set()).add((i, ord(a), w))
                piv.add((pid, u))
        mod, files, lines = core.gen_module("RegexAmbiguity", {"Out": {k: v for k, v in out.items()}, "Pivots": piv})
        cfg = core.cfg_with("RegexAmbiguity.cfg", [], {}) + "\n".join(lines) + "\n"
        r = ctx.tlc(mod, cfg_text=cfg, extra_files=files, expect_error=True, timeout=900)
        if r.ok:
            return found
        if r.violated != "NoEDA":
            raise core.MachineryError("RegexAmbiguity: unexpected TLC result %s %s" % (r.violated, r.error))
        last = " ".join(r.trace[-1][1])
        import re as _re
        pid = int(_re.search(r"pat = (\d+)", last).group(1))
        word = [chr(int(x)) for x in _re.findall(r"\d+", _re.search(r"word = <<(.*?)>>", last).group(1))]
        found[pid] = (int(_re.search(r"piv = (\d+)", last).group(1)), word)
        del active[pid]
    return found


def run(ctx):
    ctx.rule = ("every pattern productmd hands to `re` (AST scan of the working tree + patterns observed while the repository's tests run "
                "+ module-level compiled objects) is translated to an NFA and TLC decides exponential ambiguity on the product "
                "automaton (RegexAmbiguity.tla); every public validator/parser is timed in a killable child process on the pumped "
                "families prefix + pump^n + suffix built from the patterns' own atoms (single atoms, atom pairs and TLC's pump words): "
                "short inputs must finish, and doubling n may multiply the time by at most 2^5.5; patterns built at run time from document text are found by "
                "loading sample documents of every format with a marker pattern at each text position while `re` is observed, and then "
                "timed with the document choosing an ambiguous pattern and its pump. non-trivial = distinct (entry point, input)")
    ctx.assumptions += ["the NFA translation ignores anchors and back-references (none used); its agreement with `re` is validated on all words <= 4",
                        "wall-clock thresholds are growth factors, generous enough for a loaded machine"]
    pats = {}
    for p, where in ast_patterns().items():
        pats.setdefault(p, set()).update(where)
    rt = runtime_patterns()
    for p, where in rt.items():
        pats.setdefault(p, set()).update(where)
    if len(pats) < 10:
        raise core.MachineryError("pattern extraction found only %d patterns" % len(pats))
    ctx.notes["patterns"] = {p: sorted(w)[:4] for p, w in sorted(pats.items())}
    models = {}
    plist = sorted(pats)
    import re as _re
    for i, p in enumerate(plist):
        try:
            m = regex_nfa.compile_pattern(p)
        except NotImplementedError as exc:
            raise core.MachineryError("pattern %r uses an unsupported construct: %s" % (p, exc))
        # translation validation: NFA prefix-acceptance == re.match on all words <= 4 over the atoms (anchors make re stricter only)
        atoms = m["atoms"][:6]
        words = [""]
        for _ in range(3 if ctx.quick else 4):
            words = words + [w + a for w in words for a in atoms if len(w + a) <= 4]
        for w in set(words):
            if _re.match(p, w) and not regex_nfa.nfa_accepts_prefix(m, w):
                raise core.MachineryError("NFA translation of %r rejects %r which re accepts" % (p, w))
        models[i] = m
    eda = tlc_eda(ctx, models)
    ctx.notes["eda_patterns"] = {plist[i]: {"pivot": v[0], "pump": v[1]} for i, v in eda.items()}
    # ---- timing families
    KEY = ["a", "0", "-", ".", ":", "/", "_", "A", " ", "@"]
    # separator + valid segment words of the non-regex parsers (release ids, NVRAs, UIDs, versions)
    SEGMENTS = ["@a-1", "a-1@", "-a", "-1", ".1", "1.", ":a", "a:", "/a", "a/", "-updates", ".n", ".t.1"]
    atoms = set()
    for i, m in models.items():
        atoms.update(m["atoms"])
    edawords = ["".join(w) for _, w in eda.values()]
    # for every ambiguous pattern: a shortest word leading from the start to the pivot state (so the pump is reached at all)
    access = []
    for i, (piv, word) in eda.items():
        m = models[i]
        by = {}
        for (_, u, a, w) in m["edges"]:
            by.setdefault(u, []).append((a, w))
        seen = {q: "" for q in m["starts"]}
        queue = list(m["starts"])
        while queue and piv not in seen:
            u = queue.pop(0)
            for a, w in by.get(u, []):
                if w not in seen:
                    seen[w] = seen[u] + a
                    queue.append(w)
        if piv in seen:
            access.append((seen[piv], "".join(word)))
    ctx.notes["eda_access_words"] = access
    pumps = list(dict.fromkeys(edawords + SEGMENTS + sorted(atoms) + [a + b for a in KEY for b in KEY if a != b]))
    prefixes = ["", "a", "1", "a-1-", "a:"]
    suffixes = ["!", "", "-", ".", "\n", "é"]
    eps = sorted(entry_points())
    timer = Timer()
    nshort = [24, 31, 40] if ctx.quick else [12, 16, 20, 24, 28, 30, 31, 32, 40]       # 31/32: the documented length limit of a volume id
    total = 0
    stalled_eps = set()
    try:
        for ep in eps:
            calls = []
            for pump in pumps:
                for n in nshort:
                    for pre in prefixes[:2] if ctx.quick else prefixes:
                        for suf in suffixes[:3] if ctx.quick else suffixes:
                            body = (pump * n)[:max(1, min(n, SHORT - len(pre) - len(suf)))]
                            calls.append((ep, pre + body + suf))
            for pre, pump in access:            # access word + pump^n + a character the pattern cannot match
                for n in (16, 24, 32, 40):
                    for suf in ("!", "\n", " "):
                        body = (pump * n)[:max(len(pump), SHORT - len(pre) - len(suf))]
                        calls.insert(0, (ep, pre + body + suf))
            # numbers in notations whose VALUE is exponential in their length (exponents, long digit runs, hex / underscores):
            # a field parsed as a number must not take time proportional to the value
            for head in ("1e", "1E+", "9.9e", "1e-", "-1e", "0x", "1_", ""):
                for k in (3, 5, 6, 7, 8, 9, 12, 18, 30):
                    calls.insert(0, (ep, head + "9" * k))
            calls = list(dict.fromkeys(calls))
            stalled = 0
            for k in range(0, len(calls), 100):
                batch = calls[k:k + 100]
                times = timer.run(batch, CAP, max_stalls=3)
                total += len([t for t in times if t is not None])
                for (name, s), t in zip(batch, times):
                    if t is not None and t > CAP:
                        stalled += 1
                        ctx.fail({"entry": name, "input": s, "seconds": ">%.0f" % CAP,
                                  "eda_patterns": [plist[i] for i in eda]},
                                 "%s(%r) (%d characters) did not finish within %.0f s" % (name, s, len(s), CAP), "stall")
                if stalled >= 3:
                    stalled_eps.add(ep)
                    break
            ctx.distinct.update(core._digest(c) for c in calls)
        # growth for long inputs (single key atoms and TLC pump words)
        grow = list(dict.fromkeys(edawords + SEGMENTS + KEY))
        for ep in eps:
            if ep in stalled_eps:
                continue
            families = [(pre, pump, "!") for pre, pump in access]
            for pump in grow:
                for pre, suf in ((("", "!"),) if ctx.quick else (("", "!"), ("a", ""), ("1", "\n"))):
                    families.append((pre, pump, suf))
            for pre, pump, suf in families:
                if True:
                    prev = None
                    for n in (50, 100, 200, 400):
                        s = pre + pump * n + suf
                        t = timer.run([(ep, s)], 10.0)[0]
                        total += 1
                        if t > 10.0:
                            ctx.fail({"entry": ep, "input_family": [pre, pump, suf], "n": [n, n], "seconds": [t, t]},
                                     "%s on %r + %r*%d + %r (%d characters) did not finish within 10 s"
                                     % (ep, pre, pump, n, suf, len(s)), "growth")
                            break
                        if prev is not None and prev[1] > 0.02 and t > prev[1] * 45:
                            ctx.fail({"entry": ep, "input_family": [pre, pump, suf], "n": [prev[0], n], "seconds": [prev[1], t]},
                                     "%s on %r + %r*n + %r: time grew from %.3fs (n=%d) to %.3fs (n=%d): more than 2^5.5 per doubling"
                                     % (ep, pre, pump, suf, prev[1], prev[0], t, n), "growth")
                            break
                        prev = (n, t)
                        if t > 0.5:
                            break
    finally:
        timer.close()
    ctx.evaluations += total
    ctx.distinct_count += 0
    ctx.traces += total
    # patterns that are not in the source: built at run time from the text of the document being read
    from . import regex_injection
    viol, stats = regex_injection.evaluate(CAP)
    for case, why in viol:
        ctx.fail(case, why, "injection")
    ctx.notes["injection"] = {k: (v if not isinstance(v, list) else v[:20]) for k, v in stats.items()}
    # documents whose reading fans out (no pattern involved): reading time against document length
    for case, why in regex_injection.evaluate_fanout(4.0 if ctx.quick else 10.0, ctx.quick):
        ctx.fail(case, why, "fanout")
    ctx.evaluations += stats["positions"] + stats["pump_loads"]
    ctx.traces += stats["positions"] + stats["pump_loads"]
    ctx.sample({"kind": "pattern", "pattern": plist[0], "nfa_states": models[0]["nstates"], "edges": len(models[0]["edges"])})
    ctx.sample({"kind": "timed-call", "entry": eps[0], "input": "a" * 16 + "!"})
    for i, (piv, word) in eda.items():
        if not any(plist[i] in json.dumps(v[0]["case"].get("eda_patterns", [])) for v in ctx.violations):
            ctx.model_drift.append({"pattern": plist[i], "note": "TLC finds exponential ambiguity but no timed entry point stalled"})


def replay(info):
    c = info["case"]
    if info["kind"] in ("injection", "fanout"):
        from . import regex_injection
        return regex_injection.replay(c, CAP)
    t = Timer()
    try:
        if info["kind"] == "stall":
            dt = t.run([(c["entry"], c["input"])], CAP)[0]
            return ["%s(%r) did not finish within %.0f s" % (c["entry"], c["input"], CAP)] if dt > CAP else []
        pre, pump, suf = c["input_family"]
        a = t.run([(c["entry"], pre + pump * c["n"][0] + suf)], 30.0)[0]
        b = t.run([(c["entry"], pre + pump * c["n"][1] + suf)], 30.0)[0]
        return ["time grew from %.3fs to %.3fs" % (a, b)] if a > 0.02 and b > a * 45 else []
    finally:
        t.close()
