"""Recorder: logs one event per public productmd call (code -> spec direction).

Loaded either as a pytest plugin (`-p verif_recorder`, the repository's tests run unedited)
or imported by the random drivers.  It wraps public methods from the outside - nothing under
/repo is changed - and is active only when PRODUCTMD_VERIF=1.  Events are grouped per
top-level object into traces and written as JSON to $PRODUCTMD_VERIF_TRACE at exit.

The linearisation point of this sequential library is the call's return (also the error
return): every event is logged in `finally`, after the state change, with the projected
state that the trace specifications compare.  Nested calls (loads -> add) are skipped by a
depth counter: the outer call is the spec action.
"""
import atexit
import functools
import json
import os

TRACES = {}      # family -> {tid -> [events]}
_SERIAL = [0]
_DEPTH = [0]
_INSTALLED = [False]


def ver_int(s):
    try:
        a, b = str(s).split(".")
        return int(a) * 100 + int(b)
    except Exception:
        return -1


def _tid(obj, family):
    t = getattr(obj, "_verif_tid", None)
    if t is None:
        _SERIAL[0] += 1
        t = "%s%d" % (family, _SERIAL[0])
        try:
            obj._verif_tid = t
        except Exception:
            pass
        TRACES.setdefault(family, {})[t] = []
    return t


def emit(obj, family, ev):
    TRACES.setdefault(family, {}).setdefault(_tid(obj, family), []).append(ev)


def wrap(cls, name, handler):
    orig = cls.__dict__.get(name)
    if orig is None:
        orig = getattr(cls, name)

    @functools.wraps(orig)
    def wrapper(self, *a, **kw):
        if _DEPTH[0] > 0:
            return orig(self, *a, **kw)
        return handler(orig, self, a, kw)
    setattr(cls, name, wrapper)


def call(orig, self, a, kw):
    """Run the real method with nested recording switched off; return (outcome, result, exc)."""
    _DEPTH[0] += 1
    try:
        return "ok", orig(self, *a, **kw), None
    except BaseException as exc:   # logged, then re-raised by the handler
        return type(exc).__name__, None, exc
    finally:
        _DEPTH[0] -= 1


# ------------------------------------------------------------------ images

def _img_ident(d):
    g = (lambda k, dflt=None: d.get(k, dflt)) if isinstance(d, dict) else (lambda k, dflt=None: getattr(d, k, dflt))
    return json.dumps([g("subvariant"), g("type"), g("format"), g("arch"), g("disc_number"),
                       bool(g("unified", False)), list(g("additional_variants", None) or [])])


def _img_rec(img, name=None):
    if name is None:
        name = getattr(img, "_verif_name", None)
        if name is None:
            _SERIAL[0] += 1
            name = "o%d" % _SERIAL[0]
            try:
                img._verif_name = name
            except Exception:
                pass
    sums = img.get("checksums") if isinstance(img, dict) else getattr(img, "checksums", None)
    return {"n": name, "ident": _img_ident(img), "sums": json.dumps(sums, sort_keys=True)}


def _images_proj(m):
    ncells = sum(len(m.images[v]) for v in m.images)
    nimgs = len(set(id(i) for v in m.images for a in m.images[v] for i in m.images[v][a]))
    keys = sorted("%s/%s" % (v, a) for v in m.images for a in m.images[v])
    return {"ncells": ncells, "nimgs": nimgs, "keys": keys, "hdr": ver_int(m.header.version)}


def _images_sync_hdr(m):
    cur = ver_int(m.header.version)
    last = getattr(m, "_verif_hdr", None)
    if last is not None and cur != last:
        emit(m, "images", {"op": "setversion", "ver": cur})
    m._verif_hdr = cur


def _images_init(orig, self, a, kw):
    out, res, exc = call(orig, self, a, kw)
    if exc is not None:
        raise exc
    self._verif_hdr = ver_int(self.header.version)
    emit(self, "images", {"op": "new", "hdr": self._verif_hdr})
    return res


def _images_add(orig, self, a, kw):
    _images_sync_hdr(self)
    args = dict(zip(("variant", "arch", "image"), a))
    args.update(kw)
    rec = None
    try:
        rec = _img_rec(args.get("image"))
    except Exception:
        pass
    out, res, exc = call(orig, self, a, kw)
    ev = {"op": "add", "v": str(args.get("variant")), "a": str(args.get("arch")), "img": rec, "out": out}
    ev.update(_images_proj(self))
    self._verif_hdr = ev["hdr"]
    if rec is not None:
        emit(self, "images", ev)
    if exc is not None:
        raise exc
    return res


def _images_deserialize(orig, self, a, kw):
    data = a[0] if a else kw.get("data")
    doc, ver = None, -1
    try:
        ver = ver_int(data["header"]["version"])
        doc = []
        n = 0
        for v in data["payload"]["images"]:
            for arch in data["payload"]["images"][v]:
                imgs = []
                for d in data["payload"]["images"][v][arch]:
                    n += 1
                    dd = dict(d)
                    if ver <= 100:
                        dd.setdefault("subvariant", "")
                    dd.setdefault("format", "iso")
                    imgs.append(_img_rec(dd, "L%d" % n))
                doc.append({"v": v, "a": arch, "imgs": imgs})
    except Exception:
        doc = None
    out, res, exc = call(orig, self, a, kw)
    if doc is not None:
        ev = {"op": "load", "ver": ver, "doc": doc, "out": out}
        ev.update(_images_proj(self))
        self._verif_hdr = ev["hdr"]
        emit(self, "images", ev)
    if exc is not None:
        raise exc
    return res


def _images_serialize(orig, self, a, kw):
    _images_sync_hdr(self)
    out, res, exc = call(orig, self, a, kw)
    ev = {"op": "dump", "out": out}
    ev.update(_images_proj(self))
    self._verif_hdr = ev["hdr"]
    emit(self, "images", ev)
    if exc is not None:
        raise exc
    return res


def install_images():
    import productmd.images as I
    wrap(I.Images, "__init__", _images_init)
    wrap(I.Images, "add", _images_add)
    wrap(I.Images, "deserialize", _images_deserialize)
    wrap(I.Images, "serialize", _images_serialize)


# ------------------------------------------------------------------ composeinfo variant forest (C11)

FOREST_OBJS = {}      # object name -> attributes logged at its add calls


def _fname(obj, md):
    n = getattr(obj, "_verif_fname", None)
    if n is None:
        _SERIAL[0] += 1
        n = "v%d" % _SERIAL[0]
        try:
            obj._verif_fname = n
        except Exception:
            pass
    return n


def _fattrs(v):
    uid = getattr(v, "uid", None)
    arches = getattr(v, "arches", None)
    return {"id": getattr(v, "id", None), "uid": uid, "flat": uid.replace("-", "") if isinstance(uid, str) else None,
            "arches": sorted(arches) if isinstance(arches, (set, frozenset, list)) else None, "type": getattr(v, "type", None)}


def _forest_add(orig, self, a, kw):
    import productmd.composeinfo as CI
    if type(self) not in (CI.Variants, CI.Variant) or not a or type(a[0]) is not CI.Variant or len(a) > 1 or kw:
        return orig(self, *a, **kw)
    variant = a[0]
    md = getattr(self, "_metadata", None)
    if md is None:
        return orig(self, *a, **kw)
    oname = _fname(variant, md)
    cname = "ROOT" if type(self) is CI.Variants else _fname(self, md)
    mutated = False
    for n, o in ((oname, variant),) + (((cname, self),) if cname != "ROOT" else ()):
        at = _fattrs(o)
        ok = all(isinstance(at[k], str) for k in ("id", "uid", "type")) and at["arches"] is not None
        if not ok or (n in FOREST_OBJS and FOREST_OBJS[n] != at):
            mutated = True
        elif n not in FOREST_OBJS:
            FOREST_OBJS[n] = at
    out, res, exc = call(orig, self, a, kw)
    if mutated:
        emit(md, "forest", {"op": "mutated"})
    else:
        par = getattr(variant, "parent", None)
        emit(md, "forest", {"op": "add", "c": cname, "o": oname, "out": out, "nkids": len(self.variants),
                            "par": "None" if par is None else getattr(par, "_verif_fname", "<unnamed>")})
    if exc is not None:
        raise exc
    return res


def install_forest():
    import productmd.composeinfo as CI
    wrap(CI.VariantBase, "add", _forest_add)
    orig_variant_add = CI.Variant.__dict__.get("add")
    if orig_variant_add is not None:
        # Variant.add simply forwards to VariantBase.add: record at the outer call only (depth counter)
        wrap(CI.Variant, "add", _forest_add)


# ------------------------------------------------------------------ dump protocol (C18)

DUMP = {"active": None, "inject": None}     # active: dict of the dump being recorded


def _dump_handler(orig, self, a, kw):
    import os
    f = a[0] if a else kw.get("f")
    if not isinstance(f, str) or "://" in f or DUMP["active"] is not None:      # (a dump() calling the shared one: the outer call is recorded)
        return orig(self, *a, **kw)
    existed = os.path.exists(f)
    rec = {"path": f, "events": [], "n": 0, "top": 0, "nested": 0, "in_ser": 0, "failAt": 0}
    DUMP["active"] = rec
    real_ser = self.serialize

    def ser(*sa, **skw):
        rec["in_ser"] += 1
        try:
            return real_ser(*sa, **skw)
        finally:
            rec["in_ser"] -= 1
    self.serialize = ser
    try:
        res = orig(self, *a, **kw)
        rec["events"].append("write")
        return res
    finally:
        DUMP["active"] = None
        try:
            del self.serialize
        except Exception:
            pass
        emit(self, "dump", {"cls": type(self).__name__, "top": rec["top"], "nested": rec["nested"], "failAt": rec["failAt"],
                            "disk0": "Old" if existed else "Absent", "events": rec["events"],
                            "points": rec.get("points", [])})


def _wrap_validator(cls, name):
    orig = cls.__dict__[name]

    @functools.wraps(orig)
    def w(self, *a, **kw):
        rec = DUMP["active"]
        if rec is None:
            return orig(self, *a, **kw)
        rec["n"] += 1
        idx = rec["n"]
        rec["nested" if rec["in_ser"] else "top"] += 1
        rec.setdefault("points", []).append("%s.%s" % (cls.__name__, name))
        try:
            if DUMP["inject"] == idx:
                raise (ValueError if idx % 2 else TypeError)("injected validation failure at point %d %s.%s" % (idx, cls.__name__, name))
            res = orig(self, *a, **kw)
        except BaseException:
            rec["events"].append("raise")
            rec["failAt"] = idx
            raise
        rec["events"].append("v")
        return res
    setattr(cls, name, w)


def install_dump():
    import builtins
    import inspect
    import productmd.common, productmd.composeinfo, productmd.images, productmd.rpms, productmd.modules  # noqa
    import productmd.extra_files, productmd.treeinfo, productmd.discinfo  # noqa
    mods = [productmd.common, productmd.composeinfo, productmd.images, productmd.rpms, productmd.modules,
            productmd.extra_files, productmd.treeinfo, productmd.discinfo]
    for mod in mods:
        for cname, cls in inspect.getmembers(mod, inspect.isclass):
            if cls.__module__ != mod.__name__:
                continue
            for name, fn in list(vars(cls).items()):
                if name.startswith("_validate") and callable(fn):
                    _wrap_validator(cls, name)
    wrap(productmd.common.MetadataBase, "dump", _dump_handler)
    # ... and every class that brings a dump() of its own (TreeInfo does at the pinned commit; others may come): the outermost
    # recorded call is the spec action, inner ones pass through (depth counter)
    for mod in mods:
        for cname, cls in inspect.getmembers(mod, inspect.isclass):
            if cls.__module__ == mod.__name__ and cls is not productmd.common.MetadataBase and "dump" in vars(cls) \
                    and issubclass(cls, productmd.common.MetadataBase):
                wrap(cls, "dump", _dump_handler)
    real_open = builtins.open

    def vopen(path, mode="r", *a, **kw):
        rec = DUMP["active"]
        if rec is not None and path == rec["path"] and "w" in mode:
            rec["events"].append("open")
        return real_open(path, mode, *a, **kw)
    builtins.open = vopen



# ------------------------------------------------------------------ rpms manifest (C12 / C03 / C10)
# Raw arguments and a small projection; the abstraction to the spec's vocabulary is done by harness/rpms_traces.py.

def _rpms_proj(m):
    try:
        return {"nv": len(m.rpms), "nt": sum(len(m.rpms[v]) for v in m.rpms),
                "n": sum(len(m.rpms[v][a][s]) for v in m.rpms for a in m.rpms[v] for s in m.rpms[v][a])}
    except Exception:
        return {"nv": -1, "nt": -1, "n": -1}


def _rpms_add(orig, self, a, kw):
    names = ("variant", "arch", "nevra", "path", "sigkey", "category", "srpm_nevra")
    args = dict(zip(names, a))
    args.update(kw)
    out, res, exc = call(orig, self, a, kw)
    ev = {"op": "add", "out": out, "args": {k: (args.get(k) if isinstance(args.get(k), (str, type(None))) else repr(args.get(k))) for k in names}}
    ev.update(_rpms_proj(self))
    if out == "ok":
        # what is stored for the call's own nevra, found by scanning for the stored path (no library parsing involved)
        try:
            tree = self.rpms[args["variant"]][args["arch"]]
            hits = [(s, r, d) for s in tree for r, d in tree[s].items() if d.get("path") == args.get("path")]
            ev["stored"] = [{"srpm": s, "rpm": r, "sigkey": d.get("sigkey"), "path": d.get("path"), "category": d.get("category")} for s, r, d in hits]
        except Exception:
            ev["stored"] = None
    emit(self, "rpms", ev)
    if exc is not None:
        raise exc
    return res


def _rpms_del(orig, self, a, kw):
    out, res, exc = call(orig, self, a, kw)
    ev = {"op": "del", "v": a[0] if a and isinstance(a[0], str) else repr(a[:1]), "out": out}
    ev.update(_rpms_proj(self))
    emit(self, "rpms", ev)
    if exc is not None:
        raise exc
    return res


def _rpms_deserialize(orig, self, a, kw):
    data = a[0] if a else kw.get("data")
    out, res, exc = call(orig, self, a, kw)
    ev = {"op": "load", "out": out}
    try:
        ev["ver"] = data["header"]["version"]
        if out == "ok" and "rpms" in data["payload"]:
            p = data["payload"]["rpms"]
            ev["doc"] = [{"v": v, "a": ar, "srpm": s, "rpm": r, "path": d.get("path"), "sigkey": d.get("sigkey"), "category": d.get("category")}
                         for v in p for ar in p[v] for s in p[v][ar] for r, d in p[v][ar][s].items()]
    except Exception:
        pass
    ev.update(_rpms_proj(self))
    emit(self, "rpms", ev)
    if exc is not None:
        raise exc
    return res


def install_rpms():
    import productmd.rpms as R
    wrap(R.Rpms, "add", _rpms_add)
    wrap(R.Rpms, "__delitem__", _rpms_del)
    wrap(R.Rpms, "deserialize", _rpms_deserialize)

# ------------------------------------------------------------------ modules / extra files (C12)
# Raw arguments and a snapshot of the whole (small) mapping after the call; abstraction in harness/builders_traces.py.

def _snap(x):
    return json.loads(json.dumps(x, default=repr))


def _mod_add(orig, self, a, kw):
    names = ("variant", "arch", "uid", "koji_tag", "modulemd_path", "category", "rpms")
    args = dict(zip(names, a))
    args.update(kw)
    out, res, exc = call(orig, self, a, kw)
    rl = args.get("rpms")
    logged = {k: (args.get(k) if isinstance(args.get(k), str) else repr(args.get(k))) for k in names[:-1]}
    for k in names[:-1]:
        if not isinstance(args.get(k), str):
            logged[k] = {"repr": repr(args.get(k))}          # not text: the abstraction stops here
    logged["rpms_is_seq"] = isinstance(rl, (list, tuple))
    logged["rpms"] = _snap(list(rl)) if isinstance(rl, (list, tuple)) else repr(rl)
    try:
        state = _snap(self.modules)
    except Exception:
        state = None
    emit(self, "builders", {"op": "modadd", "out": out, "args": logged, "state": state})
    if exc is not None:
        raise exc
    return res


def _xf_add(orig, self, a, kw):
    names = ("variant", "arch", "path", "size", "checksums")
    args = dict(zip(names, a))
    args.update(kw)
    out, res, exc = call(orig, self, a, kw)
    logged = {k: (args.get(k) if isinstance(args.get(k), str) else {"repr": repr(args.get(k))}) for k in names[:3]}
    logged["size"] = _snap(args.get("size"))
    logged["checksums_is_dict"] = isinstance(args.get("checksums"), dict)
    logged["checksums"] = _snap(args.get("checksums"))
    try:
        state = _snap(self.extra_files)
    except Exception:
        state = None
    emit(self, "builders", {"op": "xfadd", "out": out, "args": logged, "state": state})
    if exc is not None:
        raise exc
    return res


def _xf_treedump(orig, self, a, kw):
    import io
    names = ("output", "variant", "arch", "basepath")
    args = dict(zip(names, a))
    args.update(kw)
    real_out = args.get("output")
    buf = io.StringIO()
    a2 = (buf,) + tuple(a[1:]) if a else a
    kw2 = dict(kw)
    if "output" in kw2:
        kw2["output"] = buf
    out, res, exc = call(orig, self, a2, kw2)
    text = buf.getvalue()
    if real_out is not None and text:
        real_out.write(text)                       # the caller's file object gets exactly what the library wrote
    listed = None
    if out == "ok":
        try:
            listed = json.loads(text)["data"]
        except Exception:
            out = "unreadable output"
    try:
        state = _snap(self.extra_files)
    except Exception:
        state = None
    emit(self, "builders", {"op": "treedump", "out": out, "listed": listed, "state": state,
                            "args": {"variant": args.get("variant") if isinstance(args.get("variant"), str) else {"repr": repr(args.get("variant"))},
                                     "arch": args.get("arch") if isinstance(args.get("arch"), str) else {"repr": repr(args.get("arch"))},
                                     "base": args.get("basepath") if isinstance(args.get("basepath"), str) else {"repr": repr(args.get("basepath"))}}})
    if exc is not None:
        raise exc
    return res


def install_builders():
    import productmd.modules as M
    import productmd.extra_files as X
    wrap(M.Modules, "add", _mod_add)
    wrap(X.ExtraFiles, "add", _xf_add)
    wrap(X.ExtraFiles, "dump_for_tree", _xf_treedump)

# ------------------------------------------------------------------ install / flush

INSTALLERS = [install_images, install_forest, install_dump, install_rpms, install_builders]


def install():
    if _INSTALLED[0] or os.environ.get("PRODUCTMD_VERIF") != "1":
        return
    _INSTALLED[0] = True
    for fn in INSTALLERS:
        fn()
    atexit.register(flush)


def flush():
    path = os.environ.get("PRODUCTMD_VERIF_TRACE")
    if not path:
        return
    out = {}
    for family, traces in TRACES.items():
        out[family] = [{"tid": t, "events": evs} for t, evs in traces.items() if evs]
    out["forest_objs"] = FOREST_OBJS
    with open(path, "w") as fh:
        json.dump(out, fh)


install()
