"""Apalache (symbolic model checker for TLA+) as a second engine for the small integer specifications: inductive invariants
for UNBOUNDED constants where TLC decides the same facts up to a bound.  A run that does not come back in time is reported
as such in the evidence and decides nothing (TLC's bounded result stands); a run that comes back with the wrong verdict is a
machinery error."""
import concurrent.futures
import os
import re
import shutil
import subprocess
import tempfile

from . import core


def run(module, init, inv, length, next_="Next", timeout=240):
    exe = shutil.which("apalache-mc")
    if exe is None:
        return "unavailable"
    out = tempfile.mkdtemp(prefix="verif-apa-")
    try:
        cmd = [exe, "check", "--init=" + init, "--next=" + next_, "--inv=" + inv, "--length=%d" % length, "--out-dir=" + out,
               "--run-dir=" + os.path.join(out, "run"), module + ".tla"]
        try:
            p = subprocess.run(cmd, cwd=core.SPEC_DIR, capture_output=True, text=True, timeout=timeout)
        except subprocess.TimeoutExpired:
            return "timeout"
        m = re.search(r"The outcome is: (\w+)", p.stdout)
        if not m:
            return "failed: " + (p.stdout + p.stderr).strip()[-300:]
        return m.group(1)
    finally:
        shutil.rmtree(out, ignore_errors=True)


def obligations(ctx, jobs, timeout=240):
    """jobs: [(label, module, init, inv, length, expected outcome)].  Runs them side by side; returns {label: outcome}."""
    res = {}
    with concurrent.futures.ThreadPoolExecutor(max_workers=4) as ex:
        futs = {ex.submit(run, m, i, v, n, "Next", timeout): (label, exp) for label, m, i, v, n, exp in jobs}
        for f, (label, exp) in futs.items():
            got = f.result()
            res[label] = got
            if got in ("unavailable", "timeout") or got.startswith("failed"):
                continue
            if got != exp:
                raise core.MachineryError("Apalache obligation %s: expected %s, got %s" % (label, exp, got))
    ctx.notes["apalache"] = res
    return res
