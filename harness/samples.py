"""Valid sample objects of the seven formats (several shapes each), built through the public API.
Used by C18 (dump protocol), C06/C07 (single-field corruptions), C08, C20."""

FORMATS = ["composeinfo", "images", "rpms", "modules", "extra_files", "treeinfo", "discinfo"]


def set_compose(c, label=None, final=False, ctype="production", respin=0):
    c.id = "Fedora-22-20150522%s.%d" % ({"production": "", "nightly": ".n", "test": ".t", "ci": ".ci", "development": ".d"}[ctype], respin)
    c.type = ctype
    c.date = "20150522"
    c.respin = respin
    c.label = label
    c.final = final


def composeinfo(shape=0):
    from productmd.composeinfo import ComposeInfo, Variant
    ci = ComposeInfo()
    ci.release.name = "Fedora"
    ci.release.short = "F"
    ci.release.version = "22" if shape != 2 else "rawhide"
    ci.release.type = "ga" if shape == 0 else "updates"
    ci.release.internal = (shape == 2)
    set_compose(ci.compose, label="RC-1.0" if shape >= 1 else None, final=(shape == 1), ctype=["production", "nightly", "test"][shape % 3])
    if shape >= 1:
        ci.release.is_layered = True
        ci.base_product.name = "Red Hat Enterprise Linux"
        ci.base_product.short = "RHEL"
        ci.base_product.version = "7"
        ci.base_product.type = "ga"

    def var(vid, uid, vtype, arches, parent=None):
        v = Variant(ci)
        v.id, v.uid, v.name, v.type, v.arches = vid, uid, "Pretty " + uid, vtype, set(arches)
        if vtype == "layered-product":
            v.release.name, v.release.short, v.release.version, v.release.type = "Satellite", "SAT", "6.0", "ga"
        for a in arches:
            v.paths.os_tree[a] = "%s/%s/os" % (uid, a)
            v.paths.packages[a] = "%s/%s/os/Packages" % (uid, a)
            if shape >= 1:
                v.paths.debug_repository[a] = "%s/%s/debug" % (uid, a)
        (parent if parent is not None else ci.variants).add(v)
        return v
    s = var("Server", "Server", "variant", ["x86_64", "ppc64le"])
    o = var("optional", "Server-optional", "optional", ["x86_64"], s)
    if shape >= 1:
        var("HA", "Server-HA", "addon", ["x86_64", "ppc64le"], s)
        var("Deep", "Server-optional-Deep", "addon", ["x86_64"], o)
        c = var("Client", "Client", "variant", ["x86_64"])
        var("SAT", "Client-SAT", "layered-product", ["x86_64"], c)
    if shape == 2:
        var("ServerTools", "Server-Tools", "variant", ["x86_64"])
    return ci


def image(m, path="Server/x86_64/iso/boot.iso", itype="boot", fmt="iso", arch="x86_64", disc=1, subvariant="Server", unified=False,
          av=(), sums=None, volume_id="Fedora-22", implant="a" * 32):
    from productmd.images import Image
    i = Image(m)
    i.path, i.mtime, i.size, i.volume_id, i.type, i.format, i.arch = path, 1432300000, (1 << 33) + 7, volume_id, itype, fmt, arch
    i.disc_number, i.disc_count, i.checksums, i.implant_md5 = disc, 2, dict(sums or {"sha256": "b" * 64}), implant
    i.bootable, i.subvariant, i.unified, i.additional_variants = True, subvariant, unified, list(av)
    return i


def images(shape=0):
    from productmd.images import Images
    m = Images()
    set_compose(m.compose, label="Beta-1.2" if shape else None, final=bool(shape))
    m.add("Server", "x86_64", image(m))
    m.add("Server", "x86_64", image(m, path="Server/x86_64/iso/dvd.iso", itype="dvd", sums={"md5": "c" * 32, "sha256": "d" * 64},
                                    volume_id=None, implant=None))
    if shape >= 1:
        u = image(m, path="Server/x86_64/iso/unified.iso", itype="dvd", disc=2, unified=True, av=["Client", "Workstation"])
        m.add("Server", "x86_64", u)
        if shape == 2:
            # the manifest as a reader produces it: one Image object per listed record, so a unified image
            # filed under several variants/arches is several distinct objects with the same path
            u = image(m, path="Server/x86_64/iso/unified.iso", itype="dvd", disc=2, unified=True, av=["Client", "Workstation"])
        m.add("Client", "x86_64", u)
        m.add("Client", "ppc64le", image(m, path="Client/ppc64le/images/disk.qcow2", itype="qcow2", fmt="qcow2", arch="ppc64le",
                                          subvariant="Cloud"))
    if shape == 3:
        # near-twins filed under DIFFERENT arch keys: images that differ in exactly one identifying attribute (here: the
        # aarch64 dvd and the x86_64 dvd of every shape)
        m.add("Server", "aarch64", image(m, path="Server/aarch64/iso/dvd.iso", itype="dvd", arch="aarch64", sums={"sha256": "1" * 64}))
        # source media: filed under every binary arch; disc 1 listed under x86_64, disc 2 under aarch64
        m.add("Server", "x86_64", image(m, path="Server/source/iso/src1.iso", itype="dvd", arch="src", disc=1, sums={"sha256": "3" * 64}))
        m.add("Server", "aarch64", image(m, path="Server/source/iso/src2.iso", itype="dvd", arch="src", disc=2, sums={"sha256": "4" * 64}))
    return m


def rpms(shape=0):
    from productmd.rpms import Rpms
    m = Rpms()
    set_compose(m.compose, label="Alpha-0.1" if shape else None)
    m.add("Server", "x86_64", "bash-0:4.3-1.fc22.x86_64", "Server/x86_64/os/Packages/b/bash.rpm", "F5282EE4", "binary", "bash-0:4.3-1.fc22.src")
    m.add("Server", "x86_64", "bash-0:4.3-1.fc22.src", "Server/source/SRPMS/b/bash.src.rpm", None, "source")
    if shape:
        m.add("Server", "ppc64le", "bash-debuginfo-0:4.3-1.fc22.ppc64le", "Server/ppc64le/debug/bash-debuginfo.rpm", None, "debug", "bash-0:4.3-1.fc22.src")
    return m


def modules(shape=0):
    from productmd.modules import Modules
    m = Modules()
    set_compose(m.compose)
    m.add("Server", "x86_64", "httpd:2.4:20180629:c2c572ec", "module-httpd", "Server/x86_64/os/repodata/modules.yaml", "binary",
          ["httpd-0:2.4.6-80.x86_64"])
    if shape:
        m.add("Server", "x86_64", "perl:5.26", "module-perl", "Server/x86_64/debug/modules.yaml", "debug", [])
    return m


def extra_files(shape=0):
    from productmd.extra_files import ExtraFiles
    m = ExtraFiles()
    set_compose(m.compose)
    m.add("Server", "x86_64", "Server/x86_64/os/GPL", 18092, {"sha256": "e" * 64})
    if shape:
        m.add("Server", "x86_64", "Server/x86_64/os/EULA", 1 << 33, {"md5": "f" * 32, "sha1": "0" * 40})
    return m


def treeinfo(shape=0):
    from productmd.treeinfo import TreeInfo, Variant
    t = TreeInfo()
    t.release.name = "Fedora"
    t.release.short = "F"
    t.release.version = "22"
    if shape == 2:
        t.release.is_layered = True
        t.base_product.name = "Red Hat Enterprise Linux"
        t.base_product.short = "RHEL"
        t.base_product.version = "7"
    t.tree.arch = "x86_64" if shape != 3 else "src"
    t.tree.build_timestamp = 1432300000
    t.tree.platforms = set([t.tree.arch, "xen"]) if shape else set([t.tree.arch])

    def var(vid, uid, vtype, parent=None):
        v = Variant(t)
        v.id, v.uid, v.name, v.type = vid, uid, vid, vtype
        if t.tree.arch == "src":
            v.paths.source_packages = "%s/Packages" % uid
            v.paths.source_repository = uid
        else:
            v.paths.packages = "%s/Packages" % uid
            v.paths.repository = uid
        if parent is None:
            t.variants.add(v, variant_id=uid)
        else:
            parent.add(v)
        return v
    s = var("Server", "Server", "variant")
    if shape:
        var("HA", "Server-HA", "addon", s)
        var("Client", "Client", "variant")
    if shape and t.tree.arch != "src":
        t.images.images = {"x86_64": {"boot.iso": "images/boot.iso", "kernel": "images/pxeboot/vmlinuz"},
                           "xen": {"kernel": "images/pxeboot/vmlinuz"}}
        t.stage2.mainimage = "images/install.img"
        t.stage2.instimage = "images/inst.img"
        t.media.discnum = 1
        t.media.totaldiscs = 2
        t.checksums.add("images/boot.iso", "sha256", "1" * 64)
        t.checksums.add("images/pxeboot/vmlinuz", "md5", "2" * 32)
    return t


def discinfo(shape=0):
    from productmd.discinfo import DiscInfo
    d = DiscInfo()
    d.timestamp = 1432300000.123456 if shape == 0 else 1386856788.124593
    d.description = "Fedora 22"
    d.arch = "x86_64"
    d.disc_numbers = ["ALL"] if shape == 0 else [1, 2]
    return d


NSHAPES = {"composeinfo": 3, "images": 4, "rpms": 2, "modules": 2, "extra_files": 2, "treeinfo": 4, "discinfo": 2}


def build(fmt, shape=0):
    return globals()[fmt](shape)
