"""Binding between RpmsManifest.tla behaviours and the real productmd.rpms.Rpms."""
import json
import zlib

NAMESETS = [
    {"b1": "foo-bar-1:2.3-4.el7.x86_64", "d1": "foo-bar-debuginfo-1:2.3-4.el7.x86_64", "b2": "lib3-devel-0:1.0.0-1.fc22.noarch",
     "s1": "foo-bar-1:2.3-4.el7.src", "s2": "lib3-0:1.0.0-1.fc22.src", "n1": "blob-0:9-9.nosrc"},
    {"b1": "7zip-12:9.20~rc1-3.i686", "d1": "7zip-debugsource-12:9.20~rc1-3.i686", "b2": "a+b_c.d-2-0:2^git1-0.1.s390x",
     "s1": "7zip-12:9.20~rc1-3.src", "s2": "a+b_c.d-0:2^git1-0.1.nosrc", "n1": "x-0:1-1.src"},
    # package arches whose last letters are those of the ".rpm" suffix
    {"b1": "arm-boot-0:1.0-1.fc40.armhfp", "d1": "arm-boot-debugsource-0:1.0-1.fc40.armhfp", "b2": "libm-2:3-4.rpm.armhfp",
     "s1": "arm-boot-0:1.0-1.fc40.src", "s2": "libm-2:3-4.rpm.src", "n1": "firm.rpm-0:1-1.nosrc"},
]
ARCHSETS = [{"bin1": "x86_64", "bin2": "ppc64le"}, {"bin1": "noarch", "bin2": "aarch64"}, {"bin1": "s390x", "bin2": "i386"}]
PATHS = {"rel1": "Server/x86_64/os/Packages/f/pkg.rpm", "rel2": "Packages/other.rpm", "abs": "/mnt/koji/pkg.rpm", "empty": "", "int": 5}
SIGS = {"null": None, "lower": "246110c1", "mixed": "F5282Ee4", "int": 5}
SIGS_STORED = {"null": None, "lower": "246110c1", "mixedlower": "f5282ee4"}
COMPOSE = {"id": "Fedora-22-20150522.0", "type": "production", "date": "20150522", "respin": 0}


def render_name(tok, form, names):
    s = names[tok]
    if form == "canon":
        return s
    if form == "rpm":
        return s + ".rpm"
    if form == "dir":
        return "Packages/f/" + s
    if form == "dirrpm":
        # ... with the epoch spelled with a leading zero (a number: the canonical form has none)
        n, rest = s.split(":", 1)
        name, ep = n.rsplit("-", 1)
        return "/mnt/koji/Packages/" + name + "-0" + ep + ":" + rest + ".rpm"
    if form == "noepoch":
        n, rest = s.split(":", 1)
        return n.rsplit("-", 1)[0] + "-" + rest
    if form == "unparsable":
        return "foo:bar"
    if form == "dircolon":
        n, rest = s.split(":", 1)
        return "http://mirror/Packages/" + n.rsplit("-", 1)[0] + "-" + rest + ".rpm"
    if form == "relcolon":
        n, rest = s.split(":", 1)
        v, ra = rest.rsplit("-", 1)
        return n.rsplit("-", 1)[0] + "-" + v + "-" + ra.replace(".", ":x.", 1)
    if form == "colonjunk":
        return "nodashes:1.0.x86_64"
    raise KeyError(form)


def arch_of(tok, arches, rot):
    if tok in arches:
        return arches[tok]
    if tok == "unknown":
        return ["x86-64", "bogus", "SRC", ""][rot % 4]
    return tok


def new_rpms():
    from productmd.rpms import Rpms
    m = Rpms()
    for k, v in COMPOSE.items():
        setattr(m.compose, k, v)
    return m


def expected_map(flat, names, arches):
    out = {}
    for e in flat:
        cell = out.setdefault(e["v"], {}).setdefault(arches.get(e["a"], e["a"]), {}).setdefault(names[e["srpm"]], {})
        cell[names[e["rpm"]]] = {"path": PATHS[e["path"]], "sigkey": SIGS_STORED[e["sigkey"]], "category": e["category"]}
    return out


def doc03_text(doc, names, arches, spelling="canon"):
    """spelling: how package keys are written in the document ("canon" | "rpm" = with the .rpm suffix that
    parse_nvra accepts); the same raw string is used in the binary tables and in the src table."""
    if spelling == "rpm":
        names = {k: v + ".rpm" for k, v in names.items()}
    man = {}
    for e in doc:
        a = arches.get(e["a"], e["a"])
        data = {"path": PATHS[e["path"]], "sigkey": SIGS[e["sigkey"]], "type": e["type"]}
        if a == "src":
            # the 0.3 reader (the only description of this layout) looks a source package up as manifest[variant]["src"][srpm]
            man.setdefault(e["v"], {}).setdefault(a, {})[names[e["srpm"]]] = data
        else:
            man.setdefault(e["v"], {}).setdefault(a, {}).setdefault(names[e["srpm"]], {})[names[e["rpm"]]] = data
    return json.dumps({"header": {"version": "0.3"}, "payload": {"compose": dict(COMPOSE), "manifest": man}})


def replay(case):
    import copy
    rot = case.get("rot", 0)
    names = NAMESETS[rot % len(NAMESETS)]
    arches = ARCHSETS[(rot // len(NAMESETS)) % len(ARCHSETS)]
    focus = case.get("focus", "C12")
    # the sibling builders of the same process accept source tree arches (documented there): what they saw must not
    # change what Rpms.add accepts
    try:
        from productmd.extra_files import ExtraFiles
        from productmd.modules import Modules
        xf, mm = ExtraFiles(), Modules()
        for a in ("src", "nosrc"):
            xf.add("V", a, "Server/source/GPL", 1, {"md5": "0" * 32})
            mm.add("V", a, "mod:1", "tag", "p/modules.yaml", "binary", [])
    except Exception:
        pass
    m = new_rpms()
    fails = []
    for step, ev in enumerate(case["hist"]):
        before = copy.deepcopy(m.rpms)
        out, exc = "ok", None
        try:
            if ev["op"] == "add":
                if rot % 2:
                    # the caller looked the name up with the public parser first and edited what it got (deriving a sibling package)
                    try:
                        import productmd.common
                        d = productmd.common.parse_nvra(render_name(ev["r"], ev["form"], names))
                        d["name"], d["epoch"], d["arch"] = d["name"] + "-debuginfo", 99, "src"
                    except ValueError:
                        pass
                m.add(ev["v"], arch_of(ev["a"], arches, rot), render_name(ev["r"], ev["form"], names), PATHS[ev["path"]],
                      SIGS[ev["sig"]], "package" if ev["cat"] == "invalid" else ev["cat"],
                      None if ev["srpm"] == "none" else ("" if ev["srpm"] == "empty" else render_name(ev["srpm"], ev["sform"], names)))
            elif ev["op"] == "del":
                del m[ev["v"]]
            elif ev["op"] == "reload":
                m.loads(m.dumps())
            else:
                from productmd.rpms import Rpms
                m2 = Rpms()
                if rot % 2:
                    # the object has read a current-layout manifest before (stored as given - here with a 'src' tree, as other
                    # tools wrote them): reading the 0.3 document replaces that content
                    m2.loads(json.dumps({"header": {"version": "1.1", "type": "productmd.rpms"}, "payload": {"compose": dict(COMPOSE), "rpms": {
                        "Old": {"src": {"old-0:1-1.src": {"old-0:1-1.src": {"path": "Old/source/old.src.rpm", "sigkey": None, "category": "source"}}}}}}}))
                m2.loads(doc03_text(ev["doc"], names, arches, "rpm" if rot % 3 == 2 else "canon"))
                if rot % 2 == 0:
                    # the same document read once more into the same object: the same content, not what was left of it
                    m2.loads(doc03_text(ev["doc"], names, arches, "rpm" if rot % 3 == 2 else "canon"))
                m = m2
        except (ValueError, TypeError) as e:
            out, exc = "refused", e
        except Exception as e:
            out, exc = type(e).__name__, e
        if out != "ok" and ev["op"] in ("del", "reload") and m.rpms != before:
            fails.append("step %d %s: failed with %s but changed the mapping" % (step, _ev(ev), out))
            return fails
        if out != ev["out"]:
            if focus in ("C12", "C10", "C03"):
                fails.append("step %d %s: model %s, code %s%s" % (step, _ev(ev), ev["out"], out,
                                                                  " (%s)" % exc if exc is not None else ""))
            return fails
        if out != "ok" and m.rpms != before and ev["op"] == "add":
            if focus in ("C12", "C10"):
                fails.append("step %d %s: refused add changed the mapping" % (step, _ev(ev)))
            return fails
    # what a consumer does before writing: looks trees up that may not be there (KeyError is the answer then)
    for v in list(m.rpms) + ["NoSuchVariant"]:
        for a in ("src", "nosrc", "x86-64", arches["bin2"]):
            for look in (lambda: m[v][a], lambda: m.rpms[v][a], lambda: "x" in m.rpms[v][a], lambda: m.rpms[v].get(a)):
                try:
                    look()
                except (KeyError, TypeError):
                    pass
    exp = expected_map(case["rpms"], names, arches)
    if m.rpms != exp:
        if focus in ("C12", "C10", "C03"):
            fails.append("mapping after %s differs: model %s ; code %s" % ("; ".join(_ev(e) for e in case["hist"]),
                                                                          json.dumps(exp, sort_keys=True), json.dumps(m.rpms, sort_keys=True)))
        return fails
    import productmd.common
    for v in m.rpms:
        for a in m.rpms[v]:
            if a in ("src", "nosrc") or a not in productmd.common.RPM_ARCHES:
                fails.append("source/unknown arch key %s/%s after %s" % (v, a, "; ".join(_ev(e) for e in case["hist"])))
    if focus in ("C03", "C10") and case["rpms"]:
        fails += cycle(m, exp, "rpms", focus)
    return fails


def cycle(m, exp, attr, focus):
    """write / independent parse / read / rewrite."""
    fails = []
    try:
        text = m.dumps()
    except Exception as exc:
        return ["manifest built by valid adds cannot be written: %s: %s" % (type(exc).__name__, exc)]
    doc = json.loads(text)
    if doc["payload"][attr] != exp:
        fails.append("written payload differs from the mapping built: %s vs %s" % (json.dumps(doc["payload"][attr], sort_keys=True)[:300],
                                                                                 json.dumps(exp, sort_keys=True)[:300]))
    if doc["header"].get("type") != "productmd." + {"rpms": "rpms", "modules": "modules", "extra_files": "extra_files"}[attr]:
        fails.append("header type %r" % doc["header"].get("type"))
    if doc["payload"].get("compose") != COMPOSE:
        fails.append("compose section not intact: %s" % doc["payload"].get("compose"))
    if attr == "rpms":
        for v in doc["payload"]["rpms"]:
            for a in doc["payload"]["rpms"][v]:
                if a in ("src", "nosrc"):
                    fails.append("dumped payload has source arch key %s/%s" % (v, a))
    m2 = type(m)()
    try:
        m2.loads(text)
    except Exception as exc:
        return fails + ["written manifest cannot be read back: %s: %s" % (type(exc).__name__, exc)]
    if getattr(m2, attr) != exp:
        fails.append("re-read mapping differs: %s" % json.dumps(getattr(m2, attr), sort_keys=True)[:300])
    c = m2.compose
    if (c.id, c.type, c.date, c.respin, c.label) != (COMPOSE["id"], COMPOSE["type"], COMPOSE["date"], COMPOSE["respin"], None):
        fails.append("re-read compose section differs")
    if m2.dumps() != text:
        fails.append("second dump is not byte-identical")
    # reading the file into an object that already holds entries (the builder itself) gives the file's mapping, too
    try:
        m.loads(text)
        if getattr(m, attr) != exp:
            fails.append("file read into the object that built it gives a different mapping: %s" % json.dumps(getattr(m, attr), sort_keys=True)[:300])
        elif m.dumps() != text:
            fails.append("file read into the object that built it is re-written differently")
    except Exception as exc:
        fails.append("file cannot be read into the object that built it: %s: %s" % (type(exc).__name__, exc))
    if text != json.dumps(json.loads(text), indent=4, sort_keys=True, separators=(",", ": ")):
        fails.append("dump is not canonical JSON (sorted keys, indent 4)")
    if not fails and zlib.crc32(text.encode("utf-8")) % 3 == 0:
        # the same cycle through real files: fresh path, a path holding a longer file, an open file object
        from . import core

        def reload(src):
            o = type(m)()
            o.load(src)
            return o.dumps()
        fails += core.file_cycle(m, text, "manifest", attr + ".json", reload=reload)
        fails += core.dict_cycle(m, text, "manifest")
    return fails


def _ev(e):
    if e["op"] == "add":
        return "add(%s,%s,%s/%s,%s,%s,%s,srpm=%s/%s)" % (e["v"], e["a"], e["r"], e["form"], e["path"], e["sig"], e["cat"], e["srpm"], e["sform"])
    if e["op"] == "del":
        return "del[%s]" % e["v"]
    if e["op"] == "reload":
        return "loads(dumps())"
    return "load03(%d entries)" % len(e["doc"])
