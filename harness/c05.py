"""C05 Older format versions are upgraded faithfully and idempotently (Upgrade.tla + the document specs)."""
import copy
import glob
import io
import json
import os

from . import core, ci_adapter, ti_adapter, rpms_adapter, samples
from . import c01, c02, c04, c12

VERSTR = {0: "0.0", 2: "0.2", 3: "0.3", 100: "1.0", 101: "1.1", 102: "1.2"}


def current():
    import productmd.common
    return ".".join(str(i) for i in productmd.common.VERSION)


def has(steps, op, path):
    return any(s["op"] == op and s["path"] == path for s in steps)


def idempotence(cls, obj, what, expected_type):
    """Loaded object -> current version + proper type; reload identical; second write byte-identical."""
    fails = []
    if obj.header.version != current():
        fails.append("%s: header.version after load is %r, not the current %s" % (what, obj.header.version, current()))
    try:
        text = obj.dumps()
    except Exception as exc:
        return ["%s: upgraded object cannot be written: %s: %s" % (what, type(exc).__name__, exc)], None
    if cls.__name__ == "TreeInfo":
        hdr = ti_adapter.ini_parse(text).get("header", {})
    else:
        hdr = json.loads(text)["header"]
    if hdr.get("version") != current() or hdr.get("type") != expected_type:
        fails.append("%s: written header %s, expected version %s type %s" % (what, hdr, current(), expected_type))
    gaps = layout_gaps(cls.__name__, text)
    if gaps:
        fails.append("%s: the file written after the upgrade is not a complete current-version file: documented key(s) missing: %s"
                     % (what, ", ".join(gaps[:6])))
    again = cls()
    try:
        again.loads(text)
    except Exception as exc:
        return fails + ["%s: the file written after the upgrade cannot be re-read: %s: %s" % (what, type(exc).__name__, exc)], text
    if cls.__name__ == "TreeInfo":
        # "re-loading that file gives an identical object": compare the upgraded object with the re-loaded one, strictly
        for sec, attrs in (("tree", ("arch", "build_timestamp", "platforms")), ("release", ("name", "short", "version", "is_layered")),
                           ("stage2", ("mainimage", "instimage")), ("media", ("discnum", "totaldiscs"))):
            for at in attrs:
                if getattr(getattr(obj, sec), at) != getattr(getattr(again, sec), at):
                    fails.append("%s: %s.%s is %r after the upgrade but %r after re-loading the written file (conversion not complete on load)"
                                 % (what, sec, at, getattr(getattr(obj, sec), at), getattr(getattr(again, sec), at)))
        if sorted(ti_adapter.flat_variants(obj)) != sorted(ti_adapter.flat_variants(again)) or obj.images.images != again.images.images:
            fails.append("%s: variants / image tables differ between the upgraded and the re-loaded object" % what)
    try:
        if again.dumps() != text:
            fails.append("%s: second write is not byte-identical (conversion did not happen exactly once)" % what)
    except Exception as exc:
        fails.append("%s: re-read object cannot be written: %s: %s" % (what, type(exc).__name__, exc))
    return fails, text


# keys every current-version file has according to doc/*-1.x.rst (optional ones - label, final, base product, stage2, media,
# checksums, image tables - left out); frozen here, not read from the library
IMAGE_KEYS = ("arch", "bootable", "checksums", "disc_count", "disc_number", "format", "implant_md5", "mtime", "path", "size",
              "subvariant", "type", "volume_id")
TI_KEYS = {"header": ("version", "type"), "release": ("name", "short", "version"), "tree": ("arch", "build_timestamp", "platforms", "variants"),
           "general": ("family", "version", "name", "arch", "platforms", "timestamp", "variant", "variants")}


def layout_gaps(cls_name, text):
    gaps = []

    def need(where, node, keys):
        for k in keys:
            if not isinstance(node, dict) or k not in node:
                gaps.append("%s/%s" % (where, k))
    if cls_name == "TreeInfo":
        ini = ti_adapter.ini_parse(text)
        for sec, keys in TI_KEYS.items():
            if sec == "general" and not ini.get("tree", {}).get("variants", "x"):
                keys = tuple(k for k in keys if k != "variant")          # a tree without variants has no main variant to name
            need("[%s]" % sec, ini.get(sec), keys)
        for sec in ini:
            if sec.startswith("variant-"):
                need("[%s]" % sec, ini[sec], ("id", "uid", "name", "type"))
        return gaps
    doc = json.loads(text)
    need("header", doc.get("header"), ("version", "type"))
    pay = doc.get("payload", {})
    need("payload/compose", pay.get("compose"), ("id", "type", "date", "respin"))
    if cls_name == "ComposeInfo":
        need("payload/release", pay.get("release"), ("name", "short", "version", "type", "internal"))
        for uid, v in pay.get("variants", {}).items():
            need("payload/variants/%s" % uid, v, ("id", "uid", "name", "type", "arches", "paths"))
    elif cls_name == "Images":
        for v, arches in pay.get("images", {}).items():
            for a, lst in arches.items():
                for i, rec in enumerate(lst):
                    need("payload/images/%s/%s/%d" % (v, a, i), rec, IMAGE_KEYS)
    elif cls_name == "Rpms":
        for v, arches in pay.get("rpms", {}).items():
            for a, srpms in arches.items():
                for sk, rpms in srpms.items():
                    for rk, rec in rpms.items():
                        need("payload/rpms/%s/%s/%s/%s" % (v, a, sk, rk), rec, ("path", "sigkey", "category"))
    return gaps


# compose sections of manifests: these versions carry date, type and respin explicitly, so they are facts of the document
# even when the (free-form) compose ID spells something else
OLD_COMPOSES = [{"id": "Fedora-22-20150522.0", "type": "production", "date": "20150522", "respin": 0},
                {"id": "Fedora-22-20150522.0", "type": "test", "date": "20150523", "respin": 3},
                {"id": "Snap-20240101-20240315.n.2", "type": "nightly", "date": "20240315", "respin": 2, "label": "RC-1.2"}]


def compose_facts(what, got, comp):
    fails = []
    for k in ("id", "type", "date", "respin"):
        if getattr(got, k) != comp[k]:
            fails.append("%s: compose.%s: document %r, upgraded object %r" % (what, k, comp[k], getattr(got, k)))
    if (got.label or None) != comp.get("label"):
        fails.append("%s: compose.label: document %r, upgraded object %r" % (what, comp.get("label"), got.label))
    return fails


# ------------------------------------------------------------------ composeinfo

def eval_composeinfo(case):
    from productmd.composeinfo import ComposeInfo
    conc = ci_adapter.Conc(case.get("rot", 0))
    obj, steps, ver = case["obj"], case["steps"], case["ver"]
    what = "composeinfo %s down-converted from %s" % (VERSTR[ver], json.dumps({"nodes": [[n["path"], n["type"]] for n in obj["nodes"]],
                                                                              "dashed": obj["dashed"], "sec": obj["sec"]}, sort_keys=True)[:400])
    ci = ci_adapter.build(obj, conc)
    doc = json.loads(ci.dumps())
    exp = ci_adapter.build(obj, conc)
    exp.compose.id = ci.compose.id
    pay = doc["payload"]
    doc["header"]["version"] = VERSTR[ver]
    if has(steps, "drop", "header/type"):
        del doc["header"]["type"]
    rels = [pay["release"]] + [v["release"] for v in pay["variants"].values() if "release" in v]
    if has(steps, "drop", "release/type"):
        for r in rels:
            r.pop("type", None)
        exp.release.type = "ga"
        for n in obj["nodes"]:
            if n["type"] == "layered-product":
                exp[conc.uid(n["path"])].release.type = "ga"
    if has(steps, "drop", "base_product/type") and "base_product" in pay:
        pay["base_product"].pop("type", None)
        exp.base_product.type = "ga"
    if has(steps, "drop", "release/internal"):
        for r in rels:
            r.pop("internal", None)
        exp.release.internal = False
    if case.get("rot", 0) % 2:
        # 'is_layered' is optional in a release dictionary (<bool=false>); a layered-product variant's release is layered
        # whether or not the file spells it out
        for v in pay["variants"].values():
            if "release" in v:
                v["release"].pop("is_layered", None)
    if has(steps, "layout", "variants"):
        for v in pay["variants"].values():
            v.pop("variants", None)
    if has(steps, "rename", "payload/release"):
        pay["product"] = pay.pop("release")
        for v in pay["variants"].values():
            if "release" in v:
                v["product"] = v.pop("release")
    if has(steps, "drop", "compose/date"):
        idform = obj["sec"].get("idform", "derived")
        if idform == "nodash":
            return ["rejected"] if case.get("probe") else []     # these versions derive the facts from a conventional ID: not expressible
        pay["compose"].pop("date", None)
        pay["compose"].pop("respin", None)
        pay["compose"]["type"] = "production" if pay["compose"]["type"] != "production" else "test"     # stale: the id decides
        if idform == "othertype":
            # what the ID spells is what such a document says
            exp.compose.type = "production" if obj["sec"]["ctype"] == "nightly" else "nightly"
            exp.compose.respin = ci_adapter.RESPIN[obj["sec"]["respin"]] + 1
    old = ComposeInfo()
    try:
        old.loads(json.dumps(doc))
    except Exception as exc:
        if case.get("probe"):
            return ["rejected"]
        # the prefix-derived reader of pre-1.0 files cannot express three levels: such documents are not accepted and
        # are outside the claim; every other down-converted document must be accepted
        deep = ver < 100 and any(len(n["path"]) > 2 for n in obj["nodes"])
        return [] if deep else ["%s: document of a supported older version rejected: %s: %s" % (what, type(exc).__name__, exc)]
    if case.get("probe"):
        return ["accepted"]
    fails = ["%s: %s" % (what, f) for f in ci_adapter.check_reread(obj, conc, exp, old)]
    for n in obj["nodes"]:
        if n["type"] == "layered-product" and old[conc.uid(n["path"])].release.is_layered is not True:
            fails.append("%s: the release of layered-product variant %s is loaded with is_layered=%r (writing then turns it into True: "
                         "the loaded and the re-loaded object differ)" % (what, conc.uid(n["path"]), old[conc.uid(n["path"])].release.is_layered))
    f2, _ = idempotence(ComposeInfo, old, what, "productmd.composeinfo")
    return (fails + f2)[:6]


def accepted_composeinfo(case):
    """Vacuity probe: is the down-converted document accepted at all?"""
    return []


# ------------------------------------------------------------------ images

def eval_images(case):
    from productmd.images import Images
    conc = c02.Conc(case.get("rot", 0))
    steps, ver, pool = case["steps"], case["ver"], case["pool"]
    what = "images %s down-converted from %s" % (VERSTR[ver], json.dumps(sorted((c["v"], c["a"], sorted(c["imgs"])) for c in case["obj"])))
    images = {}
    exp = {}
    for c in case["obj"]:
        v, a = conc.vars[c["v"]], conc.arch[c["a"]]
        for n in c["imgs"]:
            f = conc.fields(n, pool[n])
            if case.get("subvariant_pair") and n == "p5":
                # differs from p1 ONLY in what 'subvariant' distinguishes (and in path / checksums)
                g = conc.fields("p1", pool["p1"])
                f = dict(g, path=f["path"], checksums=f["checksums"], subvariant="Sub p5")
            d = dict(f)
            e = dict(f)
            if not d["unified"]:
                d.pop("unified")
                d.pop("additional_variants")
            if has(steps, "drop", "image/subvariant"):
                d.pop("subvariant")
                e["subvariant"] = ""
            images.setdefault(v, {}).setdefault(a, []).append(d)
            exp.setdefault((v, a), {})[f["path"]] = e
    comp = OLD_COMPOSES[case.get("rot", 0) % len(OLD_COMPOSES)]
    doc = {"header": {"version": VERSTR[ver], "type": "productmd.images"}, "payload": {"compose": dict(comp), "images": images}}
    if has(steps, "drop", "header/type"):
        del doc["header"]["type"]
    old = Images()
    try:
        old.loads(json.dumps(doc))
    except Exception as exc:
        return ["rejected"] if case.get("probe") else ["%s: document of a supported older version rejected: %s: %s" % (what, type(exc).__name__, exc)]
    if case.get("probe"):
        return ["accepted"]
    fails = compose_facts(what, old.compose, comp)
    got_cells = {(v, a) for v in old.images for a in old.images[v]}
    if got_cells != set(exp):
        fails.append("%s: cells %s, document has %s" % (what, sorted(got_cells), sorted(exp)))
    for (v, a), byp in exp.items():
        imgs = {i.path: i for i in old.images.get(v, {}).get(a, [])}
        if sorted(imgs) != sorted(byp):
            fails.append("%s: cell %s/%s holds %s, document lists %s" % (what, v, a, sorted(imgs), sorted(byp)))
            continue
        for p, e in byp.items():
            for k in c02.FIELDS:
                if getattr(imgs[p], k, "<missing>") != e[k]:
                    fails.append("%s: image %s.%s: document %r, upgraded object %r" % (what, p, k, e[k], getattr(imgs[p], k, "<missing>")))
    f2, _ = idempotence(Images, old, what, "productmd.images")
    return (fails + f2)[:6]


# ------------------------------------------------------------------ rpms

def consistent(flat):
    """0.3 can only express: a source rpm is listed next to binaries built from it in every arch of the variant, or nowhere."""
    src = {}
    bins = {}
    for e in flat:
        k = (e["v"], e["srpm"])
        if e["category"] == "source":
            src.setdefault(k, set()).add(e["a"])
        else:
            bins.setdefault(k, set()).add(e["a"])
    for k, arches in src.items():
        if bins.get(k) != arches:
            return False
    paths = {}
    for e in flat:                      # the src table holds ONE record per source rpm of a variant
        if e["category"] == "source":
            if paths.setdefault((e["v"], e["rpm"]), (e["path"], e["sigkey"])) != (e["path"], e["sigkey"]):
                return False
    return True


def eval_rpms(case):
    from productmd.rpms import Rpms
    rot = case.get("rot", 0)
    names = rpms_adapter.NAMESETS[rot % len(rpms_adapter.NAMESETS)]
    arches = rpms_adapter.ARCHSETS[(rot // len(rpms_adapter.NAMESETS)) % len(rpms_adapter.ARCHSETS)]
    steps, ver, flat = case["steps"], case["ver"], case["rpms"]
    exp = rpms_adapter.expected_map(flat, names, arches)
    what = "rpms %s down-converted from %s" % (VERSTR[ver], json.dumps(exp, sort_keys=True)[:300])
    comp = OLD_COMPOSES[(rot // 2) % len(OLD_COMPOSES)]
    doc = {"header": {"version": VERSTR[ver], "type": "productmd.rpms"}, "payload": {"compose": dict(comp)}}
    if has(steps, "drop", "header/type"):
        del doc["header"]["type"]
    if has(steps, "layout", "rpms"):
        man = {}
        for v in exp:
            for a in exp[v]:
                for s in exp[v][a]:
                    for r, d in exp[v][a][s].items():
                        rec = {"path": d["path"], "sigkey": d["sigkey"], "type": "package" if d["category"] == "binary" else d["category"]}
                        if d["category"] == "source":
                            man.setdefault(v, {}).setdefault("src", {})[s] = rec
                        else:
                            man.setdefault(v, {}).setdefault(a, {}).setdefault(s, {})[r] = rec
        doc["payload"]["manifest"] = man
    else:
        doc["payload"]["rpms"] = copy.deepcopy(exp)
    old = Rpms()
    try:
        old.loads(json.dumps(doc))
    except Exception as exc:
        return ["rejected"] if case.get("probe") else ["%s: document of a supported older version rejected: %s: %s" % (what, type(exc).__name__, exc)]
    if case.get("probe"):
        return ["accepted"]
    fails = compose_facts(what, old.compose, comp)
    if old.rpms != exp:
        fails.append("%s: upgraded mapping %s" % (what, json.dumps(old.rpms, sort_keys=True)[:400]))
    f2, _ = idempotence(Rpms, old, what, "productmd.rpms")
    return (fails + f2)[:6]


# ------------------------------------------------------------------ pre-productmd product families
# what a pre-productmd 'family' becomes (name, short): the table of the legacy reader at the pinned commit, frozen here
FAMILIES = {"Red Hat Enterprise Linux": ("Red Hat Enterprise Linux", "RHEL"), "Red Hat Enterprise Linux Server": ("Red Hat Enterprise Linux", "RHEL"),
            "Subscription Asset Manager": ("Subscription Asset Manager", "SAM"), "Red Hat Storage": ("Red Hat Storage", "RHS"),
            "Red Hat Storage Software Appliance": ("Red Hat Storage Software Appliance", "SSA"), "JBEAP": ("JBEAP", "JBEAP"),
            "Fedora": ("Fedora", "Fedora"), "Fedora-Rawhide": ("Fedora", "Fedora"), "CentOS Linux": ("CentOS", "CentOS"),
            "EulerOS V2.0": ("EulerOS", "EulerOS"), "Some Other OS": ("Some Other OS", ""), "Red Hat Storage Console": ("Red Hat Storage Console", ""),
            "JBEAP Extras": ("JBEAP Extras", "")}


def eval_family(case):
    from productmd.treeinfo import TreeInfo
    family = case["family"]
    text = "[general]\nfamily = %s\nversion = 7.1\narch = x86_64\nvariant = Server\ntimestamp = 1386857206.0\npackagedir = Packages\n" % family
    what = "pre-productmd treeinfo of family %r" % family
    t = TreeInfo()
    try:
        t.loads(text)
    except Exception as exc:
        return ["%s: rejected: %s: %s" % (what, type(exc).__name__, exc)]
    name, short = FAMILIES[family]
    fails = []
    if (t.release.name, t.release.short) != (name, short):
        fails.append("%s: upgraded to release name %r / short %r, the family table says %r / %r" % (what, t.release.name, t.release.short, name, short))
    if not short:
        return fails            # without a short name the tree cannot be written (not part of the mapping)
    f2, _ = idempotence(TreeInfo, t, what, "productmd.treeinfo")
    return fails + f2


# RHEL 5 trees do not list their addons: the reader supplies them from a table of its own (productmd/treeinfo.py, the
# "workaround for RHEL 5").  Frozen here; every tree is read by a fresh object, all in ONE process, in the given order.
RHEL5 = [("Server", "5.3", "ppc", ["Cluster", "ClusterStorage"]), ("Server", "5.3", "x86_64", ["Cluster", "ClusterStorage", "VT"]),
         ("Server", "5.0", "ppc", []), ("Client", "5.3", "i386", ["VT", "Workstation"]), ("Server", "5.8", "s390x", []),
         ("Server", "5.11", "ia64", ["Cluster", "ClusterStorage", "VT"]), ("Server", "5.9", "ppc", ["Cluster", "ClusterStorage"]),
         ("Server", "5.1", "i386", ["Cluster", "ClusterStorage", "VT"]), ("Client", "5.0", "x86_64", ["VT", "Workstation"])]


def eval_rhel5(case):
    from productmd.treeinfo import TreeInfo
    fails = []
    for k in case["order"]:
        var, ver, arch, addons = RHEL5[k]
        text = ("[general]\nfamily = Red Hat Enterprise Linux %s\nversion = %s\narch = %s\nvariant = %s\ntimestamp = 1386857206.0\n"
                "packagedir = %s\n" % (var, ver, arch, var, var))
        what = "pre-productmd treeinfo of RHEL %s %s.%s (read as number %d of %s in this process)" % (ver, var, arch, case["order"].index(k) + 1,
                                                                                                 [RHEL5[j][:3] for j in case["order"]])
        t = TreeInfo()
        try:
            t.loads(text)
        except Exception as exc:
            fails.append("%s: rejected: %s: %s" % (what, type(exc).__name__, exc))
            break
        got = sorted(v.uid for v in t.variants.get_variants(recursive=True))
        exp = sorted([var] + ["%s-%s" % (var, a) for a in addons])
        if got != exp:
            fails.append("%s: variants %s, the RHEL 5 table says %s" % (what, got, exp))
            break
        f2, _ = idempotence(TreeInfo, t, what, "productmd.treeinfo")
        if f2:
            fails += f2
            break
    return fails


# ------------------------------------------------------------------ treeinfo

def eval_treeinfo(case):
    from productmd.treeinfo import TreeInfo
    from .corruptions import Ini
    conc = ti_adapter.Conc(case.get("rot", 0))
    obj, steps, ver = case["obj"], case["steps"], case["ver"]
    what = "treeinfo %s down-converted from %s" % (VERSTR[ver], json.dumps({k: obj[k] for k in ("tops", "kidtype", "paths", "pkgs", "sec")},
                                                                          sort_keys=True)[:400])
    t = ti_adapter.build(obj, conc)
    f = io.StringIO()
    t.dump(f, main_variant=ti_adapter.main_arg(obj, conc))
    ini = Ini(f.getvalue())
    ini.p.set("header", "version", VERSTR[ver])
    if has(steps, "drop", "header/type"):
        ini.p.remove_option("header", "type")
    if has(steps, "rename", "release"):
        ini.p.add_section("product")
        for o, v in ini.p.items("release"):
            ini.p.set("product", o, v)
        ini.p.remove_section("release")
    if has(steps, "layout", "variants") and obj["sec"]["arch"] == "src":
        for s in ini.p.sections():
            if s.startswith("variant-") or s.startswith("addon-"):
                for src, dst in (("source_packages", "packages"), ("source_repository", "repository")):
                    if ini.p.has_option(s, src):
                        ini.p.set(s, dst, ini.p.get(s, src))
                        ini.p.remove_option(s, src)
    if ver > 0 and (case.get("rot", 0) // 3) % 2:
        # the documented layout of child lists: 'variants' = child variants, 'addons' = child addons (the library's own
        # writer puts every child under 'addons'; files written by other tools follow the format description)
        for s in list(ini.p.sections()):
            if (s.startswith("variant-") or s.startswith("addon-")) and ini.p.has_option(s, "addons"):
                kids = [k for k in ini.p.get(s, "addons").split(",") if k]
                typ = {k: ini.p.get([x for x in ini.p.sections() if x in ("variant-" + k, "addon-" + k)][0], "type") for k in kids}
                add = [k for k in kids if typ[k] == "addon"]
                var = [k for k in kids if typ[k] != "addon"]
                ini.p.remove_option(s, "addons")
                if add:
                    ini.p.set(s, "addons", ",".join(add))
                if var:
                    ini.p.set(s, "variants", ",".join(var))
    if ver > 0 and case.get("rot", 0) % 2 and ini.p.has_option("tree", "build_timestamp"):
        # older writers stored time.time() as it came (the format says <int|float>): the whole seconds are the fact
        ini.p.set("tree", "build_timestamp", ini.p.get("tree", "build_timestamp") + ".68")
    if has(steps, "layout", "document"):
        keep = [s for s in ini.p.sections() if s == "general" or s.startswith("images-") or s in ("stage2", "checksums", "media")]
        for s in ini.p.sections():
            if s not in keep:
                ini.p.remove_section(s)
        if case.get("rot", 0) % 2:
            # the older spelling of per-platform image sections: [images-<platform>-<arch>]
            arch = ini.p.get("general", "arch")
            for s in list(ini.p.sections()):
                if s.startswith("images-") and s[7:] != arch:
                    ini.p.add_section(s + "-" + arch)
                    for o, v in ini.p.items(s):
                        ini.p.set(s + "-" + arch, o, v)
                    ini.p.remove_section(s)
        if ini.p.has_section("media"):                       # pre-productmd files carry disc numbering in [general]
            for o, v in ini.p.items("media"):
                ini.p.set("general", o, v)
            ini.p.remove_section("media")
    old = TreeInfo()
    try:
        old.loads(ini.text())
    except Exception as exc:
        return ["rejected"] if case.get("probe") else ["%s: document of a supported older version rejected: %s: %s" % (what, type(exc).__name__, exc)]
    if case.get("probe"):
        return ["accepted"]
    fails = []
    if ver > 0:
        fails = ["%s: %s" % (what, x) for x in ti_adapter.compare_trees(t, old)]
    else:
        if old.tree.arch != t.tree.arch or old.tree.build_timestamp != int(t.tree.build_timestamp):
            fails.append("%s: arch/timestamp %r/%r" % (what, old.tree.arch, old.tree.build_timestamp))
        if old.images.images != t.images.images:
            fails.append("%s: image tables differ" % what)
        # a pre-productmd file names its platforms only through its image sections
        if old.tree.platforms != set([t.tree.arch]) | set(t.images.images):
            fails.append("%s: platforms %s, the document has image tables for %s on a %s tree"
                         % (what, sorted(old.tree.platforms), sorted(t.images.images), t.tree.arch))
        if (old.media.discnum, old.media.totaldiscs) != (t.media.discnum, t.media.totaldiscs):
            fails.append("%s: media %r/%r" % (what, old.media.discnum, old.media.totaldiscs))
    f2, _ = idempotence(TreeInfo, old, what, "productmd.treeinfo")
    return (fails + f2)[:6]


# ------------------------------------------------------------------ fixtures

def eval_fixture(case):
    import productmd.treeinfo, productmd.images, productmd.composeinfo, productmd.discinfo
    cls = {"treeinfo": productmd.treeinfo.TreeInfo, "images": productmd.images.Images, "composeinfo": productmd.composeinfo.ComposeInfo,
           "discinfo": productmd.discinfo.DiscInfo}[case["fmt"]]
    path = os.path.join(core.REPO, case["path"])
    what = "fixture %s" % case["path"]
    obj = cls()
    try:
        obj.load(path)
    except Exception as exc:
        return ["%s: shipped fixture rejected: %s: %s" % (what, type(exc).__name__, exc)]
    if case["fmt"] == "discinfo":
        text = obj.dumps()
        again = cls()
        again.loads(text)
        ok = (again.timestamp, again.description, again.arch, again.disc_numbers) == (obj.timestamp, obj.description, obj.arch, obj.disc_numbers)
        return [] if ok and again.dumps() == text else ["%s: discinfo does not survive write/read" % what]
    fails, text = idempotence(cls, obj, what, "productmd." + case["fmt"])
    if case["fmt"] == "treeinfo" and text is not None:
        # facts of the historical file, read by an independent INI reader, against the upgraded object
        raw = ti_adapter.ini_parse(open(path).read().replace("%", "%%")) if False else None
        import configparser
        cp = configparser.RawConfigParser()
        cp.optionxform = str
        try:
            cp.read(path)
        except Exception:
            return fails
        sec = "tree" if cp.has_section("tree") else "general"
        if cp.has_option(sec, "arch") and cp.get(sec, "arch") != obj.tree.arch:
            fails.append("%s: arch %r in the file, %r after upgrade" % (what, cp.get(sec, "arch"), obj.tree.arch))
        tsopt = "build_timestamp" if sec == "tree" else "timestamp"
        if cp.has_option(sec, tsopt):
            if int(float(cp.get(sec, tsopt))) != obj.tree.build_timestamp:
                fails.append("%s: timestamp %r in the file, %r after upgrade" % (what, cp.get(sec, tsopt), obj.tree.build_timestamp))
        for s in cp.sections():
            if s.startswith("images-"):
                plat = s[7:]
                if plat != obj.tree.arch and plat.endswith("-" + obj.tree.arch):
                    plat = plat[:-len(obj.tree.arch) - 1]
                names = set(cp.options(s))
                if set(obj.images.images.get(plat, {})) != names:
                    fails.append("%s: image table %s: file lists %s, upgraded object %s" % (what, s, sorted(names), sorted(obj.images.images.get(plat, {}))))
        if cp.has_section("checksums") and len(cp.options("checksums")) != len(obj.checksums.checksums):
            fails.append("%s: %d checksums in the file, %d after upgrade" % (what, len(cp.options("checksums")), len(obj.checksums.checksums)))
    return fails


def probe(ctx, fn, cases, name):
    """Vacuity guard: how many down-converted documents of each version does the library accept at all?"""
    by = {}
    for c in cases:
        by.setdefault(c["ver"], []).append(c)
    for ver, cs in sorted(by.items()):
        n = acc = 0
        for c in cs[::max(1, len(cs) // 40)]:
            r = fn(dict(c, probe=True))
            n += 1
            acc += r == ["accepted"]
        ctx.notes["accepted_%s_%s" % (name, VERSTR[ver])] = "%d of %d probed" % (acc, n)
        if acc == 0:
            raise core.MachineryError("no down-converted %s %s document is accepted by the library: vacuous" % (name, VERSTR[ver]))


def fixtures():
    out = []
    for p in sorted(glob.glob(os.path.join(core.REPO, "tests", "treeinfo", "*"))):
        out.append({"fmt": "treeinfo", "path": os.path.relpath(p, core.REPO)})
    for p in sorted(glob.glob(os.path.join(core.REPO, "tests", "discinfo", "*"))):
        out.append({"fmt": "discinfo", "path": os.path.relpath(p, core.REPO)})
    for p in sorted(glob.glob(os.path.join(core.REPO, "tests", "images", "*.json"))):
        out.append({"fmt": "images", "path": os.path.relpath(p, core.REPO)})
    for p in sorted(glob.glob(os.path.join(core.REPO, "tests", "compose*", "*", "metadata", "composeinfo.json"))):
        out.append({"fmt": "composeinfo", "path": os.path.relpath(p, core.REPO)})
    return out


# ------------------------------------------------------------------ run

def run(ctx):
    ctx.rule = ("Upgrade.tla holds the version table (what a document of each older version lacks, renames or lays out differently, and what "
                "each missing fact becomes) and TLC checks its consistency (monotone, conversion exactly once, every drop has a default) and "
                "emits the down-conversion steps per (format, version); the objects enumerated by the document specs (ComposeInfoDoc, "
                "ImagesDoc, RpmsGen, TreeInfoDoc) are written by the real code, down-converted by independent JSON/INI editing to every older "
                "version (composeinfo 0.0/0.2/0.3/1.0/1.1, images 1.0/1.1, rpms 0.3/1.0/1.1, treeinfo 0.0/0.3/1.0/1.1), loaded, compared fact by "
                "fact with the original (dropped facts take their documented default), written (current version + type), re-read, re-written "
                "byte for byte; plus every shipped fixture (treeinfo, discinfo, images, composeinfo). non-trivial = distinct (document, version)")
    recipes = []
    ctx.require_ok(ctx.tlc("Upgrade", "Upgrade.cfg", on_emit=recipes.append))
    rec = {(r["fmt"], r["ver"]): r["steps"] for r in recipes}
    step = 5 if ctx.quick else 1
    # composeinfo
    cases = []
    src = [c for c in c01.gen(ctx, ("forest", "paths", "sections"))]
    for i, c in enumerate(src):
        if i % step:
            continue
        for ver in (0, 2, 3, 100, 101):
            cases.append({"obj": c["obj"], "ver": ver, "steps": rec[("composeinfo", ver)], "rot": (i + ctx.seed) % 18})
    probe(ctx, eval_composeinfo, cases, "composeinfo")
    ctx.evaluate(eval_composeinfo, cases, label="composeinfo-upgrade", chunk=100, key=lambda c: core._digest([c["obj"], c["ver"], c["rot"]]))
    # images (non-unified images only: unified did not exist before 1.2)
    cases = []
    for i, c in enumerate(c02.gen(ctx, 2, 2)):
        if any(c["pool"][n]["unified"] or n in ("p7", "p8", "p9", "p10") for cell in c["obj"] for n in cell["imgs"]):
            continue
        for ver in (100, 101):
            cases.append({"obj": c["obj"], "pool": c["pool"], "ver": ver, "steps": rec[("images", ver)], "rot": (i + ctx.seed) % 132})
            if ver == 100 and any(set(cell["imgs"]) >= set(["p1", "p5"]) for cell in c["obj"]) and i % 7 == 0:
                cases.append({"obj": c["obj"], "pool": c["pool"], "ver": ver, "steps": rec[("images", ver)], "rot": (i + ctx.seed) % 132,
                              "subvariant_pair": True})
    probe(ctx, eval_images, cases, "images")
    ctx.evaluate(eval_images, cases, label="images-upgrade", chunk=100, key=lambda c: core._digest([c["obj"], c["ver"], c["rot"], c.get("subvariant_pair")]))
    # images 1.0/1.1 documents enumerated by ImagesManifest.tla itself (src cells next to binary arches, several variants)
    from . import c09, images_adapter
    old_images = [c for c in c09.gen_cases(ctx, "loads", 1, maxdoc=2) if c["hist"] and c["hist"][0]["ver"] in (100, 101)]
    for c in old_images:
        c["focus"] = "C05"
    ctx.evaluate(images_adapter.replay_history, old_images, label="history", chunk=200, key=lambda c: core._digest([c["hist"], c["k"], c["s"]]))
    # rpms
    cases = []
    for i, c in enumerate(c12.rpms_cases(ctx, "C03")):
        if not c["rpms"] or i % step:
            continue
        for ver in (3, 100, 101):
            if ver == 3 and not consistent(c["rpms"]):
                continue
            cases.append({"rpms": c["rpms"], "ver": ver, "steps": rec[("rpms", ver)], "rot": c["rot"]})
    # 0.3 documents enumerated by RpmsManifest.tla itself (src tables next to one or two binary arches, orphans): the model's
    # Load03 result is the expected mapping
    l03 = [c for c in c12.rpms_cases(ctx, "C10") if c["hist"] and c["hist"][0]["op"] == "load03" and len(c["hist"]) == 1]
    for c in l03:
        c["focus"] = "C10"
    ctx.evaluate(rpms_adapter.replay, l03, label="rpms-history", chunk=100, key=lambda c: core._digest([c["hist"], c["rot"]]))
    probe(ctx, eval_rpms, cases, "rpms")
    ctx.evaluate(eval_rpms, cases, label="rpms-upgrade", chunk=200, key=lambda c: core._digest([c["rpms"], c["ver"], c["rot"]]))
    # treeinfo
    cases = []
    for i, c in enumerate(c04.gen(ctx)):
        o = c["obj"]
        if o["keyby"] != "uid" or o["sec"]["ts"] != "int":
            continue
        for ver in (0, 3, 100, 101):
            if ver == 3 and o["sec"]["arch"] == "src" and (any(k != "none" for k in o["kidtype"].values())
                                                          or any(set(p) & set(["packages", "repository"]) for p in o["pkgs"].values())
                                                          or any(o["paths"][t] for t in o["tops"])):
                continue            # 0.3 keeps source content of a src tree in packages/repository: not expressible otherwise
            if ver == 0 and (len(o["tops"]) != 1 or "-" in list(o["tops"])[0] or i % 4):
                continue
            cases.append({"obj": o, "ver": ver, "steps": rec[("treeinfo", ver)], "rot": ((i * 7 + i // 4 + ctx.seed) % 10) * 3})
    probe(ctx, eval_treeinfo, cases, "treeinfo")
    ctx.evaluate(eval_treeinfo, cases, label="treeinfo-upgrade", chunk=100, key=lambda c: core._digest([c["obj"], c["ver"], c["rot"]]))
    ctx.evaluate(eval_fixture, fixtures(), label="fixture", chunk=10)
    ctx.evaluate(eval_family, [{"family": f} for f in sorted(FAMILIES)], label="family", chunk=20)
    n5 = len(RHEL5)
    orders = [list(range(n5)), list(reversed(range(n5))), [1, 0, 6, 7, 2, 3, 8, 4, 5], [6, 6, 1, 0, 0, 7]]
    ctx.evaluate(eval_rhel5, [{"order": o} for o in orders], label="rhel5", chunk=1)
    ctx.exhaustive = True


def replay(info):
    k = info["kind"]
    if k == "family":
        return eval_family(info["case"])
    if k == "rhel5":
        return eval_rhel5(info["case"])
    if k == "rpms-history":
        return rpms_adapter.replay(info["case"])
    if k == "history":
        from . import images_adapter
        return images_adapter.replay_history(info["case"])
    return {"composeinfo-upgrade": eval_composeinfo, "images-upgrade": eval_images, "rpms-upgrade": eval_rpms,
            "treeinfo-upgrade": eval_treeinfo, "fixture": eval_fixture}[k](info["case"])
