"""C03 RPM, module and extra-file manifests survive a write/read cycle unchanged."""
from . import core, rpms_adapter as R, builders_adapter as B, c12


def run(ctx):
    ctx.rule = ("every manifest reachable by the add histories TLC enumerates from RpmsGen.tla / BuildersGen.tla (depth 2-4 "
                "exhaustive, deeper by tlc -simulate) is built on the real class, written, parsed by an independent JSON "
                "reader and compared with the model's mapping, read back, compared again and re-written byte for byte. "
                "non-trivial = distinct history")
    cases = c12.rpms_cases(ctx, "C03")
    ctx.exhaustive = True
    ctx.evaluate(R.replay, cases, label="rpms-history", key=lambda c: core._digest([c["hist"], c["rot"]]))
    B.run_builders(ctx, "C03")


def replay(info):
    if info["kind"] == "rpms-history":
        return R.replay(info["case"])
    return B.replay(info)
