"""C04 Treeinfo and discinfo survive a write/read cycle unchanged (TreeInfoDoc.tla)."""
from . import core, ti_adapter as A


def gen(ctx, slices=("variants", "paths", "sections")):
    cases = []
    for sl in slices:
        out = []
        ctx.require_ok(ctx.tlc("TreeInfoDoc", cfg_text=core.cfg_with("TreeInfoDoc.cfg", [], {"Slice": sl}), on_emit=out.append,
                               constants={"Slice": sl}, timeout=1800))
        for c in out:
            c["slice"] = sl
        cases += out
    return cases


def run(ctx):
    ctx.rule = ("TLC enumerates trees from TreeInfoDoc.tla in slices (1-3 top-level variants incl. the two dashed-UID shapes, keyed by uid "
                "or id; children of every type and a grandchild; subsets of 3 path kinds rotating over the seven + the packages/repository "
                "kinds; binary and src trees; platforms, layered release, image tables with mixed-case names, stage2, media, checksums) with "
                "the documented INI layout; text values rotate over the value classes of the quantifier (inner blanks, ; # = : [ ], quotes, "
                "upper case, non-ASCII; '%' separately); each is built, written, compared by an independent INI reader, read back and compared "
                "fact by fact, re-written byte for byte. discinfo: 5 timestamp x 4 description x 4 disc-number classes. "
                "non-trivial = distinct (tree, concretisation)")
    cases = [c for c in gen(ctx) if c["obj"]["sec"]["ts"] in ("int", "neg")]     # float timestamps belong to C17
    nrot = 1 if ctx.quick else 6
    allc = []
    for i, c in enumerate(cases):
        for k in range(nrot):
            d = dict(c)
            d["rot"] = (i + ctx.seed + k * 7) % 18
            allc.append(d)
    # the '%' value class (ConfigParser interpolation)
    for i, c in enumerate(cases):
        if i % (40 if ctx.quick else 8) == 0:
            d = dict(c)
            d["rot"] = i % 18
            d["pct"] = True
            allc.append(d)
    ctx.exhaustive = True
    ctx.evaluate(A.evaluate, allc, label="tree", chunk=100, key=lambda c: core._digest([c["obj"], c["rot"], c.get("pct")]))
    disc = []
    ctx.require_ok(ctx.tlc("TreeInfoDoc", cfg_text=core.cfg_with("TreeInfoDoc.cfg", [], {"Slice": "discinfo"}), on_emit=disc.append,
                           constants={"Slice": "discinfo"}))
    for i, c in enumerate(disc):
        c["rot"] = i + ctx.seed
    ctx.evaluate(A.eval_disc, disc, label="discinfo")


def replay(info):
    return A.eval_disc(info["case"]) if info["kind"] == "discinfo" else A.evaluate(info["case"])
