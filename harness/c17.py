"""C17 The legacy [general] section mirrors the authoritative sections (TreeInfoDoc.tla)."""
from . import core, ti_adapter as A, c04


def run(ctx):
    ctx.rule = ("the trees of TreeInfoDoc.tla (all slices; every choice of main variant incl. none; binary and src trees; main variant with "
                "and without packages/repository and their source_ fallbacks; int and float timestamps; extra platforms), each dumped with "
                "dump(file, main_variant=...) and parsed by an independent INI reader: every [general] key must equal the function of "
                "[release]/[tree]/[variant-*] that the statement defines (computed in the spec), and mirror those sections inside the same "
                "output; the compatibility sections alone are fed back to the real legacy reader. non-trivial = distinct (tree, concretisation)")
    ctx.assumptions += ["top-level variants keyed by UID (a dashed variant keyed by id is the known finding F-04b reported under C04)"]
    cases = [c for c in c04.gen(ctx) if c["obj"]["keyby"] == "uid"]
    nrot = 1 if ctx.quick else 6
    allc = []
    for i, c in enumerate(cases):
        for k in range(nrot):
            d = dict(c)
            d["rot"] = (i + ctx.seed + k * 7) % 18
            d["focus"] = "C17"
            allc.append(d)
            if i % 3 == 0 and k == 0:
                allc.append(dict(d, foreign_owner=True))
    ctx.exhaustive = True
    ctx.evaluate(A.evaluate, allc, label="tree", chunk=100, key=lambda c: core._digest([c["obj"], c["rot"], c.get("foreign_owner")]))
    ctx.evaluate(A.eval_legacy_view, [c for i, c in enumerate(allc) if c["rot"] % 3 == 0], label="legacy-view", chunk=100)


def replay(info):
    return A.eval_legacy_view(info["case"]) if info["kind"] == "legacy-view" else A.evaluate(info["case"])
