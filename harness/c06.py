"""C06 Only objects meeting every documented field constraint can be written (Validation.tla)."""
from . import core, corruptions as K


def gen(ctx, mode):
    table = K.measured_nodes()
    mod, files, lines = core.gen_module("Validation", {"Nodes": {k: v for k, v in table.items()}})
    cfg = core.cfg_with("Validation.cfg", [], {"Mode": mode}) + "\n".join(lines) + "\n"
    out = []
    ctx.require_ok(ctx.tlc(mod, cfg_text=cfg, extra_files=files, on_emit=out.append))
    return out


def run(ctx):
    ctx.rule = ("Validation.tla holds the rule table (node kind, field, invalid class) and the validation walk; node instances of 17 valid "
                "sample shapes of the 7 formats are measured on the real objects; TLC enumerates every (sample, node instance, field, "
                "invalid class) = one corruption each; the harness corrupts that one slot through the public attribute and dumps. "
                "Converse: every sample and one valid object per documented enumeration value (compose/release/variant/image types, "
                "formats, label names, every architecture) must be written. non-trivial = distinct slot corruption")
    cases = gen(ctx, "obj")
    ctx.exhaustive = True
    ctx.evaluate(K.eval_write, cases, label="corrupt-write", chunk=50)
    ctx.evaluate(K.eval_valid, K.enum_cases(), label="valid-write", chunk=50)


def replay(info):
    return K.eval_valid(info["case"]) if info["kind"] == "valid-write" else K.eval_write(info["case"])
