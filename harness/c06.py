"""C06 Only objects meeting every documented field constraint can be written (Validation.tla)."""
from . import core, corruptions as K


def gen(ctx, mode):
    table = K.measured_nodes()
    mod, files, lines = core.gen_module("Validation", {"Nodes": {k: v for k, v in table.items()}})
    cfg = core.cfg_with("Validation.cfg", [], {"Mode": mode}) + "\n".join(lines) + "\n"
    out = []
    ctx.require_ok(ctx.tlc(mod, cfg_text=cfg, extra_files=files, on_emit=out.append))
    return out


def run(ctx):
    ctx.rule = ("Validation.tla holds the rule table (node kind, field, invalid class) and the validation walk; node instances of 17 valid "
                "sample shapes of the 7 formats are measured on the real objects; TLC enumerates every (sample, node instance, field, "
                "invalid class) = one corruption each; the harness corrupts that one slot through the public attribute and dumps. "
                "Converse: every sample and one valid object per documented enumeration value (compose/release/variant/image types, "
                "formats, label names, every architecture) must be written. non-trivial = distinct slot corruption")
    cases = gen(ctx, "obj")
    ctx.exhaustive = True
    ctx.evaluate(K.eval_write, cases, label="corrupt-write", chunk=50)
    ctx.evaluate(K.eval_valid, K.enum_cases(), label="valid-write", chunk=50)
    fresh_orders(ctx, cases)


def fresh_orders(ctx, cases):
    """The same corruptions in FRESH interpreters whose first act is to validate (public validate()) the nodes of ONE kind of
    the format's samples before anything else: validation state that depends on which class was validated first shows here."""
    import json
    import os
    import subprocess
    import tempfile
    from . import samples
    table = K.measured_nodes()
    jobs = []
    for fmt in samples.FORMATS:
        kinds = sorted(set(k for s, ns in table.items() if s.startswith(fmt + "_") for n in ns for k in n["kinds"]))
        mine = [c for c in cases if c["sample"].startswith(fmt + "_")]
        for first in kinds:
            jobs.append((fmt, first, mine))
    running = []

    def reap(block):
        for item in list(running):
            order, path, p = item
            if not block and p.poll() is None:
                continue
            out, _ = p.communicate(timeout=1800)
            running.remove(item)
            os.unlink(path)
            if p.returncode != 0:
                raise core.MachineryError("fresh-order worker failed: %s" % out[-2000:])
            res = json.loads(out)
            ctx.evaluations += res["n"]
            ctx.traces += res["n"]
            ctx.distinct_count += res["n"]
            for case, fails in res["bad"]:
                for f in fails:
                    ctx.fail(case, "fresh interpreter in which %s nodes were validated first: %s" % (order, f), "corrupt-write")
    for fmt, first, mine in jobs:
        while len(running) >= core.NCPU:
            reap(False)
            import time
            time.sleep(0.05)
        fd, path = tempfile.mkstemp(prefix="verif-c06-", suffix=".json")
        os.close(fd)
        with open(path, "w") as fh:
            json.dump({"fmt": fmt, "first": first, "cases": mine}, fh)
        env = dict(os.environ)
        env["PYTHONPATH"] = os.pathsep.join([core.VERIF, core.REPO])
        running.append((first, path, subprocess.Popen([core.PY, "-m", "harness.c06", path], cwd=core.VERIF, env=env,
                                                      stdout=subprocess.PIPE, text=True)))
    while running:
        reap(True)


if __name__ == "__main__":
    import json
    import sys
    core.import_repo()
    from . import samples
    job = json.load(open(sys.argv[1]))
    # first act of this interpreter: validate the nodes of one kind, then all nodes, of every shape of the format
    built = [K.nodes(job["fmt"], samples.build(job["fmt"], shape)) for shape in range(samples.NSHAPES[job["fmt"]])]
    for only_first in (True, False):
        for ns in built:
            for kinds, label, n in ns:
                if only_first and job["first"] not in kinds:
                    continue
                try:
                    n.validate()
                except Exception:
                    pass
    bad = []
    for c in job["cases"]:
        f = K.eval_write(c)
        if f:
            bad.append((c, f))
    print(json.dumps({"n": len(job["cases"]), "bad": bad}))
