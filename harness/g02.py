"""G02 (growth, not a listed property): deleting variants from the forest (Forest.tla Del, ForestDelGen.tla)."""
from . import core, forest_adapter as A


def name_str(name, tok):
    tok = dict(tok, Z="NoSuchVariant")
    return "-".join(A._tok(t, tok) for t in name)


def replay_hist(case, tok, arch):
    ci = A.new_ci()
    pool = case["pool"]
    objs = {n: A.make_variant(ci, pool[n], tok, arch) for n in pool}
    names = {id(o): n for n, o in objs.items()}
    for i, ev in enumerate(case["hist"]):
        if ev["op"] == "add":
            out = A.do_add(ci, objs, ev["c"], ev["o"])
        else:
            out = do_del(ci, objs, ev["c"], name_str(ev["name"], tok))
        if out != ev["out"]:
            return ci, objs, names, ["history step %d %s: model %s, code %s" % (i, ev, ev["out"], out)]
    return ci, objs, names, []


def do_del(ci, objs, c, name):
    cont = ci.variants if c == "ROOT" else objs[c]
    try:
        del cont[name]
        return "ok"
    except KeyError:
        return "KeyError"
    except Exception as exc:
        return type(exc).__name__


def eval_state(case):
    i = case.get("rot", 0)
    tok = A.TOKSETS[i % len(A.TOKSETS)]
    arch = A.ARCHSETS[(i // len(A.TOKSETS)) % len(A.ARCHSETS)]
    pool = case["pool"]
    ci, objs, names, fails = replay_hist(case, tok, arch)
    if fails:
        return fails
    exp_kids = A.model_kids(case, tok)
    kids, par = A.project(ci, objs, names)
    if kids != exp_kids:
        return ["after %s: children tables differ: model %s ; code %s" % (case["hist"], exp_kids, kids)]
    forest = sorted(case["forest"])
    fails = A.queries(ci, objs, forest, "forest after %d steps" % len(case["hist"]), arch, True)
    if fails:
        return fails
    try:
        ci.dumps()
    except Exception as exc:
        return ["forest after %s cannot be written: %s: %s" % (case["hist"], type(exc).__name__, exc)]
    for d in case["dels"]:
        ci2, objs2, names2, f2 = replay_hist(case, tok, arch)
        n = name_str(d["name"], tok)
        out = do_del(ci2, objs2, d["c"], n)
        if out != d["out"]:
            return ["del %s[%r] after %d steps: model %s, code %s" % (d["c"], n, len(case["hist"]), d["out"], out)]
        k2, p2 = A.project(ci2, objs2, names2)
        ek = dict(exp_kids)
        ek[d["tc"]] = A._norm_newc(d["newc"], pool, tok)
        if k2 != ek:
            return ["del %s[%r]: children tables differ from model: %s vs %s" % (d["c"], n, A._diff(k2, ek), A._diff(ek, k2))]
        if p2 != par:
            return ["del %s[%r] changed parent links: %s" % (d["c"], n, A._diff(p2, par))]
    return []


def run(ctx):
    ctx.rule = ("growth spec: Forest.tla Del; TLC walks every distinct forest reachable by in-scope adds and at most one deletion "
                "(ForestDelGen.tla, RemainingOk invariant) and emits per state the expected result of every deletion by id, by dashed name "
                "and of missing names; each is executed on the real classes")
    states = []
    ctx.require_ok(ctx.tlc("ForestDelGen", "ForestDelGen.cfg", on_emit=states.append, timeout=1800))
    for i, s in enumerate(states):
        s["rot"] = (i + ctx.seed) % 6
    if not ctx.quick:
        states = states + [dict(s, rot=(s["rot"] + 3) % 6) for s in states]
    ctx.exhaustive = True
    ctx.evaluate(eval_state, states, label="forest-del", chunk=8, key=lambda c: core._digest([c["kids"], c["hist"][-3:], c["rot"]]))
    ctx.traces += sum(len(s["dels"]) for s in states)


def replay(info):
    return eval_state(info["case"])
