"""C12 code -> spec: recorded Modules / ExtraFiles traces validated against Trace_Builders.tla.

The recorder logs raw arguments and a snapshot of the whole mapping after every call; this module abstracts them into the
spec's vocabulary WITHOUT the library's help: its own reading of NAME:STREAM[:VERSION[:CONTEXT]] (a directory prefix dropped,
two to four non-empty parts), paths as sequences of components (what `dump_for_tree` strips a base from), sizes and checksum
tables as canonical text, the documented arch table."""
import json

from . import core, traces as T, enums


def uid_parts(s):
    """-> list of the UID's parts, or None when the text does not read as NAME:STREAM[:VERSION[:CONTEXT]];
    "unfaithful" when the library's reading of it is a corner this reader does not claim (a '/' after the first ':',
    line feeds)."""
    if not isinstance(s, str):
        return None
    if "\n" in s or "\r" in s:
        return "unfaithful"
    if "/" in s:
        head, s = s.rsplit("/", 1)
        if ":" in head:
            return "unfaithful"
    parts = s.split(":")
    if not (2 <= len(parts) <= 4) or any(not p for p in parts):
        return None
    return parts


def comps(path):
    return path.split("/")


def base_comps(base):
    b = base.rstrip("/")
    return b.split("/") if b else []


def _txt(x):
    return json.dumps(x, sort_keys=True, default=repr)


def _mods_state(snap):
    out = []
    for v in sorted(snap):
        for a in sorted(snap[v]):
            for m in sorted(snap[v][a]):
                d = snap[v][a][m]
                mp = d.get("modulemd_path", {})
                if not isinstance(mp, dict):
                    return None
                out.append({"v": v, "a": a, "m": m, "cats": sorted(mp), "paths": {c: comps(p) if isinstance(p, str) else [_txt(p)] for c, p in mp.items()},
                            "rpms": [r if isinstance(r, str) else _txt(r) for r in d.get("rpms", [])],
                            "koji": d.get("metadata", {}).get("koji_tag")})
    return out


def _files_state(snap):
    out = []
    for v in sorted(snap):
        for a in sorted(snap[v]):
            out.append({"v": v, "a": a, "files": [{"file": comps(f["file"]) if isinstance(f.get("file"), str) else [_txt(f.get("file"))],
                                                   "size": _txt(f.get("size")), "checksums": _txt(f.get("checksums"))} for f in snap[v][a]]})
    return out


def prepare(trs):
    """-> (traces in the spec's vocabulary, constants).  A trace ends (unjudged from there) at the first event that cannot be
    abstracted faithfully (arguments of other types than the documented ones, UID corners named above)."""
    out, okpaths, known = [], set(), set()
    table = set(enums.RPM_ARCHES)
    for t in trs:
        evs = []
        for e in t["events"]:
            a = e.get("args", {})
            if e["op"] == "modadd":
                if any(not isinstance(a.get(k), str) for k in ("variant", "arch", "uid", "koji_tag", "modulemd_path", "category")):
                    break
                parts = uid_parts(a["uid"])
                if parts == "unfaithful":
                    break
                state = _mods_state(e["state"])
                if state is None or any(not isinstance(s["koji"], str) for s in state):
                    break
                if a["arch"] in table:
                    known.add(a["arch"])
                p = comps(a["modulemd_path"])
                if a["modulemd_path"] and not a["modulemd_path"].startswith("/"):
                    okpaths.add(tuple(p))
                rl = [r if isinstance(r, str) else _txt(r) for r in a["rpms"]] if a.get("rpms_is_seq") else ["notalist"]
                # the metadata block the library keeps for this module: looked up under the UID as THIS reader canonicalises it
                try:
                    meta = e["state"][a["variant"]][a["arch"]][":".join(parts)]["metadata"] if (parts and e["out"] == "ok") else {}
                except (KeyError, TypeError):
                    meta = {}
                evs.append({"op": "modadd", "v": a["variant"] or "empty", "a": a["arch"], "m": ":".join(parts) if parts else "raw:" + a["uid"],
                            "uform": "canon" if parts else "bad", "parts": parts or [], "koji": a["koji_tag"] or "empty", "path": p,
                            "cat": a["category"], "rl": rl,
                            "out": "ok" if e["out"] == "ok" else ("refused" if e["out"] in ("ValueError", "TypeError") else e["out"]),
                            "state": state,
                            "meta": {k: (meta.get(k) if isinstance(meta.get(k), str) else _txt(meta.get(k)))
                                     for k in ("uid", "name", "stream", "version", "context", "koji_tag")}})
            elif e["op"] in ("xfadd", "treedump"):
                if any(not isinstance(a.get(k), str) for k in ("variant", "arch")):
                    break
                if a["arch"] in table:
                    known.add(a["arch"])
                state = _files_state(e["state"])
                if e["op"] == "xfadd":
                    if not isinstance(a.get("path"), str):
                        break
                    p = comps(a["path"])
                    if a["path"] and not a["path"].startswith("/"):
                        okpaths.add(tuple(p))
                    evs.append({"op": "xfadd", "v": a["variant"] or "empty", "a": a["arch"], "path": p, "size": _txt(a["size"]),
                                "cks": _txt(a["checksums"]) if a.get("checksums_is_dict") else "notadict",
                                "out": "ok" if e["out"] == "ok" else ("refused" if e["out"] in ("ValueError", "TypeError") else e["out"]),
                                "state": state})
                else:
                    if not isinstance(a.get("base"), str):
                        break
                    listed = []
                    for d in e.get("listed") or []:
                        listed.append({"file": comps(d["file"]) if isinstance(d.get("file"), str) else [_txt(d.get("file"))],
                                       "size": _txt(d.get("size")), "checksums": _txt(d.get("checksums"))})
                    evs.append({"op": "treedump", "v": a["variant"], "a": a["arch"], "base": base_comps(a["base"]), "listed": listed,
                                "out": e["out"], "state": state})
            else:
                break
        if evs:
            out.append({"tid": t["tid"], "events": evs})
    return out, {"okpaths": sorted(list(p) for p in okpaths), "knownarch": sorted(known)}


def _validate(ctx, source, raw, meta, fails_to):
    trs, consts = prepare(raw)
    if not trs:
        raise core.MachineryError("no recorded Modules / ExtraFiles traces from %s" % source)
    total = 0
    for i in range(0, len(trs), 300):
        group = trs[i:i + 300]
        verdicts = T.validate_batch(ctx, "Trace_Builders", "Trace_Builders.cfg", group, extra=consts)
        by = {t["tid"]: t for t in group}
        inv = verdicts.pop("__invariant__", None)
        if inv:
            t = group[inv[2] - 1] if inv[2] else None
            fails_to({"source": source, "meta": meta, "trace": t, "tlc": inv[3]},
                     "recorded Modules / ExtraFiles execution takes a step violating %s" % inv[1])
            continue
        for tid, (v, at) in verdicts.items():
            total += 1
            if v == "REJECT":
                t = by[tid]
                nxt = t["events"][at - 1] if 0 < at <= len(t["events"]) else None
                short = {k: nxt[k] for k in nxt if k != "state"} if nxt else None
                fails_to({"source": source, "meta": meta, "trace": t, "rejected_at": at, "event": nxt},
                         "recorded execution is not a behaviour of Builders: event %d %s" % (at, json.dumps(short)[:500]))
    return trs, total


def validate(ctx):
    n_driver = 150 if ctx.quick else 2000
    total = 0
    for source, raw, meta in (("testsuite", T.record_testsuite().get("builders", []), {}),
                              ("driver", T.run_driver("builders", ctx.seed, n_driver).get("builders", []), {"seed": ctx.seed, "n": n_driver})):
        trs, n = _validate(ctx, source, raw, meta, lambda case, why: ctx.fail(case, why, "builders-trace"))
        total += n
        ctx.notes["builders_traces_%s" % source] = len(trs)
        ctx.notes["builders_trace_events_%s" % source] = sum(len(t["events"]) for t in trs)
        ctx.sample({"kind": "builders-trace", "source": source, "trace": [{k: e[k] for k in e if k != "state"} for e in trs[0]["events"][:3]]}, limit=8)
    ctx.traces += total
    ctx.evaluations += total
    ctx.distinct_count += total


def replay(info):
    ctx = core.Ctx(info["property"], "quick", info["case"].get("meta", {}).get("seed", 0))
    src = info["case"]["source"]
    raw = T.record_testsuite().get("builders", []) if src == "testsuite" else \
        T.run_driver("builders", info["case"]["meta"]["seed"], info["case"]["meta"]["n"]).get("builders", [])
    fails = []
    _validate(ctx, src, raw, info["case"].get("meta", {}), lambda case, why: fails.append(why))
    return fails
