"""Binding between ImagesManifest.tla behaviours and the real productmd.images API."""
import json

from . import core

IDENT_ATTRS = ["subvariant", "type", "format", "arch", "disc_number", "unified", "additional_variants"]
POOL = {"i1a": ("I1", "c1"), "i1b": ("I1", "c2"), "i2": ("I2", "c1"), "i1a2": ("I1", "c1")}
SUMS = [
    {"c1": {"sha256": "a" * 64}, "c2": {"sha256": "b" * 64}},
    {"c1": {"sha256": "a" * 64}, "c2": {"sha256": "a" * 64, "md5": "c" * 32}},
    {"c1": {"md5": "d" * 32, "sha1": "e" * 40}, "c2": {"md5": "d" * 32, "sha1": "f" * 40}},
]


def ident_fields(ident, k):
    """Identity class -> the seven identity attributes; I2 differs from I1 in attribute k only."""
    f = {"subvariant": "Server", "type": "dvd", "format": "iso", "arch": "x86_64", "disc_number": 1,
         "unified": False, "additional_variants": []}
    if k in (6, 7, 8):
        f["unified"] = True
        f["additional_variants"] = ["Alpha"]
    if ident == "I2":
        if k == 0:
            f["subvariant"] = "KDE"
        elif k == 1:
            f["type"] = "cd"
        elif k == 2:
            f["format"] = "qcow2"
        elif k == 3:
            f["arch"] = "i386"
        elif k == 4:
            f["disc_number"] = 2
        elif k == 5:
            f["unified"] = True
        elif k == 6:
            f["additional_variants"] = ["Beta"]
        elif k in (7, 8):
            # the list of the second image ALSO names one of the variants of the model (it may be filed under that very variant)
            f["additional_variants"] = [{7: "S", 8: "C"}[k], "Alpha"]
    return f


def image_fields(name, ident, sums, k, s=0):
    f = {"path": "%s/%s.iso" % ("imgs", name), "mtime": 1420000000, "size": (1 << 33) + 1, "volume_id": None,
         "disc_count": 2, "checksums": dict(SUMS[s % len(SUMS)][sums]), "implant_md5": None, "bootable": False}
    f.update(ident_fields(ident, k))
    if (k * 3 + s) % 5 == 4 and f["subvariant"] == "Server":
        f["subvariant"] = ""            # an empty subvariant is a value like any other (what 1.0 files upgrade to)
    return f


def make_image(manifest, fields):
    from productmd.images import Image
    img = Image(manifest)
    for a, v in fields.items():
        setattr(img, a, list(v) if isinstance(v, list) else (dict(v) if isinstance(v, dict) else v))
    return img


def image_dict(fields):
    d = dict(fields)
    if not d.get("unified"):
        d.pop("unified", None)
        d.pop("additional_variants", None)
    return d


def set_compose(m):
    m.compose.id = "Fedora-22-20150522.0"
    m.compose.type = "production"
    m.compose.date = "20150522"
    m.compose.respin = 0


COMPOSE_DOC = {"id": "Fedora-22-20150522.0", "type": "production", "date": "20150522", "respin": 0}
VERSTR = {0: "0.0", 100: "1.0", 101: "1.1", 102: "1.2", 200: "2.0"}


def doc_text(doc, ver, k, s=0):
    images = {}
    for key, names in doc.items():
        v, a = key.split("/")
        images.setdefault(v, {})[a] = [image_dict(image_fields(n, POOL[n][0], POOL[n][1], k, s)) for n in sorted(names)]
    return json.dumps({"header": {"version": VERSTR[ver], "type": "productmd.images"},
                       "payload": {"compose": dict(COMPOSE_DOC), "images": images}})


def project(m):
    out = {}
    for v in m.images:
        for a, imgs in m.images[v].items():
            out["%s/%s" % (v, a)] = sorted(set(i.path.split("/")[-1][:-4] for i in imgs))
    return out


def norm_cells(cells):
    if isinstance(cells, list):   # ToJson renders an empty function as []
        return {}
    return {k: sorted(v) for k, v in cells.items() if v}


def replay_history(case):
    """Replay one generated history on the real Images class.  Returns list of failures."""
    from productmd.images import Images
    k = case.get("k", 0)
    s = case.get("s", 0)
    m = Images()
    set_compose(m)
    imgs = {n: make_image(m, image_fields(n, POOL[n][0], POOL[n][1], k, s)) for n in POOL}
    fails = []
    for step, ev in enumerate(case["hist"]):
        before = project(m)
        hdr_before = m.header.version
        out = "ok"
        try:
            if ev["op"] == "add":
                from . import enums
                if ev["a"] == "bogus" and (k + step) % 4 != 3:
                    # unknown names include the known ones followed by a line feed ('$' of a pattern matches before it)
                    odd = ["src\n", "x86_64\n", "nosrc\n"][(k + step) % 4]
                    m.add(ev["v"], odd, imgs[ev["img"]])
                elif ev["a"] not in enums.RPM_ARCHES and (k + step) % 2:
                    # the image itself claims the unknown architecture of the tree it is offered to (put back after the refusal)
                    own = imgs[ev["img"]].arch
                    imgs[ev["img"]].arch = ev["a"]
                    try:
                        m.add(ev["v"], ev["a"], imgs[ev["img"]])
                    finally:
                        imgs[ev["img"]].arch = own
                else:
                    ident0 = json.dumps([getattr(imgs[ev["img"]], a_) for a_ in IDENT_ATTRS])
                    m.add(ev["v"], ev["a"], imgs[ev["img"]])
                    if json.dumps([getattr(imgs[ev["img"]], a_) for a_ in IDENT_ATTRS]) != ident0:
                        fails.append("step %d: add(%s, %s, %s) changed the identifying attributes of the image it was given: %s -> %s (hist=%s, k=%d)"
                                     % (step, ev["v"], ev["a"], ev["img"], ident0, json.dumps([getattr(imgs[ev["img"]], a_) for a_ in IDENT_ATTRS]),
                                        _short(case["hist"]), k))
                        return fails
            elif ev["op"] == "setversion":
                m.header.version = VERSTR[ev["ver"]]
            elif ev["op"] == "edit":
                # the identifying attributes of the image (the pool object and every filed object of that name) are reassigned
                from productmd.images import identify_image
                objs = [imgs[ev["img"]]] + [i for v in m.images for a in m.images[v] for i in m.images[v][a]
                                            if i.path.split("/")[-1][:-4] == ev["img"] and i is not imgs[ev["img"]]]
                for o in objs:
                    new_ident = image_fields(ev["img"], ev["ident"], POOL[ev["img"]][1], k, s)
                    for at, val in ((a_, new_ident[a_]) for a_ in IDENT_ATTRS):
                        setattr(o, at, list(val) if isinstance(val, list) else val)
                    ser = []
                    o.serialize(ser)
                    if identify_image(o) != identify_image(ser[0]):
                        fails.append("step %d: after reassigning identity attributes of %s, identify_image(object) = %s but its "
                                     "serialised record gives %s" % (step, ev["img"], tuple(identify_image(o)), tuple(identify_image(ser[0]))))
                        return fails
            elif ev["op"] == "dump":
                text = m.dumps()
                json.loads(text)
            elif ev["op"] == "load":
                m2 = Images()
                m2.loads(doc_text(norm_cells(ev["doc"]), ev["ver"], k, s))
                m = m2
            elif ev["op"] == "loadinto":
                m.loads(doc_text(norm_cells(ev["doc"]), ev["ver"], k, s))
        except ValueError:
            out = "ValueError"
        except Exception as exc:
            out = type(exc).__name__
        if out == "ValueError" and ev["op"] == "load" and ev["out"] == "ValueError" and case.get("focus", "C09") == "C09" and (k + s + step) % 3 == 0:
            # the same refused document met through productmd.compose.Compose, next to a well-formed manifest under the other
            # file name: whichever name the library prefers, it never answers a refused images.json with the other file's content
            bad = _via_compose(doc_text(norm_cells(ev["doc"]), ev["ver"], k, s), k, s)
            if bad:
                fails.append("step %d load: %s (hist=%s, k=%d)" % (step, bad, _short(case["hist"]), k))
                return fails
        after = project(m)
        if out != ev["out"]:
            fails.append("step %d %s: model outcome %s, code outcome %s (hist=%s, k=%d)"
                         % (step, ev["op"], ev["out"], out, _short(case["hist"]), k))
            return fails
        if out != "ok" and ev["op"] == "loadinto":
            return fails          # a refused merge leaves the object half-merged: nothing more to compare
        if out != "ok" and (before != after or hdr_before != m.header.version):
            fails.append("step %d: refused %s changed the manifest: %s -> %s" % (step, ev["op"], before, after))
            return fails
    got = project(m)
    exp = norm_cells(case["cells"])
    if got != exp:
        fails.append("final cells differ: model %s, code %s (hist=%s, k=%d)" % (exp, got, _short(case["hist"]), k))
    # C09 invariant on the real object (format >= 1.1 and no pre-1.1 format ever declared)
    if not case["exempt"]:
        from productmd.images import identify_image
        filed = [i for v in m.images for a in m.images[v] for i in m.images[v][a]]
        for x in filed:
            for y in filed:
                if identify_image(x) == identify_image(y) and x.checksums != y.checksums:
                    fails.append("manifest (never declared pre-1.1) holds identity-equal images with different "
                                 "checksums: %s vs %s (hist=%s)" % (x.path, y.path, _short(case["hist"])))
                    return fails
    # C10 invariant on the real object
    import productmd.common
    for key in got:
        a = key.split("/")[1]
        if a in ("src", "nosrc") or a not in productmd.common.RPM_ARCHES:
            fails.append("source/unknown arch key %s in manifest (hist=%s)" % (key, _short(case["hist"])))
    if case.get("focus") == "C05" and got:
        from productmd.images import Images as _I
        try:
            text = m.dumps()
            again = _I()
            again.loads(text)
            if again.dumps() != text:
                fails.append("second write after the upgrade is not byte-identical (hist=%s)" % _short(case["hist"]))
            if project(again) != got:
                fails.append("re-loaded upgraded manifest differs: %s vs %s (hist=%s)" % (project(again), got, _short(case["hist"])))
        except Exception as exc:
            if not (case["hist"][0].get("ver") == 100 and "UNIQUE_IMAGE_ATTRIBUTES" in str(exc)):     # F-05b territory (1.0 exemption)
                fails.append("upgraded manifest cannot be written and re-read: %s: %s (hist=%s)" % (type(exc).__name__, exc, _short(case["hist"])))
    if case.get("focus") in ("C10", "C05") and got:
        try:
            if case.get("focus") == "C10":
                # the dict spelling: deserialize(parsed) twice, serialize({}) and serialize(over the previous document)
                from . import core
                from productmd.images import Images as _I2
                try:
                    _I2().loads(m.dumps())
                    readable = True
                except ValueError:
                    readable = False       # a pre-1.1 document with look-alike images, upgraded: F-05b territory (C05 reports it)
                if readable:
                    fails += ["%s (hist=%s)" % (f, _short(case["hist"])) for f in core.dict_cycle(m, m.dumps(), "manifest")]
                # ... and serialize() over the OLD document the caller parsed (converting a file in place): no source arch
                # key survives, nothing is listed twice
                for ev in case["hist"][-1:]:
                    if ev["op"] == "load" and ev.get("out") == "ok":
                        old = json.loads(doc_text(norm_cells(ev["doc"]), ev["ver"], k, s))
                        m.serialize(old)
                        if core.canonical_json(old) != m.dumps():
                            fails.append("serialize() over the parsed old document differs from dumps() (hist=%s)" % _short(case["hist"]))
            doc = json.loads(m.dumps())
            for v in doc["payload"]["images"]:
                for a in doc["payload"]["images"][v]:
                    if a in ("src", "nosrc") or a not in productmd.common.RPM_ARCHES:
                        fails.append("dumped payload has source/unknown arch key %s/%s (hist=%s)" % (v, a, _short(case["hist"])))
        except Exception as exc:
            fails.append("manifest cannot be written back: %s: %s (hist=%s)" % (type(exc).__name__, exc, _short(case["hist"])))
    return fails


def _via_compose(refused_text, k, s):
    import os
    import shutil
    import tempfile
    import productmd.compose
    d = tempfile.mkdtemp(prefix="verif-c09c-")
    try:
        md = os.path.join(d, "compose", "metadata")
        os.makedirs(md)
        from . import c20
        with open(os.path.join(md, "composeinfo.json"), "w") as fh:
            fh.write(c20.doc("info", 1))
        good = doc_text({"S/x86_64": ["i1a"]}, 102, k, s)
        out = []
        for refused_name, other in (("images.json", "image-manifest.json"), ("image-manifest.json", "images.json")):
            for fn in (refused_name, other):
                p = os.path.join(md, fn)
                if os.path.exists(p):
                    os.unlink(p)
            with open(os.path.join(md, refused_name), "w") as fh:
                fh.write(refused_text)
            # alone: must be refused
            try:
                productmd.compose.Compose(d).images
                return "Compose(path).images returned a manifest for a %s that Images.loads() refuses" % refused_name
            except RuntimeError:
                pass
            except Exception as exc:
                return "Compose(path).images raised %s instead of RuntimeError for a refused %s" % (type(exc).__name__, refused_name)
            with open(os.path.join(md, other), "w") as fh:
                fh.write(good)
            try:
                productmd.compose.Compose(d).images
                out.append(refused_name)
            except RuntimeError:
                pass
        if len(out) == 2:
            return ("Compose(path).images answers a refused manifest with the content of the file under the other name, whichever "
                    "of the two names the refused document has")
        return None
    finally:
        shutil.rmtree(d, ignore_errors=True)


def _short(hist):
    out = []
    for e in hist:
        if e["op"] == "add":
            out.append("add(%s,%s,%s)" % (e["v"], e["a"], e["img"]))
        elif e["op"] == "setversion":
            out.append("ver=%s" % e["ver"])
        elif e["op"] == "edit":
            out.append("edit(%s:=%s)" % (e["img"], e["ident"]))
        elif e["op"] in ("load", "loadinto"):
            out.append("%s(%s,%s)" % (e["op"], e["ver"], json.dumps(e["doc"], sort_keys=True)))
        else:
            out.append(e["op"])
    return ";".join(out)


AV_LISTS = [[], ["Zeta", "Alpha"], ["b", "a", "c"], ["Server", "Server"], ["x"]]


def identity_agreement_cases():
    """identify_image(object) == identify_image(serialised dict) for every pool image x variant k,
    and for unified images with every additional_variants list shape (unsorted, duplicates)."""
    cases = []
    for k in range(7):
        for n, (ident, sums) in POOL.items():
            cases.append({"kind": "ident", "k": k, "name": n})
    for i, av in enumerate(AV_LISTS):
        for unified in (True, False):
            if av and not unified:
                continue
            cases.append({"kind": "ident", "k": 0, "name": "i1a", "av": av, "unified": unified})
    return cases


def eval_identity(case):
    from productmd.images import Images, identify_image
    m = Images()
    n, k = case["name"], case["k"]
    f = image_fields(n, POOL[n][0], POOL[n][1], k)
    if "av" in case:
        f["unified"] = case["unified"]
        f["additional_variants"] = list(case["av"])
    img = make_image(m, f)
    out = []
    img.serialize(out)
    a, b = identify_image(img), identify_image(out[0])
    fails = []
    if tuple(a) != tuple(b):
        fails.append("identify_image(object)=%s differs from identify_image(dict)=%s" % (tuple(a), tuple(b)))
    exp = {x: f[x] for x in IDENT_ATTRS}
    if "av" in case:
        exp["unified"] = case["unified"]
        exp["additional_variants"] = list(case["av"])
    if [getattr(a, x, "<missing>") for x in IDENT_ATTRS] != [exp[x] for x in IDENT_ATTRS]:
        fails.append("identify_image(object)=%s is not the seven documented attributes %s" % (tuple(a), exp))
    return fails
