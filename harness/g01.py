"""G01 (growth, not a listed property): labels, versions and derived compose attributes (Labels.tla)."""
from . import core
from .forest_adapter import new_ci


def lab(x):
    return "%s-%d.%d" % (x["name"], x["major"], x["minor"])


def evaluate(case):
    import productmd.composeinfo as CI
    import productmd.common as C
    fails = []
    if case["kind"] == "pair":
        a, b = lab(case["x"]), lab(case["y"])
        got = CI.cmp_label(a, b)
        exp = {"lt": -1, "eq": 0, "gt": 1}[case["cmp"]]
        if (got > 0) - (got < 0) != exp:
            fails.append("cmp_label(%r, %r) = %r, table order then numeric version says %s" % (a, b, got, case["cmp"]))
    elif case["kind"] == "label":
        ci = new_ci()
        ci.compose.label = lab(case["x"])
        ci.compose.final = case["final"]
        try:
            ci.compose.validate()
        except Exception as exc:
            return ["label %r refused: %s" % (ci.compose.label, exc)]
        if ci.compose.is_ga != case["is_ga"]:
            fails.append("is_ga of %r final=%r is %r, expected %r" % (ci.compose.label, case["final"], ci.compose.is_ga, case["is_ga"]))
        if ci.compose.label_major_version != "%s-%d" % (case["x"]["name"], case["x"]["major"]):
            fails.append("label_major_version of %r is %r" % (ci.compose.label, ci.compose.label_major_version))
        if ci.compose.full_label != "%s-%s %s" % (ci.release.short, ci.release.version, ci.compose.label):
            fails.append("full_label of %r is %r" % (ci.compose.label, ci.compose.full_label))
        c2 = type(ci)()
        v = __import__("productmd.composeinfo").composeinfo.Variant(ci)
        v.id = v.uid = v.name = "S"
        v.type = "variant"
        v.arches = set(["x86_64"])
        ci.variants.add(v)
        c2.loads(ci.dumps())
        if (c2.compose.label, c2.compose.is_ga) != (ci.compose.label, ci.compose.is_ga):
            fails.append("label / is_ga change over a write/read cycle: %r %r" % (c2.compose.label, c2.compose.is_ga))
    else:
        v = ".".join(str(i) for i in case["v"])
        if C.split_version(v) != list(case["v"]):
            fails.append("split_version(%r) = %r" % (v, C.split_version(v)))
        if C.get_major_version(v) != str(case["major"]):
            fails.append("get_major_version(%r) = %r" % (v, C.get_major_version(v)))
        em = None if case["minor"] == 99 else str(case["minor"])
        if C.get_minor_version(v) != em:
            fails.append("get_minor_version(%r) = %r, expected %r" % (v, C.get_minor_version(v), em))
        for free in ("rawhide", "Rawhide.1", "_1.2"):
            if C.split_version(free) != [free]:
                fails.append("split_version(%r) = %r" % (free, C.split_version(free)))
    return fails


def run(ctx):
    from . import enums as CI
    ctx.rule = "growth spec Labels.tla: label order, is_ga, label_major_version, full_label, split/major/minor version; every emitted case on the real functions"
    mod, files, lines = core.gen_module("Labels", {"Names": list(CI.LABEL_NAMES)})
    cases = []
    cfg = core.cfg_with("Labels.cfg", [], {}) + "\n".join(lines) + "\n"
    ctx.require_ok(ctx.tlc(mod, cfg_text=cfg, extra_files=files, on_emit=cases.append))
    ctx.exhaustive = True
    ctx.evaluate(evaluate, cases, label="labels", chunk=500)


def replay(info):
    return evaluate(info["case"])
