"""C13 RPM name-epoch:version-release.arch strings are parsed back to their parts (Nvra.tla)."""
from . import core

LETTERS = ["a", "Z", "q", "R", "m"]
DIGITS = ["7", "0", "3", "12"[0], "9"]


def render(toks, rot, arches):
    out = []
    for i, t in enumerate(toks):
        if t == "L":
            out.append(LETTERS[(rot + i) % len(LETTERS)])
        elif t == "D":
            out.append(DIGITS[(rot + i) % len(DIGITS)])
        elif t in ("a1", "a2", "a3"):
            out.append(arches[(rot * 3 + int(t[1])) % len(arches)])
        else:
            out.append(t)
    return "".join(out)


def evaluate(case):
    import productmd.common as C
    from . import enums
    from productmd.rpms import Rpms
    rot = case.get("rot", 0)
    arches = [a for a in enums.RPM_ARCHES]
    p = case["parts"]
    s = render(case["s"], rot, arches)
    # render parts with the same positions as inside s: recompute offsets
    # (tokens are position-rendered, so render the parts by locating them in the token string)
    toks = case["s"]

    def find(sub, start=0):
        n = len(sub)
        for i in range(start, len(toks) - n + 1):
            if toks[i:i + n] == sub:
                return i
        return -1
    # parts are rendered from the canonical position: name starts after the dir prefix
    dir_len = len(toks) - len(p["name"]) - 1 - (len(p["epoch"]) + 1 if p["epoch"] else 0) - len(p["version"]) - 1 \
        - len(p["release"]) - 2 - (4 if toks[-4:] == [".", "r", "p", "m"] else 0)
    pos = dir_len
    chars = list(s_chars(toks, rot, arches))
    name = "".join(chars[pos:pos + len(p["name"])])
    pos += len(p["name"]) + 1
    epoch = 0
    if p["epoch"]:
        epoch = int("".join(chars[pos:pos + len(p["epoch"])]))
        pos += len(p["epoch"]) + 1
    version = "".join(chars[pos:pos + len(p["version"])])
    pos += len(p["version"]) + 1
    release = "".join(chars[pos:pos + len(p["release"])])
    pos += len(p["release"]) + 1
    arch = chars[pos]
    exp = {"name": name, "epoch": epoch, "version": version, "release": release, "arch": arch}
    fails = []
    try:
        got = C.parse_nvra(s)
    except Exception as exc:
        return ["parse_nvra(%r) raised %s: %s (expected %s)" % (s, type(exc).__name__, exc, exp)]
    if got != exp:
        fails.append("parse_nvra(%r) = %s, expected %s" % (s, got, exp))
        return fails
    try:
        twice = C.parse_nvra(s)
    except Exception as exc:
        return ["parse_nvra(%r) raised %s when called a second time" % (s, exc)]
    if twice != exp or twice is got:
        fails.append("parse_nvra(%r) called a second time returns %s%s" % (s, twice, " (the same dict object)" if twice is got else ""))
    got["name"] = "<caller edits the returned dict>"
    if C.parse_nvra(s) != exp:
        fails.append("parse_nvra(%r) is affected by the caller editing an earlier result" % s)
    canon = "%s-%d:%s-%s.%s" % (name, epoch, version, release, arch)
    try:
        again = C.parse_nvra(canon)
    except Exception as exc:
        return ["parse_nvra(canonical %r) raised %s" % (canon, exc)]
    if again != exp:
        fails.append("canonical form %r parses to %s, not the fixed point %s" % (canon, again, exp))
    if not fails and case.get("stretch"):
        # the same parts stretched to lengths and shapes single-character rendering does not reach: a directory prefix longer
        # than any file-name limit, '.rpm' occurring inside the directory / name / release, epochs beyond 32 and 64 bits
        for d_, n_, e_, v_, r_, sfx in (
                ("d" * 300 + "/", name, epoch, version, release, ""),
                ("/", name, epoch, version, release, ""), ("//", name, epoch, version, release, ".rpm"), ("./", name, epoch, version, release, ""),
                ("/srv/mirror.rpms/pool/" + "sub-dir.1/" * 30, name, epoch, version, release, ".rpm"),
                ("pool/x86_64.rpm.d/", name, epoch, version, release, ".rpm"),
                ("Fedora 40/Every thing/", name, epoch, version, release, ".rpm"),
                # the directory repeats the package's own name with a dash (build roots, flat repositories named after it)
                ("work/%s-repo/" % name, name, epoch, version, release, ".rpm"), ("build/%s-2.18/%s-/" % (name, name), name, epoch, version, release, ""),
                ("2013:12:12/Packages/", name, epoch, version, release, ".rpm"), ("/mnt/koji/packages/%s/" % name, name, epoch, version, release, ".rpm"), ("tab\there/", name, epoch, version, release, ""),
                ("", name + ".rpm-macros", epoch, version, release, ".rpm"),
                ("", name, epoch, version, release + ".rpmfusion", ".rpm"),
                ("a/", name, 10 ** 10 + epoch, version, release, ""),
                ("", name, 2 ** 64 + 12345678901 + epoch, version, release, ".rpm"),
                ("", name, 10 ** 1024 + epoch, version, release, ""), ("d/", name, 7 * 10 ** 2500 + 10 ** 1023 + epoch, version, release, ".rpm")):
            s2 = "%s%s-%d:%s-%s.%s%s" % (d_, n_, e_, v_, r_, arch, sfx)
            exp2 = {"name": n_, "epoch": e_, "version": v_, "release": r_, "arch": arch}
            try:
                got2 = C.parse_nvra(s2)
            except Exception as exc:
                fails.append("parse_nvra(%r) raised %s: %s (expected %s)" % (s2 if len(s2) < 120 else s2[:60] + "..." + s2[-50:], type(exc).__name__, exc, exp2))
                continue
            if got2 != exp2:
                fails.append("parse_nvra(%r) = %s, expected %s" % (s2 if len(s2) < 120 else s2[:60] + "..." + s2[-50:], got2, exp2))
                continue
            if len(s2) < 200 and e_ < 10 ** 12:
                # the same string offered to the manifest builder (it carries an epoch): filed under the canonical key
                m2 = Rpms()
                src2 = arch in ("src", "nosrc")
                canon2 = "%s-%d:%s-%s.%s" % (n_, e_, v_, r_, arch)
                try:
                    m2.add("V", "x86_64", s2, "p/x.rpm", None, "source" if src2 else "binary", None if src2 else "srcpkg-0:1-1.src")
                    keys2 = [k for sk in m2.rpms["V"]["x86_64"] for k in m2.rpms["V"]["x86_64"][sk]]
                    if keys2 != [canon2]:
                        fails.append("Rpms.add(%r) filed key %r, expected canonical %r" % (s2, keys2, canon2))
                except Exception as exc:
                    fails.append("Rpms.add(%r) raised %s: %s" % (s2, type(exc).__name__, exc))
        if fails:
            return fails[:3]
    if p["epoch"]:
        m = Rpms()
        src = arch in ("src", "nosrc")
        try:
            m.add("V", "x86_64", s, "p/x.rpm", None, "source" if src else "binary", None if src else "srcpkg-0:1-1.src")
        except Exception as exc:
            return fails + ["Rpms.add(%r) raised %s: %s" % (s, type(exc).__name__, exc)]
        keys = [k for sk in m.rpms["V"]["x86_64"] for k in m.rpms["V"]["x86_64"][sk]]
        if keys != [canon]:
            fails.append("Rpms.add(%r) filed key %r, expected canonical %r" % (s, keys, canon))
        if src and list(m.rpms["V"]["x86_64"]) != [canon]:
            fails.append("source rpm %r filed under %r" % (s, list(m.rpms["V"]["x86_64"])))
    return fails


def s_chars(toks, rot, arches):
    for i, t in enumerate(toks):
        yield render([t], rot + i, arches) if t in ("L", "D") else render([t], rot, arches)


def run(ctx):
    ctx.rule = ("TLC enumerates part tuples (names of 1-3 dash-separated segments over letter/digit/./_/+ incl. all-digit "
                "segments; epochs none/1/2 digits; versions/releases over the 7 classes; 6 directory prefixes incl. dashes, blanks, "
                "dots and ':'; with/without .rpm; 3 model arches rotated over the whole table), checks ParseRef(Format(p)) = p "
                "and the canonical fixed point on the model, and emits each string; the real parse_nvra / Rpms.add must return "
                "the parts the string was built from. non-trivial = distinct (token string, concretisation)")
    ctx.assumptions += ["character classes are represented by rotating representatives (letters upper/lower, all digits)"]
    cases = []
    for sl in (["small", "vers", "names"]):
        out = []
        cfg = core.cfg_with("Nvra.cfg", ["CONSTRAINT Emit"], {"Slice": sl})
        ctx.require_ok(ctx.tlc("Nvra", cfg_text=cfg, constants={"Slice": sl}, on_emit=out.append))
        cases += out
    nrot = 2 if ctx.quick else 21
    allc = []
    for i, c in enumerate(cases):
        for k in range(nrot):
            d = dict(c)
            d["rot"] = (i * 7 + k + ctx.seed) % 61 if ctx.quick else (k * 3 + i) % 63
            d["stretch"] = (i % 9 == 0 and k == 0)
            allc.append(d)
    ctx.exhaustive = True
    ctx.evaluate(evaluate, allc, label="nvra", key=lambda c: core._digest([c["s"], c["rot"]]), chunk=1000)


def replay(info):
    return evaluate(info["case"])
