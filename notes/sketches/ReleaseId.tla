---- MODULE ReleaseId ----
EXTENDS Naturals, Sequences, FiniteSets, TLC, SequencesExt
\* strings are sequences of 1-char strings over class representatives
Lower == {"a","g","f","s","t","u","p","e"}   Upper == {"A"}   Digit == {"1"}
Chars == Lower \cup Upper \cup Digit \cup {"-", ".", "@", "_"}
AlNum(c) == c \in Lower \cup Digit

\* documented grammar: lowercase letter, then lowercase alnum, in non-empty dash-separated segments
RECURSIVE SegOk(_, _)
SegOk(w, i) == \* every char alnum or a dash that is neither first/last nor doubled
  IF i > Len(w) THEN TRUE
  ELSE /\ \/ AlNum(w[i])
          \/ w[i] = "-" /\ i > 1 /\ i < Len(w) /\ w[i+1] # "-"
       /\ SegOk(w, i+1)
DocShort(w) == Len(w) > 0 /\ w[1] \in Lower /\ SegOk(w, 1)
DocType(w)  == DocShort(w)
RECURSIVE DottedNum(_, _, _)
DottedNum(w, i, prevDigit) ==
  IF i > Len(w) THEN prevDigit
  ELSE IF w[i] \in Digit THEN DottedNum(w, i+1, TRUE)
  ELSE IF w[i] = "." /\ prevDigit THEN DottedNum(w, i+1, FALSE)
  ELSE FALSE
DocVersion(w) == Len(w) > 0 /\ (IF w[1] \in Digit THEN DottedNum(w, 1, FALSE) ELSE TRUE)

\* --- release id
KnownTypes == << <<"f","a","s","t">>, <<"g","a">>, <<"u","p">>, <<"u","p","-","t">>, <<"e","u","s">> >>  \* abbreviated table, order matters
Dash == <<"-">>
Create(s, v, t) == IF t = <<"g","a">> THEN s \o Dash \o v ELSE s \o Dash \o v \o Dash \o t
Count(w, c) == Cardinality({i \in 1..Len(w) : w[i] = c})
EndsWith(w, x) == Len(w) >= Len(x) /\ SubSeq(w, Len(w)-Len(x)+1, Len(w)) = x
LastIdx(w, c) == LET S == {i \in 1..Len(w) : w[i] = c} IN IF S = {} THEN 0 ELSE CHOOSE i \in S : \A j \in S : j <= i
\* rsplit(sep, n): list of up to n+1 pieces from the right
RECURSIVE RSplit(_, _)
RSplit(w, n) == IF n = 0 \/ LastIdx(w, "-") = 0 THEN << w >>
                ELSE LET k == LastIdx(w, "-") IN Append(RSplit(SubSeq(w, 1, k-1), n-1), SubSeq(w, k+1, Len(w)))
FirstKnown(w) == LET S == {i \in 1..Len(KnownTypes) : EndsWith(w, KnownTypes[i])}
                 IN IF S = {} THEN 0 ELSE CHOOSE i \in S : \A j \in S : i <= j
\* the shipped algorithm (common.py:492-521)
ParseImpl(w) ==
  IF Count(w, "-") = 1 THEN LET p == RSplit(w, 1) IN [short |-> p[1], version |-> p[2], type |-> <<"g","a">>]
  ELSE LET k == FirstKnown(w)
           w2 == IF k = 0 THEN w ELSE SubSeq(w, 1, Len(w) - Len(KnownTypes[k]))
           p == RSplit(w2, 2)
       IN IF Len(p) < 3 THEN [short |-> <<>>, version |-> <<>>, type |-> <<"?">>]   \* ValueError in code
          ELSE [short |-> p[1], version |-> p[2], type |-> IF k = 0 THEN p[3] ELSE KnownTypes[k]]

Shorts   == { <<"a">>, <<"a","1">>, <<"a","-","g">>, <<"a","-","1">>, <<"g","-","a","-","1">> }
Versions == { <<"1">>, <<"1",".","1">>, <<"g">>, <<"f","a","s","t">>, <<"a","g","a">>, <<"1","1","1">> }
Types    == { KnownTypes[i] : i \in 1..Len(KnownTypes) }

VARIABLES s, v, t
Init == s \in Shorts /\ v \in Versions /\ t \in Types
Next == UNCHANGED <<s, v, t>>
Valid == DocShort(s) /\ DocVersion(v) /\ DocType(t)
RoundTripImpl == LET r == ParseImpl(Create(s, v, t)) IN r.short = s /\ r.version = v /\ r.type = t
Injective == \A s2 \in Shorts, v2 \in Versions, t2 \in Types :
               Create(s2, v2, t2) = Create(s, v, t) => <<s2, v2, t2>> = <<s, v, t>>
AllValid == Valid
====
