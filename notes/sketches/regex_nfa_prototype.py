import re, sys, itertools
from re import _parser as sp
from re import _constants as sc
UNIVERSE = [chr(c) for c in range(32,127)] + ["\n", "é"]
class NFA:
    def __init__(s): s.n=0; s.eps={}; s.cons=[]   # cons: (u, pred_id, v)
    def new(s): s.n+=1; return s.n-1
    def e(s,u,v): s.eps.setdefault(u,[]).append(v)
def cat_pred(cat):
    return {sc.CATEGORY_DIGIT: str.isdigit, sc.CATEGORY_NOT_DIGIT: lambda c: not c.isdigit(),
            sc.CATEGORY_SPACE: str.isspace, sc.CATEGORY_NOT_SPACE: lambda c: not c.isspace(),
            sc.CATEGORY_WORD: lambda c: c.isalnum() or c=="_", sc.CATEGORY_NOT_WORD: lambda c: not(c.isalnum() or c=="_")}[cat]
def in_pred(items):
    neg=False; preds=[]
    for op,arg in items:
        if op==sc.NEGATE: neg=True
        elif op==sc.LITERAL: preds.append(lambda c,a=arg: ord(c)==a)
        elif op==sc.RANGE: preds.append(lambda c,a=arg: a[0]<=ord(c)<=a[1])
        elif op==sc.CATEGORY: preds.append(cat_pred(arg))
        else: raise NotImplementedError(op)
    return lambda c: (any(p(c) for p in preds)) != neg
def build(nfa, tree, start):
    """returns end state; concatenation of items"""
    cur=start
    for op,arg in tree:
        if op==sc.LITERAL: v=nfa.new(); nfa.cons.append((cur, frozenset(c for c in UNIVERSE if ord(c)==arg), v)); cur=v
        elif op==sc.NOT_LITERAL: v=nfa.new(); nfa.cons.append((cur, frozenset(c for c in UNIVERSE if ord(c)!=arg), v)); cur=v
        elif op==sc.ANY: v=nfa.new(); nfa.cons.append((cur, frozenset(c for c in UNIVERSE if c!="\n"), v)); cur=v
        elif op==sc.IN: p=in_pred(arg); v=nfa.new(); nfa.cons.append((cur, frozenset(c for c in UNIVERSE if p(c)), v)); cur=v
        elif op==sc.SUBPATTERN: cur=build(nfa, arg[3], cur)
        elif op==sc.BRANCH:
            end=nfa.new()
            for alt in arg[1]:
                s=nfa.new(); nfa.e(cur,s); e=build(nfa, alt, s); nfa.e(e,end)
            cur=end
        elif op in (sc.MAX_REPEAT, sc.MIN_REPEAT):
            lo,hi,sub=arg
            for _ in range(lo): cur=build(nfa, sub, cur)
            if hi==sc.MAXREPEAT:
                # loop: cur -> s ...e -> cur ; cur -> out
                s=nfa.new(); out=nfa.new(); nfa.e(cur,s); nfa.e(cur,out); e=build(nfa, sub, s); nfa.e(e,s); nfa.e(e,out); cur=out
            else:
                out=nfa.new(); nfa.e(cur,out)
                for _ in range(hi-lo):
                    s=nfa.new(); nfa.e(cur,s); cur=build(nfa, sub, s); nfa.e(cur,out)
                cur=out
        elif op==sc.AT: pass
        else: raise NotImplementedError(op)
    return cur
def compile_pattern(pat):
    nfa=NFA(); s=nfa.new(); end=build(nfa, sp.parse(pat), s); acc=nfa.new(); nfa.e(end,acc)
    cons_from={}
    for (u,cl,v) in nfa.cons: cons_from.setdefault(u,[]).append((cl,v))
    interesting=set(cons_from)|{acc}
    # simple eps paths from x to interesting states
    def eps_paths(x):
        out=[]; 
        def dfs(y,path):
            if y in interesting: out.append((y,tuple(path)))
            for z in nfa.eps.get(y,[]):
                if z not in path: dfs(z,path+[z])
        dfs(x,[x]); return out
    # atoms
    classes=sorted({cl for (_,cl,_) in nfa.cons}, key=sorted)
    sig={}
    for c in UNIVERSE: sig.setdefault(tuple(c in cl for cl in classes),[]).append(c)
    atoms=[v[0] for v in sig.values()]
    starts=eps_paths(s)
    edges=[]  # (id, from, atom, to)
    for u in cons_from:
        for (cl,v) in cons_from[u]:
            for (w,path) in eps_paths(v):
                for a in atoms:
                    if a in cl: edges.append((len(edges),u,a,w))
    return dict(starts=[w for w,_ in starts], acc=acc, edges=edges, atoms=atoms, nstates=nfa.n)
def eda(m):
    by={}
    for (i,u,a,w) in m["edges"]: by.setdefault((u,a),[]).append((i,w))
    states={u for (_,u,_,_) in m["edges"]}
    for q in states:
        seen={(q,q,False)}; stack=[(q,q,False,())]
        while stack:
            x,y,d,word=stack.pop()
            for a in m["atoms"]:
                for (i,x2) in by.get((x,a),[]):
                    for (j,y2) in by.get((y,a),[]):
                        d2=d or i!=j
                        if d2 and x2==q and y2==q: return (q, "".join(word)+a)
                        if (x2,y2,d2) not in seen:
                            seen.add((x2,y2,d2)); stack.append((x2,y2,d2,word+(a,)))
    return None
if __name__=="__main__":
    pats=[r"^[a-z]+([a-z0-9]*-?[a-z0-9]+)*$", r"^[a-z][a-z0-9]*(-[a-z0-9]+)*$", r"^([^0-9].*|([0-9]+(\.?[0-9]+)*))$", r"^([^0-9].*|([0-9]+(\.[0-9]+)*))$",
      r"^(.*/)?(?P<name>.*)-((?P<epoch>\d+):)?(?P<version>.*)-(?P<release>.*)\.(?P<arch>.*)$", r"^\d+\.\d+$", "^[^0-9].*", r"^RC-\d+\.\d+$",
      r".*(?P<date>\d{8})(?P<type>\.[a-z]+)?(\.(?P<respin>\d+))?.*", r".*\d{8}(\.nightly|\.n|\.ci|\.test|\.t)?(\.\d+)?", r"^\d{8}$", r"^[a-zA-Z0-9]+$", r"^[a-z0-9]{32}$",
      r"^(.*/)?(?P<module_name>[^:]+):(?P<stream>[^:]+)(:(?P<version>[^:]+))?(:(?P<context>[^:]+))?$", r"^\d", r"^\d+(\.\d+)*$", r"[-_]", r"(a*)*b", r"(a|a)*b", r"(a+)+$"]
    for p in pats:
        m=compile_pattern(p); r=eda(m)
        print("%-100s states=%3d edges=%4d atoms=%2d EDA=%s" % (p[:100], m["nstates"], len(m["edges"]), len(m["atoms"]), r))
