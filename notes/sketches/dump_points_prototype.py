import sys, os, io, builtins, inspect, tempfile, shutil
sys.path.insert(0, os.environ.get("VERIF_REPO","/repo"))
import productmd.common, productmd.composeinfo, productmd.images, productmd.treeinfo, productmd.discinfo, productmd.rpms, productmd.modules, productmd.extra_files
EVENTS=[]; INJECT={"at":None}; COUNTER={"n":0}
def wrap_validators():
    for mod in (productmd.common, productmd.composeinfo, productmd.images, productmd.treeinfo, productmd.discinfo):
        for cname, cls in inspect.getmembers(mod, inspect.isclass):
            if cls.__module__!=mod.__name__: continue
            for name, fn in list(vars(cls).items()):
                if name.startswith("_validate") and callable(fn):
                    def mk(fn, cname, name):
                        def w(self,*a,**k):
                            COUNTER["n"]+=1; idx=COUNTER["n"]
                            EVENTS.append(("validate", cname, name, idx))
                            if INJECT["at"]==idx: raise ValueError("injected at %d %s.%s"%(idx,cname,name))
                            return fn(self,*a,**k)
                        return w
                    setattr(cls, name, mk(fn,cname,name))
_open=builtins.open
def wrap_open(target):
    def o(path, mode="r", *a, **k):
        if path==target and ("w" in mode): EVENTS.append(("open", mode))
        return _open(path, mode, *a, **k)
    builtins.open=o
def sample_ci():
    from productmd.composeinfo import ComposeInfo, Variant
    c=ComposeInfo(); c.release.name="F"; c.release.short="F"; c.release.version="22"; c.release.type="ga"; c.release.is_layered=True
    c.base_product.name="R"; c.base_product.short="R"; c.base_product.version="7"; c.base_product.type="ga"
    c.compose.id="F-22-20150522.0"; c.compose.type="production"; c.compose.date="20150522"; c.compose.respin=0
    a=Variant(c); a.id=a.uid=a.name="S"; a.type="variant"; a.arches={"x"}; c.variants.add(a)
    b=Variant(c); b.id="o"; b.uid="S-o"; b.name="o"; b.type="optional"; b.arches={"x"}; a.add(b)
    return c
def sample_di():
    from productmd.discinfo import DiscInfo
    d=DiscInfo(); d.timestamp=1.5; d.description="x"; d.arch="x"; d.disc_numbers=["ALL"]; return d
wrap_validators()
td=tempfile.mkdtemp(); 
for name, mk in (("composeinfo",sample_ci),("discinfo",sample_di)):
    path=os.path.join(td,name); wrap_open(path)
    obj=mk(); EVENTS.clear(); COUNTER["n"]=0; INJECT["at"]=None
    obj.dump(path); good=_open(path).read()
    ev=list(EVENTS); npts=COUNTER["n"]; first_open=[i for i,e in enumerate(ev) if e[0]=="open"][0]
    before=sum(1 for e in ev[:first_open] if e[0]=="validate")
    print(name, "validation points:", npts, "before open:", before, "after open:", npts-before)
    destroyed=0
    for k in range(1,npts+1):
        _open(path,"w").write(good)
        obj=mk(); EVENTS.clear(); COUNTER["n"]=0; INJECT["at"]=k
        try: obj.dump(path); raised=False
        except ValueError: raised=True
        INJECT["at"]=None
        now=_open(path).read()
        if raised and now!=good: destroyed+=1
        if not raised: print("  point",k,"did not raise?")
    print("  injected failures that destroyed the file:", destroyed, "of", npts)
builtins.open=_open; shutil.rmtree(td)
