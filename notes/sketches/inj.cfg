INIT Init
NEXT Next
INVARIANT Injective
CHECK_DEADLOCK FALSE
