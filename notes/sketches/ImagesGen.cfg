INIT Init
NEXT Next
CONSTRAINT Emit
INVARIANT UniqueIdent
INVARIANT NoSourceArch
CHECK_DEADLOCK FALSE
CONSTANTS
 D = 3
