---- MODULE Trace_Images ----
EXTENDS Naturals, FiniteSets, Sequences, TLC, TLCExt, Json, IOUtils
\* all traces of a batch in one ndjson file: one line per trace: [tid, pool, events]
Batch == ndJsonDeserialize(IOEnv.TRACE_FILE)
VARIABLES hdr, cells, exempt, out, tid, l
Pool0       == JsonDeserialize(IOEnv.POOL_FILE)
Events(t)   == Batch[t].events
M == INSTANCE ImagesManifest WITH Variants <- {}, Arches <- {}, Pool <- Pool0,
        KnownArch <- {"x86_64","i386","src"}, SrcArch <- {"src"}, Current <- "1.2",
        Dev_FreshVersionZero <- TRUE
Init == /\ tid \in 1..Len(Batch) /\ l = 1
        /\ hdr = "0.0" /\ cells = [c \in {} |-> {}] /\ exempt = FALSE /\ out = "new"
Ev == Events(tid)[l]
Step == /\ l <= Len(Events(tid)) /\ l' = l + 1 /\ UNCHANGED tid
        /\ \/ /\ Ev.op = "add" /\ M!Add(Ev.v, Ev.a, Ev.img) /\ out' = Ev.out
              /\ Cardinality(DOMAIN cells') = Ev.ncells
           \/ /\ Ev.op = "setversion" /\ M!SetVersion(Ev.ver)
           \/ /\ Ev.op = "dump" /\ M!Dump
Next == Step
\* acceptance: remember the longest prefix matched per trace
Reached == TLCSet(tid, IF TLCGet(tid) < l THEN l ELSE TLCGet(tid))
InitReg == \A t \in 1..Len(Batch) : TLCSet(t, 0)
ASSUME InitReg
Constr == Reached
Post == \A t \in 1..Len(Batch) :
          IF TLCGet(t) = Len(Events(t)) + 1 THEN PrintT(<<"ACCEPT", Batch[t].tid>>)
          ELSE PrintT(<<"REJECT", Batch[t].tid, "at", TLCGet(t)>>)
UniqueIdent == M!UniqueIdent
====
