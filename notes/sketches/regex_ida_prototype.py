import sys; sys.path.insert(0,'/tmp/proto')
from nfa import compile_pattern, eda
import itertools, functools
def ida_degree(m):
    by={}
    for (i,u,a,w) in m["edges"]: by.setdefault((u,a),set()).add(w)
    states=sorted({u for (_,u,_,_) in m["edges"]}|{w for (_,_,_,w) in m["edges"]})
    # reachability
    succ={s:set() for s in states}
    for (_,u,a,w) in m["edges"]: succ[u].add(w)
    reach={s:{s} for s in states}
    ch=True
    while ch:
        ch=False
        for s in states:
            new=set().union(*[reach[t] for t in succ[s]]) if succ[s] else set()
            if not new<=reach[s]: reach[s]|=new; ch=True
    pairs=[]
    for p in states:
        for q in states:
            if p==q or q not in reach[p]: continue
            start=(p,p,q); goal=(p,q,q); seen={start}; st=[start]; found=False
            while st and not found:
                x,y,z=st.pop()
                for a in m["atoms"]:
                    for x2 in by.get((x,a),()):
                        for y2 in by.get((y,a),()):
                            for z2 in by.get((z,a),()):
                                t=(x2,y2,z2)
                                if t==goal: found=True
                                if t not in seen: seen.add(t); st.append(t)
            if found: pairs.append((p,q))
    # longest chain: (p1,q1),(p2,q2) with p2 in reach[q1]
    @functools.lru_cache(None)
    def longest(i):
        p,q=pairs[i]; best=1
        for j,(p2,q2) in enumerate(pairs):
            if j!=i and p2 in reach[q] and (p2,q2)!=(p,q) and not (p in reach[q2] and q2!=q and False):
                # avoid cycles: only allow if q2 not reaching back to p (DAG of SCCs); approximate
                if p not in reach[q2] or True:
                    pass
        return best
    # simple DP over pairs sorted by topological-ish order using recursion with visited guard
    sys.setrecursionlimit(10000)
    memo={}
    def L(i, stack=()):
        if i in memo: return memo[i]
        p,q=pairs[i]; best=1
        for j,(p2,q2) in enumerate(pairs):
            if j in stack or j==i: continue
            if p2 in reach[q] and p not in reach[q2]:   # strictly forward
                best=max(best,1+L(j,stack+(i,)))
        memo[i]=best; return best
    return (max([L(i) for i in range(len(pairs))]) if pairs else 0), len(pairs)
pats={"nvra":r"^(.*/)?(?P<name>.*)-((?P<epoch>\d+):)?(?P<version>.*)-(?P<release>.*)\.(?P<arch>.*)$",
 "uid":r"^(.*/)?(?P<module_name>[^:]+):(?P<stream>[^:]+)(:(?P<version>[^:]+))?(:(?P<context>[^:]+))?$",
 "gdtr":r".*(?P<date>\d{8})(?P<type>\.[a-z]+)?(\.(?P<respin>\d+))?.*", "cid":r".*\d{8}(\.nightly|\.n|\.ci|\.test|\.t)?(\.\d+)?",
 "hdr":r"^\d+\.\d+$","shortfix":r"^[a-z][a-z0-9]*(-[a-z0-9]+)*$","verfix":r"^([^0-9].*|([0-9]+(\.[0-9]+)*))$","tver":r"^\d+(\.\d+)*$", "five":r"^.*a.*b.*c.*d.*e.*f.*$"}
for k,p in pats.items():
    m=compile_pattern(p); print(k, "EDA" if eda(m) else "no-EDA", "ida_degree,pairs =", ida_degree(m))
