---- MODULE CIDoc ----
EXTENDS Naturals, Sequences, FiniteSets, TLC, Json
Paths  == {<<"A">>, <<"B">>, <<"A","o">>, <<"A","h">>, <<"A","o","h">>}
Types  == {"variant", "optional", "addon", "layered-product"}
Arches == {"x", "y"}
Cats   == {"c1", "c2"}
Parent(p) == SubSeq(p, 1, Len(p) - 1)
Last(p)   == p[Len(p)]
PrefixClosed(S) == \A p \in S : Len(p) > 1 => Parent(p) \in S
Shapes == {S \in SUBSET Paths : S # {} /\ PrefixClosed(S) /\ Cardinality(S) <= 3}
RECURSIVE Join(_)
Join(p) == IF Len(p) = 1 THEN p[1] ELSE Join(Parent(p)) \o "-" \o Last(p)
Empty == [k \in {} |-> 0]

VARIABLES nodes, typ, ar, pth   \* pth[p] = set of <<cat, arch, valueClass>> assigned through the API
Init == /\ nodes \in Shapes
        /\ typ \in [nodes -> Types] /\ \A p \in nodes : Len(p) = 1 => typ[p] # "layered-product"
        /\ ar \in [nodes -> (SUBSET Arches) \ {{}}]
        /\ \A p \in nodes : Len(p) > 1 => ar[p] \subseteq ar[Parent(p)]
        /\ pth \in [nodes -> {{}, {<<"c1","x","set">>}, {<<"c1","x","set">>, <<"c1","y","empty">>, <<"c2","y","set">>}}]
Next == UNCHANGED <<nodes, typ, ar, pth>>

Children(p) == {c \in nodes : Len(c) = Len(p) + 1 /\ Parent(c) = p}
Sorted(S) == [sorted |-> S]                       \* rendered by the harness in string order
PathVal(p, c, a) == "$path:" \o Join(p) \o ":" \o c \o ":" \o a
\* documented normalisation: only non-empty values for arches of the variant are stored
Stored(p) == {t \in pth[p] : t[3] = "set" /\ t[2] \in ar[p]}
PathsDoc(p) == LET cs == {t[1] : t \in Stored(p)}
               IN [c \in cs |-> LET as == {t[2] : t \in {u \in Stored(p) : u[1] = c}}
                                IN [a \in as |-> PathVal(p, c, a)]]
RelDoc(p) == ("name" :> "$lpname") @@ ("short" :> "$lpshort") @@ ("version" :> "$lpver") @@ ("type" :> "ga")
             @@ ("is_layered" :> TRUE) @@ ("internal" :> FALSE)
VariantDoc(p) == ("id" :> Last(p)) @@ ("uid" :> Join(p)) @@ ("name" :> "$name:" \o Join(p)) @@ ("type" :> typ[p])
                 @@ ("arches" :> Sorted(ar[p])) @@ ("paths" :> PathsDoc(p))
                 @@ (IF Children(p) # {} THEN ("variants" :> Sorted({Last(c) : c \in Children(p)})) ELSE Empty)
                 @@ (IF typ[p] = "layered-product" THEN ("release" :> RelDoc(p)) ELSE Empty)
VariantsDoc == [u \in {Join(p) : p \in nodes} |-> VariantDoc(CHOOSE p \in nodes : Join(p) = u)]
Obj == [nodes |-> {[path |-> p, type |-> typ[p], arches |-> ar[p], paths |-> pth[p]] : p \in nodes}]
Emit == PrintT("@@" \o ToJson([obj |-> Obj, variants |-> VariantsDoc]))
\* model-level checks: top-level detection from child lists; every uid once
Tops == {u \in DOMAIN VariantsDoc : ~\E w \in DOMAIN VariantsDoc :
            "variants" \in DOMAIN VariantsDoc[w] /\ \E c \in VariantsDoc[w]["variants"].sorted : VariantsDoc[w]["uid"] \o "-" \o c = u}
TopDetect == Tops = {Join(p) : p \in {q \in nodes : Len(q) = 1}}
UidOnce == Cardinality(DOMAIN VariantsDoc) = Cardinality(nodes)
====
