INIT Init
NEXT Next
INVARIANT NoSourceArch
INVARIANT UniqueIdent
PROPERTY RefusedIsNoop
CONSTRAINT Bound
CHECK_DEADLOCK FALSE
CONSTANTS
 Variants = {"S","C"}
 Arches = {"x86_64","src","bogus"}
 KnownArch = {"x86_64","src"}
 SrcArch = {"src"}
 Current = "1.2"
 Dev_FreshVersionZero = TRUE
 Pool <- MCPool
