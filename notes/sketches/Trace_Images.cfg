INIT Init
NEXT Next
CONSTRAINT Constr
POSTCONDITION Post
CHECK_DEADLOCK FALSE
