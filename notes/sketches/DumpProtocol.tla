---- MODULE DumpProtocol ----
EXTENDS Naturals, Sequences, TLC
\* One dump(path) of one metadata object (common.py:282-293, treeinfo.py:135-148).
\* NPoints validation points in call order; the first NTop of them are reached by the
\* top-level validate(), the rest inside nested section writers.
CONSTANTS NPoints, NTop, Dev_OpenBeforeSerialize
VARIABLES disk0, disk, pc, next, failAt
vars == <<disk0, disk, pc, next, failAt>>
Init == /\ disk0 \in {"Absent", "Old"} /\ disk = disk0
        /\ failAt \in 0..NPoints            \* 0 = no failure
        /\ pc = "validate_top" /\ next = 1
Point ==  \* run validation point `next`
  /\ next <= NPoints
  /\ IF failAt = next THEN pc' = "raised" /\ UNCHANGED <<disk, next>>
     ELSE next' = next + 1 /\ UNCHANGED <<disk, pc>>
ValidateTop == /\ pc = "validate_top" /\ next <= NTop /\ Point /\ UNCHANGED <<disk0, failAt>>
TopDone     == /\ pc = "validate_top" /\ next > NTop
               /\ pc' = IF Dev_OpenBeforeSerialize THEN "open" ELSE "serialize"
               /\ UNCHANGED <<disk0, disk, next, failAt>>
Open        == /\ pc = "open" /\ disk' = "Empty"               \* open(path, "w") truncates or creates
               /\ pc' = IF Dev_OpenBeforeSerialize THEN "serialize" ELSE "write"
               /\ UNCHANGED <<disk0, next, failAt>>
Serialize   == /\ pc = "serialize" /\ next <= NPoints /\ Point /\ UNCHANGED <<disk0, failAt>>
SerDone     == /\ pc = "serialize" /\ next > NPoints
               /\ pc' = IF Dev_OpenBeforeSerialize THEN "write" ELSE "open"
               /\ UNCHANGED <<disk0, disk, next, failAt>>
Write       == /\ pc = "write" /\ disk' = "New" /\ pc' = "done" /\ UNCHANGED <<disk0, next, failAt>>
Next == ValidateTop \/ TopDone \/ Open \/ Serialize \/ SerDone \/ Write
Spec == Init /\ [][Next]_vars /\ WF_vars(Next)
FailedDumpLeavesDisk == pc = "raised" => disk = disk0            \* C18
SuccessWrites        == pc = "done" => disk = "New" /\ failAt = 0
Terminates           == <>(pc \in {"done", "raised"})
====
