import sys, json, io, os, configparser, collections
sys.path.insert(0, os.environ.get("VERIF_REPO","/repo"))
from productmd.treeinfo import TreeInfo, Variant
def render(x):
    if isinstance(x,dict):
        if set(x)=={"csv"}: return ",".join(sorted(x["csv"]))
        if set(x)=={"first"}: return min(x["first"])
        return {k:render(v) for k,v in x.items()}
    if isinstance(x,str):
        if x.startswith("$path:"): _,u,k=x.split(":"); return "%s/%s"%(u,k)
        if x.startswith("$name:"): return "Pretty "+x[6:]
    return x
def ini(text):
    cp=configparser.RawConfigParser(); cp.optionxform=str; cp.read_string(text); return {s:dict(cp.items(s)) for s in cp.sections()}
def contains(exp, got, path=""):
    for k,v in exp.items():
        if k not in got: return "%s/%s missing"%(path,k)
        if isinstance(v,dict):
            r=contains(v,got[k],path+"/"+k)
            if r: return r
        elif got[k]!=v: return "%s/%s: expected %r got %r"%(path,k,v,got[k])
    return None
viol=collections.Counter(); first={}; n=0
for line in open(sys.argv[1]):
    if not line.startswith('"@@'): continue
    rec=json.loads(json.loads(line)[2:]); o=rec["obj"]; n+=1
    t=TreeInfo(); t.release.name="Fedora X"; t.release.short="FX"; t.release.version="20"; t.tree.arch=o["arch"]; t.tree.build_timestamp=123
    for u in sorted(o["tops"]):
        v=Variant(t); v.uid=u; v.id="o" if u=="S-o" else u; v.name="Pretty "+u; v.type=("optional" if u=="S-o" else "variant")
        for k in o["paths"][u]: setattr(v.paths,k,"%s/%s"%(u,k))
        t.variants.add(v, variant_id=(u if o["keyby"]=="uid" else v.id))
        kt=o["kidtype"][u]
        if kt!="none":
            c=Variant(t); c.id="h"; c.uid=u+"-h"; c.name="Pretty "+u+"-h"; c.type=kt; c.paths.packages="%s-h/packages"%u; v.add(c)
    mv=None if o["main"]=="default" else (o["main"] if o["keyby"]=="uid" else ("o" if o["main"]=="S-o" else o["main"]))
    why=None
    try:
        f=io.StringIO(); t.dump(f, main_variant=mv); text=f.getvalue()
    except Exception as e: why="dump raised "+type(e).__name__
    if not why:
        why=contains(render(rec["doc"]), ini(text))
        if why: why="doc: "+why
    if not why:
        try:
            t2=TreeInfo(); t2.loads(text)
        except Exception as e: why="load raised "+type(e).__name__
    if not why:
        f2=io.StringIO(); t2.dump(f2, main_variant=(None if mv is None else (o["main"]))); 
        if f2.getvalue()!=text: why="re-dump differs"
    if why:
        # input signatures of the known findings
        sig = "F-04a" if any(k in ("variant","optional") for k in o["kidtype"].values()) and why.startswith("load raised NoSectionError") else \
              "F-04b" if o["keyby"]=="id" and "S-o" in o["tops"] and why=="re-dump differs" else "UNKNOWN: "+why
        viol[sig]+=1; first.setdefault(sig,(o,why))
print("trees",n,"verdicts",dict(viol))
for s,(o,w) in first.items(): print(" ",s,w,json.dumps(o)[:300])
