INIT Init
NEXT Next
INVARIANT AllValid
INVARIANT RoundTripImpl
CHECK_DEADLOCK FALSE
