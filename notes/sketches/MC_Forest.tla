---- MODULE MC_Forest ----
EXTENDS Forest
V(i, u, ar, t) == [id |-> i, uid |-> u, arches |-> ar, type |-> t, dashed |-> FALSE]
MCObj == [ a   |-> V("A", <<"A">>, {"x","y"}, "variant"),
           aa  |-> V("A", <<"A","A">>, {"x"}, "variant"),
           ab  |-> V("B", <<"A","B">>, {"x"}, "addon"),
           aab |-> V("B", <<"A","A","B">>, {"x"}, "addon"),
           aby |-> V("B", <<"A","B">>, {"x","z"}, "addon"),     \* foreign arch z
           c   |-> V("C", <<"C">>, {"y"}, "variant") ]
====
