---- MODULE ImagesManifest ----
EXTENDS Naturals, FiniteSets, Sequences, TLC
CONSTANTS Variants, Arches, Pool,          \* Pool: image id -> [ident, sums]
          KnownArch, SrcArch,              \* classes of architecture names
          Current, Dev_FreshVersionZero
VARIABLES hdr, cells, exempt, out          \* out: outcome of the last call

Ver(v)        == CASE v = "0.0" -> 0 [] v = "1.0" -> 10 [] v = "1.1" -> 11 [] v = "1.2" -> 12
Filed         == UNION { cells[c] : c \in DOMAIN cells }
Collides(i,j) == Pool[i].ident = Pool[j].ident /\ Pool[i].sums # Pool[j].sums
Init == /\ hdr = IF Dev_FreshVersionZero THEN "0.0" ELSE Current
        /\ cells = [c \in {} |-> {}] /\ exempt = FALSE /\ out = "new"

Add(v, a, i) ==
  LET badArch == a \notin KnownArch \/ a \in SrcArch
      clash   == Ver(hdr) >= 11 /\ \E j \in Filed : Collides(i, j)
  IN  IF badArch \/ clash
      THEN /\ out' = "ValueError" /\ UNCHANGED <<hdr, cells, exempt>>
      ELSE /\ cells' = [c \in DOMAIN cells \cup {<<v,a>>} |->
                          IF c = <<v,a>> THEN (IF c \in DOMAIN cells THEN cells[c] ELSE {}) \cup {i}
                          ELSE cells[c]]
           /\ out' = "ok" /\ UNCHANGED <<hdr, exempt>>
SetVersion(v) == /\ hdr' = v /\ exempt' = (exempt \/ Ver(v) < 11)
                 /\ out' = "ok" /\ UNCHANGED cells
Dump          == hdr' = Current /\ out' = "ok" /\ UNCHANGED <<cells, exempt>>
Next == \/ \E v \in Variants, a \in Arches, i \in DOMAIN Pool : Add(v, a, i)
        \/ \E v \in {"1.0", "1.1", "1.2"} : SetVersion(v)
        \/ Dump
NoSourceArch  == \A c \in DOMAIN cells : c[2] \in KnownArch \ SrcArch
UniqueIdent   == ~exempt => \A i, j \in Filed : ~Collides(i, j)
RefusedIsNoop == [][out' = "ValueError" => UNCHANGED <<hdr, cells>>]_<<hdr,cells,out>>
Bound == Cardinality(Filed) <= 3 /\ Cardinality(DOMAIN cells) <= 3
====
