---- MODULE Forest ----
EXTENDS Naturals, Sequences, FiniteSets, TLC
CONSTANTS Obj,            \* object id -> [id, uid (Seq of id tokens), arches, type, dashed]
          ROOT, None,
          Dev_FalsyParent, Dev_ParentSetFirst, Dev_RecurseDropsArch
VARIABLES kids,           \* [container -> [key -> object]]  children dictionaries (key = id)
          par,            \* [object -> container or None]   parent back-pointers
          out
Objs == DOMAIN Obj
Cont == Objs \cup {ROOT}
vars == <<kids, par, out>>
Empty == [k \in {} |-> None]
Init == kids = [c \in Cont |-> Empty] /\ par = [o \in Objs |-> None] /\ out = "new"

Range(f) == {f[k] : k \in DOMAIN f}
\* bounded ancestor chain of a container (parent pointers may be corrupted into a cycle)
RECURSIVE Anc(_, _, _)
Anc(c, p, n) == IF c = ROOT \/ c = None \/ n = 0 THEN {} ELSE {c} \cup Anc(p[c], p, n-1)

\* ---- validation of object o given parent pointers p and children k (composeinfo.py:815-845)
UidOk(o, p) == IF p[o] = None
               THEN (IF Obj[o].dashed THEN TRUE ELSE Obj[o].uid = <<Obj[o].id>>)   \* dashes removed = id
               ELSE Obj[o].uid = Append(Obj[p[o]].uid, Obj[o].id)
ParentTruthy(o, p, k) == p[o] # None /\ (~Dev_FalsyParent \/ DOMAIN k[p[o]] # {})
ArchOk(o, p, k) == ParentTruthy(o, p, k) => Obj[o].arches \subseteq Obj[p[o]].arches
ValidObj(o, p, k) == Obj[o].arches # {} /\ UidOk(o, p) /\ ArchOk(o, p, k)

Add(c, o) ==
  LET p1  == IF c # ROOT THEN [par EXCEPT ![o] = c] ELSE par      \* parent is set before validating
      ok  == /\ ValidObj(o, p1, kids)
             /\ (c # ROOT => o \notin Anc(c, p1, Cardinality(Objs) + 1))
             /\ (Obj[o].id \in DOMAIN kids[c] => kids[c][Obj[o].id] = o)
  IN IF ok
     THEN /\ kids' = [kids EXCEPT ![c] = [key \in DOMAIN kids[c] \cup {Obj[o].id} |->
                                            IF key = Obj[o].id THEN o ELSE kids[c][key]]]
          /\ par' = p1 /\ out' = "ok"
     ELSE /\ kids' = kids /\ out' = "ValueError"
          /\ par' = IF Dev_ParentSetFirst THEN p1 ELSE par
\* scope of the property: a variant object that is already filed is only re-added to the
\* same container (duplicate) or to one of its own descendants (ancestor cycle attempt)
Filed(o) == \E c \in Cont : o \in Range(kids[c])
InScope(c, o) == Filed(o) => (o \in Range(kids[c]) \/ (c # ROOT /\ o \in Anc(c, par, Cardinality(Objs) + 1)))
Next == \E c \in Cont, o \in Objs : InScope(c, o) /\ Add(c, o)

\* ---- reachable forest
RECURSIVE Desc(_, _)
Desc(c, n) == IF n = 0 THEN {} ELSE Range(kids[c]) \cup UNION {Desc(d, n-1) : d \in Range(kids[c])}
InForest == Desc(ROOT, 4)

\* ---- lookup: VariantBase.__getitem__ (composeinfo.py:553-565); name = Seq of id tokens ("A-B" = <<A,B>>)
RECURSIVE Lookup(_, _)
Lookup(c, name) ==
  IF Len(name) = 1 THEN (IF name[1] \in DOMAIN kids[c] THEN kids[c][name[1]] ELSE None)
  ELSE LET hit == {d \in Range(kids[c]) : Obj[d].uid = name}
       IN IF hit # {} THEN CHOOSE d \in hit : TRUE
          ELSE IF name[1] \in DOMAIN kids[c] THEN Lookup(kids[c][name[1]], Tail(name)) ELSE None

\* ---- get_variants (composeinfo.py:612-638), as a set (ordering is checked on the implementation)
RECURSIVE GetV(_, _, _, _, _)
GetV(c, arch, types, rec, n) ==
  IF n = 0 THEN {} ELSE
  UNION { IF (types # {} /\ Obj[d].type \notin types) \/ (arch # None /\ arch # "src" /\ arch \notin Obj[d].arches)
          THEN {}
          ELSE {d} \cup (IF rec THEN GetV(d, IF Dev_RecurseDropsArch THEN None ELSE arch, types, TRUE, n-1) ELSE {})
        : d \in Range(kids[c]) }

\* ---- properties (C11)
UidAligned   == \A o \in InForest : UidOk(o, par)
ArchSubset   == \A o \in InForest : par[o] # None => Obj[o].arches \subseteq Obj[par[o]].arches
ParentMirror == \A c \in Cont : \A o \in Range(kids[c]) : (c = ROOT /\ par[o] = None) \/ (c # ROOT /\ par[o] = c)
Findable     == \A o \in InForest :
                   /\ Lookup(ROOT, Obj[o].uid) = o
                   /\ (par[o] # None => Lookup(par[o], <<Obj[o].id>>) = o)
GetVSound    == \A arch \in {None, "x", "y", "src"}, types \in SUBSET {"variant", "addon"}, rec \in BOOLEAN :
                  \A d \in GetV(ROOT, arch, types, rec, 4) :
                     /\ (arch \in {"x","y"} => arch \in Obj[d].arches)
                     /\ (types # {} => Obj[d].type \in types)
RefusedNoop  == [][out' = "ValueError" => UNCHANGED <<kids, par>>]_vars
Bound == Cardinality(InForest) <= 4
====
