SPECIFICATION Spec
INVARIANT FailedDumpLeavesDisk
INVARIANT SuccessWrites
PROPERTY Terminates
CHECK_DEADLOCK FALSE
CONSTANTS
 NPoints = 32
 NTop = 0
 Dev_OpenBeforeSerialize = TRUE
