---- MODULE TIDoc ----
EXTENDS Naturals, Sequences, FiniteSets, TLC, Json
\* treeinfo: top-level variants (one possibly dashed "Server-optional"), children of 3 types,
\* path kinds, tree arch (binary / src), main variant choice; expected INI sections incl. [general]
Tops   == {"A", "B", "S-o"}                 \* "S-o": uid with dash, id "o"
Kids   == {"h"}
Types  == {"variant", "optional", "addon"}
Kinds  == {"packages", "repository", "source_packages"}
Empty  == [k \in {} |-> 0]
IdOf(u) == IF u = "S-o" THEN "o" ELSE u
VARIABLES tops, kidtype, keyby, paths, arch, main
\* kidtype[t] \in Types \cup {"none"}: type of the single child "h" of top t ("none" = childless)
Init == /\ tops \in (SUBSET Tops) \ {{}}
        /\ kidtype \in [tops -> Types \cup {"none"}] /\ ("S-o" \in tops => kidtype["S-o"] = "none")
        /\ keyby \in {"uid", "id"}            \* container key used when adding a top-level variant
        /\ paths \in [tops -> SUBSET Kinds]
        /\ arch \in {"x86_64", "src"}
        /\ main \in tops \cup {"default"}
Next == FALSE /\ UNCHANGED <<tops, kidtype, keyby, paths, arch, main>>
Key(t) == IF keyby = "uid" THEN t ELSE IdOf(t)
Sorted(S) == [sorted |-> S]
Csv(S) == [csv |-> S]                           \* rendered as ",".join(sorted(S))
PathVal(u, k) == "$path:" \o u \o ":" \o k
SecName(u, ty) == (IF ty = "addon" THEN "addon-" ELSE "variant-") \o u
TopSec(t) == ("id" :> IdOf(t)) @@ ("uid" :> t) @@ ("name" :> "$name:" \o t) @@ ("type" :> IF t = "S-o" THEN "optional" ELSE "variant")
             @@ [k \in paths[t] |-> PathVal(t, k)]
             @@ (IF kidtype[t] # "none" THEN ("addons" :> Csv({t \o "-h"})) ELSE Empty)
KidSec(t) == ("id" :> "h") @@ ("uid" :> t \o "-h") @@ ("name" :> "$name:" \o t \o "-h") @@ ("type" :> kidtype[t])
             @@ ("parent" :> t) @@ ("packages" :> PathVal(t \o "-h", "packages"))
WithKid == {t \in tops : kidtype[t] # "none"}
\* [general]: variant = requested main or alphabetically first *container key*
Keys == {Key(t) : t \in tops}
MainKey == IF main = "default" THEN [first |-> Keys] ELSE Key(main)     \* rendered: min(Keys)
General(mt) ==  \* mt: the top-level uid that is the main variant (resolved by the harness for "default")
  ("variant" :> MainKey) @@ ("variants" :> Csv(Keys)) @@ ("arch" :> arch)
Doc == [s \in {SecName(t, "variant") : t \in tops} \cup {SecName(t \o "-h", kidtype[t]) : t \in WithKid} |->
          IF \E t \in tops : s = SecName(t, "variant") THEN TopSec(CHOOSE t \in tops : s = SecName(t, "variant"))
          ELSE KidSec(CHOOSE t \in WithKid : s = SecName(t \o "-h", kidtype[t]))]
        @@ ("tree" :> (("arch" :> arch) @@ ("variants" :> Csv(tops))))
        @@ ("general" :> General(main))
Obj == [tops |-> tops, kidtype |-> kidtype, keyby |-> keyby, paths |-> paths, arch |-> arch, main |-> main]
Emit == PrintT("@@" \o ToJson([obj |-> Obj, doc |-> Doc]))
====
