INIT Init
NEXT Next
CONSTRAINT Emit
INVARIANT TopDetect
INVARIANT UidOnce
CHECK_DEADLOCK FALSE
