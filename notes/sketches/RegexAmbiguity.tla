---- MODULE RegexAmbiguity ----
EXTENDS Naturals, FiniteSets, Sequences, TLC
CONSTANTS Edges, Atoms   \* Edges: set of [id, from, atom, to]
VARIABLES piv, x, y, div, word
vars == <<piv, x, y, div, word>>
States == {e.from : e \in Edges}
Init == /\ piv \in States /\ x = piv /\ y = piv /\ div = FALSE /\ word = <<>>
Step == \E e1, e2 \in Edges :
          /\ e1.from = x /\ e2.from = y /\ e1.atom = e2.atom
          /\ x' = e1.to /\ y' = e2.to
          /\ div' = (div \/ e1.id # e2.id)
          /\ word' = Append(word, e1.atom)
          /\ UNCHANGED piv
Next == Step
NoEDA == ~(div /\ x = piv /\ y = piv)
View == <<piv, x, y, div>>
====
