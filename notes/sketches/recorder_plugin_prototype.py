import json, os, functools
OUT = os.environ.get("VERIF_TRACE_OUT", "/tmp/rec/trace.ndjson")
_events = []
def pytest_configure(config):
    import productmd.images as im
    orig = im.Images.add
    @functools.wraps(orig)
    def add(self, variant, arch, image):
        ident = list(im.identify_image(image)); before = sum(len(s) for v in self.images.values() for s in v.values())
        try:
            r = orig(self, variant, arch, image); out = "ok"; return r
        except ValueError: out = "ValueError"; raise
        finally:
            after = sum(len(s) for v in self.images.values() for s in v.values())
            _events.append(dict(obj=id(self), op="add", v=variant, a=arch, ident=ident, sums=image.checksums, hdr=self.header.version, out=out, nbefore=before, nafter=after))
    im.Images.add = add
def pytest_unconfigure(config):
    with open(OUT, "w") as f:
        for e in _events: f.write(json.dumps(e, default=str) + "\n")
