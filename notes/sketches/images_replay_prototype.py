import sys, json, os, collections
sys.path.insert(0, os.environ.get("VERIF_REPO","/repo"))
from productmd.images import Images, Image
POOL={"i1a":("I1","c1"),"i1b":("I1","c2"),"i2":("I2","c1"),"i1a2":("I1","c1")}
def mkimg(m,name):
    ident,sums=POOL[name]; i=Image(m); i.path=name+".iso"; i.mtime=1; i.size=2; i.volume_id=None; i.type="dvd"; i.format="iso"; i.arch="x86_64"; i.disc_number=1; i.disc_count=1
    i.checksums={"sha256":{"c1":"a","c2":"b"}[sums]*64}; i.implant_md5=None; i.bootable=False; i.subvariant=ident; return i
n=0; viol=collections.Counter(); first={}
for line in open(sys.argv[1]):
    if not line.startswith('"@@'): continue
    rec=json.loads(json.loads(line)[2:]); n+=1
    m=Images(); m.compose.id="F-22-20150522.0"; m.compose.type="production"; m.compose.date="20150522"; m.compose.respin=0
    imgs={k:mkimg(m,k) for k in POOL}
    ok=True
    for step,ev in enumerate(rec["hist"]):
        before={(v,a):frozenset(i.path for i in s) for v in m.images for a,s in m.images[v].items()}
        try:
            if ev["op"]=="add": m.add(ev["v"],ev["a"],imgs[ev["img"]])
            elif ev["op"]=="setversion": m.header.version=ev["ver"]
            elif ev["op"]=="dump": m.dumps()
            out="ok"
        except ValueError: out="ValueError"
        after={(v,a):frozenset(i.path for i in s) for v in m.images for a,s in m.images[v].items()}
        if out!=ev["out"]: ok=False; why="outcome step %d: model %s code %s"%(step,ev["out"],out); break
        if out=="ValueError" and before!=after: ok=False; why="refused add changed state"; break
    if ok:
        got={"%s/%s"%k:sorted(p[:-4] for p in s) for k,s in after.items()} if rec["hist"] else {}
        exp={k:sorted(v) for k,v in rec["cells"].items() if v}
        if got!=exp: ok=False; why="cells differ"
    if not ok:
        sig=why.split(":")[0]; viol[sig]+=1; first.setdefault(sig,(rec["hist"],why))
print("histories",n,"violations",dict(viol))
for s,(h,w) in first.items(): print(" first:",w,"\n   ",json.dumps(h))
