import sys, json, time
sys.path.insert(0,'/repo')
from productmd.composeinfo import ComposeInfo, Variant
CATMAP={"c1":"os_tree","c2":"debug_repository"}; ARCH={"x":"x86_64","y":"ppc64le"}
def render(x):
    if isinstance(x,dict):
        if set(x)=={"sorted"}: return sorted(render(v) for v in x["sorted"])
        return {CATMAP.get(k,ARCH.get(k,k)):render(v) for k,v in x.items()}
    if isinstance(x,list): return {} if x==[] else [render(v) for v in x]
    if isinstance(x,str):
        if x.startswith("$path:"):
            _,u,c,a=x.split(":"); return "%s/%s/%s"%(u,ARCH[a],CATMAP[c])
        if x.startswith("$name:"): return "Pretty "+x[6:]
        return {"$lpname":"Sat","$lpshort":"SAT","$lpver":"6.0"}.get(x, ARCH.get(x,x))
    return x
seen=set(); n=bad=0; t0=time.time()
for line in open(sys.argv[1]):
    if not line.startswith('"@@'): continue
    if line in seen: continue
    seen.add(line)
    rec=json.loads(json.loads(line)[2:]); n+=1
    ci=ComposeInfo(); ci.release.name="F"; ci.release.short="F"; ci.release.version="22"; ci.release.type="ga"
    ci.compose.id="F-22-20150522.0"; ci.compose.type="production"; ci.compose.date="20150522"; ci.compose.respin=0
    objs={}
    for nd in sorted(rec["obj"]["nodes"], key=lambda d: len(d["path"])):
        p=nd["path"]; v=Variant(ci); v.id=p[-1]; v.uid="-".join(p); v.name="Pretty "+v.uid; v.type=nd["type"]; v.arches=set(ARCH[a] for a in nd["arches"])
        if v.type=="layered-product": v.release.name="Sat"; v.release.short="SAT"; v.release.version="6.0"; v.release.type="ga"
        for c,a,cls in nd["paths"]:
            getattr(v.paths,CATMAP[c])[ARCH[a]] = ("%s/%s/%s"%(v.uid,ARCH[a],CATMAP[c]) if cls=="set" else "")
        (ci.variants if len(p)==1 else objs[tuple(p[:-1])]).add(v); objs[tuple(p)]=v
    text=ci.dumps(); got=json.loads(text)["payload"]["variants"]; exp=render(rec["variants"])
    c2=ComposeInfo(); c2.loads(text)
    if got!=exp or c2.dumps()!=text:
        bad+=1
        if bad<4: print("MISMATCH\n exp",json.dumps(exp,sort_keys=True)[:600],"\n got",json.dumps(got,sort_keys=True)[:600])
print("objects",n,"bad",bad,"secs",round(time.time()-t0,1))
