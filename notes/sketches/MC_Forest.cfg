INIT Init
NEXT Next
INVARIANT UidAligned
INVARIANT ArchSubset
INVARIANT ParentMirror
INVARIANT Findable
INVARIANT GetVSound
PROPERTY RefusedNoop
CONSTRAINT Bound
CHECK_DEADLOCK FALSE
CONSTANTS
 ROOT = ROOT
 None = None
 Obj <- MCObj
 Dev_FalsyParent = FALSE
 Dev_ParentSetFirst = FALSE
 Dev_RecurseDropsArch = FALSE
