---- MODULE MC_Images ----
EXTENDS ImagesManifest
MCPool == [i1a |-> [ident |-> "I1", sums |-> "c1"], i1b |-> [ident |-> "I1", sums |-> "c2"], i2 |-> [ident |-> "I2", sums |-> "c1"]]
====
