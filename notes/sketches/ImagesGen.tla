---- MODULE ImagesGen ----
EXTENDS Naturals, FiniteSets, Sequences, TLC, Json
CONSTANTS D
VARIABLES hdr, cells, exempt, out, hist
MCPool == [i1a |-> [ident |-> "I1", sums |-> "c1"], i1b |-> [ident |-> "I1", sums |-> "c2"],
           i2  |-> [ident |-> "I2", sums |-> "c1"], i1a2 |-> [ident |-> "I1", sums |-> "c1"]]
M == INSTANCE ImagesManifest WITH Variants <- {"S","C"}, Arches <- {"x86_64","src","bogus"},
        Pool <- MCPool, KnownArch <- {"x86_64","src"}, SrcArch <- {"src"}, Current <- "1.2",
        Dev_FreshVersionZero <- FALSE
Init == M!Init /\ hist = <<>>
Next == /\ Len(hist) < D
        /\ \/ \E v \in {"S","C"}, a \in {"x86_64","src","bogus"}, i \in DOMAIN MCPool :
                 M!Add(v, a, i) /\ hist' = Append(hist, [op |-> "add", v |-> v, a |-> a, img |-> i, out |-> out'])
           \/ \E v \in {"1.0","1.1"} : M!SetVersion(v) /\ hist' = Append(hist, [op |-> "setversion", ver |-> v, out |-> "ok"])
           \/ M!Dump /\ hist' = Append(hist, [op |-> "dump", out |-> "ok"])
CellsJson == [c \in {v \o "/" \o a : v \in {"S","C"}, a \in {"x86_64"}} |->
                LET k == CHOOSE k \in {<<v, a>> : v \in {"S","C"}, a \in {"x86_64"}} : k[1] \o "/" \o k[2] = c
                IN IF k \in DOMAIN cells THEN cells[k] ELSE {}]
Emit == PrintT("@@" \o ToJson([hist |-> hist, cells |-> CellsJson, hdr |-> hdr, exempt |-> exempt]))
UniqueIdent == M!UniqueIdent
NoSourceArch == M!NoSourceArch
====
